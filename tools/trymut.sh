#!/bin/bash
# usage: trymut.sh <patch> <ID> [tier]  -- applies a seeded change to /repo, runs the check, reverts
set -u
P=$1; ID=$2; T=${3:-quick}
cd /repo && git apply "$P" || { echo "patch does not apply"; exit 3; }
(cd /verif && VERIF_TARGET=/verif/target/mut timeout 1500 ./check $ID --tier $T > /tmp/trymut_$ID.log 2>&1; echo "exit=$?"; grep -E "^(VIOLATION|KNOWN|OK|MACHINERY)" -A2 /tmp/trymut_$ID.log | head -12)
cd /repo && git checkout -- . && git status --short
