#!/bin/bash
# usage: sweep.sh <out-log> <seed-dir-name>...   -- regression sweep: re-runs filed seeds against the checks named in
# their meta.json. Builds from a snapshot of the harness sources (so that editing /verif meanwhile is harmless) into
# the separate target root; /repo is patched only while the lock /tmp/wt/repo.lock is held (tools/ck takes the same
# lock for runs on the unchanged tree).
set -u
OUT=$1; shift
SNAP=/verif/target/snap
mkdir -p $SNAP /tmp/wt
rsync -a --delete /verif/check /verif/harness /verif/harness_sched /verif/tools /verif/models /verif/known_findings.json $SNAP/ 2>/dev/null
export VERIF_TARGET=/verif/target/mut CARGO_NET_OFFLINE=true
: > $OUT
for seed in "$@"; do
  D=/verif/seeded/$seed
  [ -f $D/patch.diff ] || { echo "$seed NO-PATCH" >> $OUT; continue; }
  own=$(echo $seed | cut -c1-3)
  ids=$(python3 - "$D/meta.json" "$own" <<'PY'
import json,re,sys
m=json.load(open(sys.argv[1])); own=sys.argv[2]
ids=[own]
for x in re.findall(r'C\d\d', str(m.get('detection',''))):
    if x not in ids: ids.append(x)
print(' '.join(ids[:4]))
PY
)
  flock /tmp/wt/repo.lock bash -c "cd /repo && git apply $D/patch.diff && (cd $SNAP && ./check setup > /tmp/wt/sweep_build.log 2>&1); rc=\$?; cd /repo && git checkout -- .; exit \$rc"
  if [ $? -ne 0 ]; then echo "$seed BUILD-FAILED $(tail -1 /tmp/wt/sweep_build.log | cut -c1-100)" >> $OUT; continue; fi
  line="$seed"
  caught=0
  for id in $ids; do
    case $id in C05|C17) bin=$VERIF_TARGET/sched/release/fp_sched_checks;; *) bin=$VERIF_TARGET/plain/release/fp_checks;; esac
    (cd /verif && timeout 900 $bin $id --tier quick > /tmp/wt/sweep_run.log 2>/dev/null); rc=$?
    [ $rc -eq 1 ] && caught=1
    line="$line $id=$rc"
  done
  [ $caught -eq 1 ] && line="$line CAUGHT" || line="$line MISSED"
  echo "$line" >> $OUT
done
echo ALLDONE >> $OUT
