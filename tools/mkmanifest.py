#!/usr/bin/env python3
"""Generates /verif/MANIFEST.json from the table below (kept in one place so it stays valid)."""
import json, os, subprocess

VERIF = os.path.dirname(os.path.dirname(os.path.abspath(__file__)))

# id -> (engine, category, technique, text, note, has_thorough)
CHECKS = {
 "C03": ("enum", "exploration",
         "bounded-exhaustive enumeration of inputs x configurations x read-chunk deviations against an independent chain walker",
         "Every link pattern over 3 links up to length 5 (6 thorough) x 12 filters x {payload loaded, skipped} x {file-like, pipe-like reader} x short-read deviations {1,7,64} through the real InputScanner, batch boundaries through the real reader thread for CAP 1,2,3,100, payload-size pairs, every header byte at 0x00/0xFF/0xA5, plus the real CLI (view rdh -d, file and stdin); each compared packet by packet (offset, 64 header bytes, decoded fields, payload, counters) with an independent walk of the RDH chain. Exhaustive within these bounds, not beyond.",
         "Trusts: the model's RDH layout (from the RDH v6/v7 specification); the in-memory reader as a stand-in for BufReader<File>/stdin (cross-checked through the CLI on real files and pipes).",
         True),
}

NOT_YET = {
}

def main():
    props = [json.loads(l) for l in open(os.path.join(VERIF, "properties.jsonl"))]
    hooks_commits = []
    try:
        out = subprocess.run(["git", "-C", "/repo", "log", "--format=%H %s"], capture_output=True, text=True).stdout
        for line in out.splitlines():
            h, s = line.split(" ", 1)
            if s.startswith("verif-hook:"):
                hooks_commits.append(h)
    except Exception:
        pass
    checks = []
    na = []
    for p in props:
        pid = p["id"]
        if pid in CHECKS:
            eng, cat, tech, text, note, thorough = CHECKS[pid]
            c = {
                "property_id": pid,
                "quick_cmd": "./check %s --tier quick" % pid,
                "evidence_file": "/verif/evidence/%s.json" % pid,
                "replay_cmd_template": "./check %s --replay {path}" % pid,
                "engine": eng,
                "level_claimed": {"category": cat, "text": text, "design_ref": "DESIGN.md section 5, %s" % pid},
                "level_note": note,
                "technique": tech,
            }
            if thorough:
                c["thorough_cmd"] = "./check %s --tier thorough" % pid
            checks.append(c)
        else:
            na.append({"property_id": pid, "reason": NOT_YET.get(pid, "check under construction in this round; not claimed until it runs clean on the unchanged tree (see DESIGN.md section 5 for the planned exploration)")})
    m = {
        "version": 1,
        "setup_cmd": "./check setup",
        "hooks": {
            "guard": "--cfg fastpasta_verif (read-only accessors / markers) and --cfg fastpasta_verif_sched (import swap to the scheduler shims, only in the sched build)",
            "enable": "RUSTFLAGS=--cfg fastpasta_verif via /verif/harness/.cargo/config.toml (path dependencies on /repo/fastpasta and /repo/alice_protocol_reader) and for the CLI build in ./check; the sched build adds --cfg fastpasta_verif_sched",
            "baseline_off_cmd": "cd /repo && cargo nextest run --workspace --no-fail-fast --tool-config-file pb:/w/lib/nextest.toml --profile pb --test-threads 8 --offline",
            "source_commits": hooks_commits,
            "add_only": True,
        },
        "engines": [
            {"name": "enum", "path": "harness/fp_checks", "serves_properties": sorted(k for k, v in CHECKS.items() if v[0].startswith("enum")), "kind_free_text": "bounded-exhaustive input/fault enumeration of the real code (in-process and CLI) against the independent reference model fp_model"},
            {"name": "xs", "path": "harness/fp_checks (xs module)", "serves_properties": sorted(k for k, v in CHECKS.items() if v[0].startswith("xs")), "kind_free_text": "explicit-state BFS over the product of real component x reference model, to fixpoint"},
            {"name": "sched", "path": "harness_sched", "serves_properties": sorted(k for k, v in CHECKS.items() if v[0].startswith("sched")), "kind_free_text": "CHESS-style deviation-bounded controlled scheduler over the real threads via channel/thread/atomic shims"},
        ],
        "checks": checks,
        "not_applicable": na,
        "notes": "All checks rebuild /repo's working tree (harness path-depends on it; the CLI is rebuilt into /verif/target/cli). Exit 2 = machinery failure, never a verdict. Known findings: /verif/known_findings.json.",
    }
    json.dump(m, open(os.path.join(VERIF, "MANIFEST.json"), "w"), indent=1)
    print("MANIFEST.json: %d checks, %d not claimed" % (len(checks), len(na)))

if __name__ == "__main__":
    main()
