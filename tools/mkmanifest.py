#!/usr/bin/env python3
"""Generates /verif/MANIFEST.json from the table below (kept in one place so it stays valid)."""
import json, os, subprocess

VERIF = os.path.dirname(os.path.dirname(os.path.abspath(__file__)))

# id -> (engine, category, technique, text, note, has_thorough)
CHECKS = {
 "C03": ("enum", "exploration",
         "bounded-exhaustive enumeration of inputs x configurations x read-chunk deviations against an independent chain walker",
         "Every link pattern over 3 links up to length 5 (6 thorough) x 12 filters x {payload loaded, skipped} x {file-like, pipe-like reader} x short-read deviations {1,7,64} through the real InputScanner, batch boundaries through the real reader thread for CAP 1,2,3,100, payload-size pairs, every header byte at 0x00/0xFF/0xA5, plus the real CLI (view rdh -d, file and stdin); each compared packet by packet (offset, 64 header bytes, decoded fields, payload, counters) with an independent walk of the RDH chain. Exhaustive within these bounds, not beyond.",
         "Trusts: the model's RDH layout (from the RDH v6/v7 specification); the in-memory reader as a stand-in for BufReader<File>/stdin (cross-checked through the CLI on real files and pipes).",
         True),
}

CHECKS.update({
 "C08": ("enum", "exploration",
         "bounded-exhaustive enumeration of CLI runs (streams x filters x destinations x sources) against the model's chain walk + filter predicate",
         "All link patterns over 3 links up to length 4 (5 thorough) x every present link / FEE / layer-stave value and one absent value each x {-o file, implicit stdout, -o stdout} x {file, stdin} on the real binary; batch multiples (99..300 packets); every header byte of a non-first packet at 0x00/0xFF/0xA5; payload totals > 2^16; the -o destination absent / holding a short / a longer stale file. Each output is compared byte for byte with the concatenation the model computes, must walk cleanly, must be reproduced by filtering it again, the Filter-stats count must equal the number of matching packets, and the per-link outputs must partition the input.",
         "Trusts the model's filter predicates (link id equality, FEE id equality, layer[14:12]+stave[5:0] equality) taken from the option documentation; first packet of every stream carries a recognisable RDH0.",
         True),
 "C10": ("xs+enum", "model_checking",
         "explicit-state BFS to fixpoint over the product (documented running-rule automaton x real LinkValidator RDH checkers) with a per-step oracle; plus complete single/pair bit-flip and boundary-value enumeration",
         "xs: every RDH sequence over a 192-symbol alphabet (page 0..3 x stop 0..2 x 2 orbits x 2 triggers x 2 FEE ids x 2 detector fields) that starts with pages 0,1 is covered by closure: BFS over (model state, implementation fingerprint) reaches a fixpoint (393 states, 74 000 transitions), every transition executed on the real LinkValidator and judged: E10 iff rule table, E11 iff documented running rules, at the RDH's offset; merged histories are re-checked on the full alphabet (abstraction check). enum: all 512 single-bit flips at RDH 0/1/4 of a 6-RDH sequence x 4 modes, pairs of flips at RDH 4 (all 130 816 in thorough, a fixed quarter in quick), pairs of flips at the first RDH (one bit inside RDH0 in quick, all pairs in thorough: the first RDH initialises the per-link memories), field boundary sets; whole-sequence verdicts compared with the rule table.",
         "Trusts the rule table of DESIGN.md Appendix A (checks_list.md + property text: BC 0xdeb legal, detector-field bits 12..23 reserved, detector-field change is a warning). Expected page counters > 5 are merged (alphabet pages <= 3), verified by the abstraction check.",
         True),
 "C11": ("enum", "exploration",
         "bounded-exhaustive enumeration of word values (all ids x zero/single/pair/all-ones bodies) through the real checkers against documented predicates",
         "Per status word type all 256 identifier bytes x {zero, 72 single bits, 2556 bit pairs, all ones} = 673 280 values on the public sanity checkers, all 2^13 TDH flag/trigger combinations, the same families through the real CdpRunningValidator (documented code at the word's offset iff the rule rejects), and 256 data-word ids x 58 lane masks x {sanity, all} modes. Thorough adds all 59 640 three-bit bodies per type with the right identifier. Complete for these families; distinguishes every mask or range that differs from the documented one in at most two bit positions.",
         "2^80 values per type are not enumerable; single+pair+all-ones coverage is the stated bound. Lane rules are treated as running checks (not reported by check sanity), as C02 states.",
         True),
})

CHECKS.update({
 "C09": ("xs", "model_checking",
         "explicit-state BFS to fixpoint over the product (diagram automaton bound to the .puml x real ItsPayloadFsmContinuous), then every (reachable state, identifier byte, flag bits) one-step extension",
         "The complete reachable product of the real FSM (state id via the cfg(fastpasta_verif) hook, driven bare and inside a real CdpRunningValidator) and the documented automaton is explored to its fixpoint (11 product states, all 11 generated variants reached, every legal (state, symbol) cell taken); from every reachable state one more step is taken with all 256 identifier bytes x {no_data} x {packet_done} (11 264 words, ~10 600 illegal pairs). Invariants per step: classification = the diagram's, successor relation variant -> diagram state is a function, illegal ids are reported at that word (expected word's sanity code in single-successor states, E990/E991/E992 in choice states), legal words are not reported as unrecognised, the FSM inside the validator is in the same state as the bare one. The model is bound to doc/ITS_payload_fsm_continuous_mode.puml: its 23 edges are parsed at start-up and must equal the encoded ones.",
         "Trusts the reading of the diagram in DESIGN.md Appendix B (CDW accepted in data states per checks_list.md; TDT directly after a data TDH: classification judged, report not judged). No successor is defined after an illegal word, such paths end.",
         False),
 "C12": ("enum", "exploration",
         "bounded-exhaustive enumeration of payload shapes (format x word count x padding length) through the real slicer and a real LinkValidator against the model slicer",
         "Formats {0,2} x word counts {0..12, 511, 512, 700 quick / every count 0..700 thorough} x 0..40 trailing 0xFF bytes (so every size residue mod 10 and mod 16) through preprocess_payload (count and bytes of every chunk) and through a real LinkValidator in two modes with individually recognisable faulty words (the set of reported offsets + quoted bytes shows exactly which bytes were examined as words, once each, in order); > 15 bytes of 0xFF: exactly one 'Payload error following RDH' at the RDH offset, no word examined, FSM state id back to initial (hook) and a following conforming HBF accepted, from 14 lead-in states (every prefix of a complete page and of a page ending with TDT packet_done = 0); all 63 proper subsets of zero bytes among the first six bytes of the second word of a format-2 payload must still be cut as format 2. The two readout-frame views on the real CLI for word counts {2,3,8..11,16} (thorough {2..40,511,512,700}) x 0..15 padding bytes x both formats: every printed row is the model's decode of a real word, none comes from padding.",
         "Word contents that imitate the other format's padding (format-2 payload with six zero bytes at 10..15) are a separate row, see known findings / DESIGN.md section 6.",
         True),
})

CHECKS.update({
 "C01": ("xs+enum", "model_checking",
         "explicit-state BFS to fixpoint over the product (stream grammar as generator automaton x real LinkValidator stepped packet by packet), invariant 'no error message' on every transition; witness streams re-run on the CLI",
         "Per configuration (barrel x data format x RDH version x internal/physics triggers x detector-field status bits x the five check modes; stave mode with ALPIDE frames from the independent encoder, chip-empty frames with bunch counter 0 included) the product of the grammar automaton (pages with no-data runs, data events, CDW at start, events left open and continued over one or more pages, stop pages; 2 alternating orbits, BC ladder, 2 trigger types) and a real LinkValidator (verif_step = one iteration of run()) is explored breadth-first over (grammar state, implementation fingerprint) to its fixpoint (quick: 44 320 states / 368 836 transitions over 36 configurations); every transition is a real packet pushed through the real checks and must emit no Error/Fatal. Merged histories are re-checked on the full alphabet. Plus every lane identifier of every link kind (IB lane groups, ML/OL upper and lower halves, both data formats) in every word position (first after the TDH, after a CDW, first / last on a continuation page, last before the TDT). Second tier: maximal witness streams replicated over 1/2/3/12 links (contiguous and round-robin), padded around the 100-packet batch, run on the real CLI in the mode x {-, -m} x {-, -E 7}: no ERROR line, Total Errors 0, statistics total_errors 0, exit 0.",
         "Finite value registers (see evidence assumptions); hit contents from the encoder's finite alphabet; HBFs of at most 3 data pages (+1 to close an open event). Longer streams are covered by state closure under the checked abstraction, not by length. Equal consecutive trigger BCs are not generated (documents disagree).",
         True),
 "C02": ("enum", "exploration",
         "bounded-exhaustive fault enumeration: witness streams x fault catalogue x every applicable position x check modes, in-process through real LinkValidators (dispatched per link / FEE id) and on the CLI",
         "6 witness streams (built from the grammar's shape menus, which include pages ending with a no-data TDH followed by further pages; IB format 2 internal triggers, OL format 0 physics triggers, ML+IB interleaved; each also with ALPIDE frames for stave mode) x 63 catalogue faults (every RDH sanity field, RDH running rules, status/data word identifier and reserved-bit rules, state-dependent ITS rules E12/E110/E111/E41/E42/E44x/E71-73/E81, padding > 15) x every applicable RDH / word occurrence x 5 modes: at least one message of the rule's code family at the byte offset of the mutated RDH or word in every mode where the rule is active; no running code in any check sanity run; first applicable site per (witness, fault, mode) also on the CLI with -E 9 (exit status 9, message on stderr). A fault with no applicable site anywhere is a machinery error (vacuity guard).",
         "Trusts the rule table (DESIGN.md Appendix A). Consequential extra errors are allowed (the property says at least one). RDH0-level faults in the first packet of a file are judged in-process only (the CLI refuses such input at start-up).",
         True),
})

CHECKS.update({
 "C07": ("enum", "exploration",
         "bounded-exhaustive enumeration of error-producing runs; every produced message is compared with the input bytes it points at",
         "Every message of: the C02 fault x site menu in the modes of each witness; witness streams whose payload words / non-framing header bytes are replaced by arbitrary bytes (both data formats, 6 salts quick / 24 thorough) x 4-5 modes x {no filter, each link, each FEE id, each layer-stave filter} x {file-like, pipe-like scanner}; the same streams with empty-payload packets (offset to next = 64) of a foreign / the same link inserted at three position patterns (stepped over by the scanner in RDH-only modes and under filters); format-2 payloads whose second word begins with 1..5 zero bytes; truncated tails; a CLI subset (file and stdin). Per message: leading offset inside the input and at the start of an RDH or of a word slot of that packet's data format; the [b0..b9] dump that ends a word-level message equals the ten bytes at that offset; the `current :` row equals the RDH decoded at that offset and the `previous:` rows equal the same link's (FEE's in stave mode) two preceding RDHs.",
         "Premise of the property: payload layout agrees with the header's data format. Known finding: [E100]/[E101] point past the end of a truncated packet (pinned by an existing test, so not repaired). Panics are C04's subject.",
         True),
 "C18": ("enum", "fault_enumeration",
         "every cut position of the base streams (crash-point style enumeration of the end of input), in-process and on the CLI, compared with the untruncated run",
         "Every cut position 0..=len of 5 base streams (2-HBF single link with and without ALPIDE frames, two interleaved links in different data formats, a corrupted stream that produces messages before the cut, a faulty stream of 112/80-byte packets whose end offsets run through many leading hex digits): in-process through the real scanner (file-like and pipe-like) and real validators in check all / check all its / check all its-stave; on the real CLI from file and stdin for check all its(-stave) (messages + RDH count from the statistics file), view rdh -d and view its-readout-frames -d (rows). Normal termination (exit 0/1, no signal, no timeout), messages and rows for packets complete before the cut identical to the untruncated run, everything else attributed to the incomplete final packet.",
         "A message whose offset lies at or beyond the first incomplete packet is taken to concern that packet.",
         True),
})

CHECKS.update({
 "C05": ("sched", "model_checking",
         "stateless controlled-scheduler exploration of the real threads (all schedules with <= d deviations from the default schedule, replayable), plus exhaustive merge closure of per-sender message sequences through the real collector",
         "(a) The whole real pipeline (controller, reader, analysis/dispatcher, one validator per link or FEE id, statistics forwarder) runs as real OS threads under fp_sched: crossbeam_channel, flume, thread spawn/join and AtomicBool are swapped for scheduler shims (mirror packages + cfg(fastpasta_verif_sched) import swap), every channel operation, flag access, spawn, join, disconnection and thread exit is a scheduling point, every statistics send included. For 9 scenarios (check all / its / its-stave, muted and unmuted, 2-3 interleaved links with an E10+E11 pair on every RDH, JSON and TOML; two with the last payload cut short so that the reader's own E100 competes with the validators' messages; one check combined with a filter and an ignored -o destination) every schedule with at most 1 deviation (quick; 2 thorough) from each of two base schedules (default policy prefers the oldest / the youngest waiting thread, so orders that need many deviations from one base are reached from the other) is executed: statistics file bytes, any-errors flag and normal completion must be identical; the default schedule is replayed twice first (no uncontrolled nondeterminism). (b) Arrival-order closure: every order-preserving merge of per-validator error sequences for shapes around the standard library's unstable-sort thresholds ((2k,2) for k up to 24, (16,4), (4,4,4); more in thorough; 80 494 merges quick) through a fresh real StatsCollector (collect, finalize, serialise), muted and unmuted: one distinct output. (c) Commutation of collect over all ordered pairs of message kinds on representative states (only same-sender kinds may depend on order).",
         "One channel operation / flag access = one atomic step (crossbeam/flume are linearizable; the shim's enabledness rules are bound to the real crates by the depth-5/6 conformance run in C17). Complete only up to the deviation bound for the whole pipeline and for the listed merge shapes. Runs with an error cap or a fatal input error are excluded by the property.",
         True),
 "C17": ("sched+tlc+enum", "model_checking",
         "controlled-scheduler exploration with the stop event (Signal pseudo-thread, error cap, fatal error) placed at every scheduling point, small worlds (queue capacity 1-2), deadlock = no enabled thread; stdout closed after every N bytes on the real CLI; shim/real channel conformance",
         "sched: the real pipeline with every bounded queue overridden to capacity 1 or 2 and batches of 2 packets; a Signal pseudo-thread (does what the ctrl-c handler does) is a lazy thread, so each 1-deviation schedule places the signal at one scheduling point of the default schedule (thorough: of every 1-deviation schedule); error cap -e N for every N up to the exact number of errors of the stream (the stop flag itself must be raised in every execution: reaching the cap cuts the run short); a fatal framing error at every packet index; check all, check all its and filtered writing. Per execution: terminates (exact enabledness: no enabled thread while some thread is alive = deadlock; step horizon), no panic, main reaches its end with every thread joined, a filtered output file walks as whole packets and is a prefix of the expected filtered stream. Vacuity guards: a bounded queue was full in some execution, the stop flag was raised. Real OS signals on the real binary (the ctrl-c handler itself): {no earlier stop, error cap reached, fatal framing error} x {SIGINT, SIGTERM, SIGHUP} x {one, two signals} with the input pipe held open, and one signal 0/2/5/20 ms after start: one signal never forces the exit (no 'ungraceful shutdown', no panic, no fatal signal, end within the wall cap). CLI: views, filtered data, report and -S stdout with the stdout pipe shrunk to 4 KiB and closed after N bytes (every N <= 200, 1000..1050 and every 211th beyond in quick, every N in thorough): no signal, no timeout, no panic text. Conformance: all operation sequences to depth 5 (6 thorough) over 2 sender and 2 receiver handles on real crossbeam bounded(1)/bounded(2)/unbounded and flume agree with the scheduler's rules.",
         "OS signal delivery / the ctrlc crate are outside the scheduler (the handler body is modelled; the real handler is exercised by a menu of real signals, not at every instant). Step horizon and a 10 s wall cap stand in for 'bounded time'. TLA+ (models/Shutdown.tla): TLC verifies deadlock freedom, orderly end and termination for signal / error-cap / fatal-error instances over all interleavings; every implementation execution explored by the scheduler for the matching instance is projected onto the model's action labels and walked through TLC's dumped state graph (trace inclusion; model states / edges covered are reported). Model paths beyond the deviation bound are not replayed on the code.",
         True),
})

CHECKS.update({
 "C04": ("xs+enum", "model_checking",
         "explicit-state BFS for reachability of a panic / marker state over arbitrary word and packet-boundary sequences on the real CdpRunningValidator (from initial and non-initial start states), plus bounded-exhaustive CLI enumeration of malformed inputs x modes x options",
         "xs: alphabet = IHW (all/no lanes), TDH x {no_data, continuation}, TDT x {done}, DDW0, CDW (2), data words with identifiers inside and just outside every valid range, in stave mode crossed with lane contents from the ALPIDE byte classes (padding only, header+trailer, empty frame, double bunch counter, APEs incl. fatal ones, 0xFF, trailer without header, busy), and packet boundaries with RDH variants (stop, page, FEE layer 0/3/5/7, data format 0/2/3/255); breadth-first over (full implementation fingerprint) per mode to depth 5 (6 thorough), in stave mode depth 3 (4) from five start states (initial, frame open, three good lanes stored, good frame processed, frame with a fatal lane processed): quick 384 465 states / 1.8 M transitions, each a real call; any panic or unreachable_unchecked marker is a violation. CLI: every catalogue fault, 22 RDH framing/field extremes at first/middle/last packet, pairs of faults, every input of length 0..3 (8 thorough) over {00,07,40,FF} and runs of 5..70 bytes, x 9 command modes (5 checks, 3 views, filtered writing) x option menu x {file, stdin}: exit status in {0,1,configured}, no signal, no 10 s timeout.",
         "Random bytes and AddressSanitizer are outside this family (stated in DESIGN.md section 7). The stave-mode word search has no fixpoint (lane bytes accumulate): it is bounded by depth, and says so in its evidence.",
         True),
 "C06": ("enum", "exploration",
         "exhaustive enumeration of order-preserving merges of per-link packet sequences; differential comparison of the per-link message lists across full run, filters, extraction and a single sequential pass",
         "Every order-preserving merge for the shapes (3,3) and (2,2,2) (thorough: + (4,4), (3,2,2)) of per-link sequences of an inner-barrel link and two outer-layer links (format 0 / format 2; in stave mode the two outer FEE ids share one link id, so --filter-link selects both and they must still be judged apart) x {all clean, all corrupted (2 variants), one corrupted link at a time} x {check all its, check all, check all its-stave with ALPIDE frames}. Each merged stream: in-process real scanner + validators for the full run and for --filter-link / --filter-fee / --filter-its-stave of every link, and on the real multi-threaded CLI (full run, physically extracted single-link file, --filter-link; every 5th merge in quick, all in thorough); plus two links x 106 packets round robin (three reader batches) with six kinds of header corruption on one link at merged-file packets 98/100/102/200 and errors on the other. Per owning link the ordered message list must equal the one of a single synchronous LinkValidator pass over that link alone, after rewriting offsets through the layout map; a filter run must report nothing owned by another link.",
         "Streams with fatal framing errors / unknown system id and sequences whose own first packet has an RDH0 fault are excluded (DESIGN.md C06). 12-link streams are not enumerated.",
         True),
})

CHECKS.update({
 "C13": ("enum+xs", "model_checking",
         "bounded-exhaustive enumeration of encoder-produced readout frames and of frame sequences (fatal-lane memory as a state machine over normal/fatal/absent per lane) through the real LinkValidator in stave mode, judged by the documented rules",
         "Frames from the independent ALPIDE encoder through a real LinkValidator (check all its-stave): inner barrel all 255 lane subsets of size <= 4 (accepted iff one of the fixed groups), chip id / chip count / bunch-counter variants; every chip list of length 1..2 over {lane, lane+1} x {empty frame, header+hit+trailer} x {frame BC, other BC} in one lane; all 256 bunch-counter byte values x {all chip-empty frames, all header+hit+trailer, mixed}; every hit-content sequence of length <= 2 (3 thorough) over a 10-symbol alphabet whose bytes imitate chip headers, trailers, empty frames and APEs, on a valid and on an invalid frame, with the frame split over pages and a no-data TDH in front in rotation (verdict and ALPIDE readout-flag counters must not vary); middle/outer layers 3..6: legal set, one lane missing, one extra, 6 / 8 chips, permuted order, chip or lane bunch counter deviating, with and without custom chip count/order; every sequence of <= 3 (4 thorough) frames in which each of the three lanes of a group is normal / announces a fatal state / is absent, for each inner-barrel lane group 0..2, 3..5, 6..8; for layers 3..6 every lane of the legal set announcing a fatal state, followed by frames without it (clean), without it and another lane (count error) and without it again. Per frame the set of codes {E72,E73,E74,E75} reported at the frame's start offset must equal the documented verdict; frame-level messages anywhere else are violations.",
         "Abstains on frames in which a lane that announced a fatal state is itself present (the documents do not say how it is counted). Hit values are from a finite adversarial alphabet, not all values.",
         True),
})

CHECKS.update({
 "C14": ("enum", "exploration",
         "bounded-exhaustive CLI enumeration (streams x 9 modes x filters x JSON/TOML x file/stdin) compared field by field with an independent statistics calculator",
         "Every RDH sequence of length <= 2 (3 thorough) over 48 symbols {2 links} x {2 FEE ids, independent of the link} x {stop 0/1} x {6 trigger words covering each of the 20 counted bits alone or in a mix}, modes / filters / JSON-TOML / file-stdin rotating; streams with arbitrary header values over three interleaved links (1, 5, 100, 101 (201) packets; 12 packets with 7-10 KB payloads, total > 2^16), six conforming witness streams, witnesses with 1 / 3 / 21 RDH sanity faults; x 5 check modes, 3 views and filtered writing x filters (none, present link / FEE / layer-stave, absent link) x statistics in JSON and TOML x input from file and stdin. Every field of rdh_stats (RDHs seen incl. skipped, RDHs matching the filter, payload bytes, sorted links, FEE ids in first-seen order, version, data format, system id, run trigger type, HBFs, layer/stave pairs, 20 per-bit trigger counters; the last three only where packets are analysed), total errors, reported error count and distinct codes, and the report rows Total RDHs / Total Errors are compared with the calculator's values.",
         "The textual description of the run trigger type is not compared (raw value is).",
         True),
 "C15": ("enum", "fault_enumeration",
         "write / read-back round trips on the CLI and single-leaf perturbation of every statistic of the written file (fault enumeration over the file), plus single-field input drift",
         "Inputs: 6 witness streams clean and with 3 corrupted variants each (messages containing quotes, brackets and newlines end up in the file) x modes {check all its, check sanity, view rdh | check all its-stave} x {JSON, TOML} x {muted, not}: the file a run writes is accepted by the same command with -i (no mismatch text, same exit status); then every leaf of the written file is perturbed one at a time (numbers +1, strings changed, list element removed or added, null -> value; every leaf for JSON, every 3rd for TOML in quick, all in thorough) and each must produce a mismatch message and the any-errors exit status 9; five single-field changes of the input are checked against the old file.",
         "Not perturbed: is_finalized, alpide_stats outside stave mode (warning only), removal of an element of a fixed-size pair (that is a malformed file, not a changed statistic).",
         True),
})

CHECKS.update({
 "C16": ("enum", "exploration",
         "bounded-exhaustive CLI enumeration of input classes x option menu against the documented contract table; all code pairs through the real display filter",
         "Input classes {clean; 1, 2, 21 errors; a stream with mixed codes incl. E44/E444/E445; a fatal framing error at every packet index; {fatal framing error, truncated last payload, RDH sanity fault, clean} x 7 modes incl. the three views and data to stdout (modes that print no report) with the oracle exit = N iff an error was reported on stderr or in the statistics file; custom-check failures (four-digit codes) x code filters incl. their prefixes; thorough: every -E value 1..255 x {clean, one error, one muted error, fatal}; non-ALICE text, missing file, empty file, 3 bytes, RDH version 255} x options {-E 1/2/127/255, -m, -e N below/equal/above the true count, -w code lists incl. prefixes of other codes (4, 44, 444), each invalid combination named by the property}: exit status per contract (0 for clean data whatever -E; N when an error or a fatal input error was reported; non-zero for unreadable / unrecognisable input and invalid invocations, which must not create the -S / -o files), report and statistics totals equal the number of produced messages, muting and code filters change only what is shown (exactly the listed codes), an error cap N shows at most N messages. The display filter is additionally driven in-process (real ErrPrinter, capturing logger) on all 43 x 43 ordered (filter code, message code) pairs: shown iff equal; every message sequence of length <= 4 over 4 codes x 31 filter subsets x 5 display caps (shown = the first N listed messages). Option pairs: every subset of size <= 2 of an 11-atom option menu (-m, two -w lists, -e 2, -e 1000, -E 7, -S, -v 0, -f, -f -o, -c) x 2 check modes x {mixed-code stream, clean stream} against its reference run (shown messages, exit status, statistics total).",
         "With an error cap the run stops early: totals are not judged there.",
         True),
})

CHECKS.update({
 "C19": ("enum", "exploration",
         "bounded-exhaustive CLI enumeration of streams over the full word / header alphabet x views x styles x filters; every printed row parsed back and compared with the model's decode of the bytes at that offset",
         "Alphabet streams: 8 RDH variants (versions 6/7, stop 0/1, 7 layer/stave pairs incl. 47 and layer 6, link ids up to 15, 8 trigger kinds incl. SOC/SOT/HB/PhT/other/all-ones, 8 detector-field patterns incl. each lane-status bit and bits 24-26, orbit / BC extremes) and words: IHW, all 32 TDH combinations of trigger kind x internal x no-data x continuation, 24 TDT and 12 DDW0 lane-fault patterns (none / warning / error / fatal at lanes 0, 13, 27 and mixed), CDW, 9 data-word ids; x data formats 0, 2 and alternating within one batch x value variants x {view rdh, its-readout-frames, its-readout-frames-data} x {no filter, link, FEE, layer-stave} x {-d, styled}. One row per RDH / status word (/ data word) in order; offset, word type, quoted bytes and every decoded attribute (trigger kind, Cont., No data / Data!, Complete / Split, lane faults, link, stave, orbit_BC, all view rdh columns) equal the model's decode; styled output with ANSI sequences stripped has the same tokens; on the 6 conforming witnesses the word types shown equal the ground-truth classification.",
         "Spacing is normalised; colours are not judged. Payloads whose second word begins with six zero bytes are the known finding of C12 and are not placed in these streams.",
         True),
})

CHECKS.update({
 "C20": ("xs+enum", "model_checking",
         "explicit-state BFS to fixpoint over the product (trigger-period rule x real CdpRunningValidator) per configured period; exhaustive CLI enumeration of custom-check key subsets x values",
         "xs: for P in {1, 891, 3563, 3564, 4455} the product of the real TDH period check (inside a real CdpRunningValidator in stave mode with -p P) and the model 'E45 exactly for consecutive internal-trigger TDHs whose BC distance modulo 3564 differs from P' over the alphabet BC in {0, 1, P-1, P, 3563-P+1, 3563} x internal 0/1 x {no-data TDH, data event whose frame is continued on the next page (TDT packet_done 0, IHW, TDH continuation with the same BC)} is explored to its fixpoint (3 979 states, 83 540 transitions; key = last internal BC + implementation fingerprint), E45 judged on every transition and required at the TDH's own offset. enum (CLI, check all its-stave on an outer-layer stream with ALPIDE frames and known counts): all 32 subsets of {cdps, triggers_pht, rdh_version, chip_count_ob, chip_orders_ob}, every key of the subset at the true value and, one at a time, at truth-1 and truth+1 (chip orders: swapped pair / shifted list): the documented code (E9001, E9002, E10, E9004, E9005) appears iff observed != configured, exit status 9 iff so; a file with every key commented out and the generated all-default file give byte-identical output (stderr + report) to no file, in three modes.",
         "Values one below / one above the truth stand for 'differs'; BCs outside 0..3563 are not generated.",
         True),
})


# strengthening added after the seeded-change waves 4-8 (DESIGN.md section 10.4); appended to the level text
ADDENDA = {
 "C01": "Later additions: streams of 160 HBFs whose orbit counter wraps around 2^32; a calibration-word series (CDW user field progressing over pages) and pages that end with a no-data TDH in the grammar; mixed configurations (links of different barrel / format in one stream); the CLI tier rotates trivial filters (a filter that selects everything present) and input from stdin; the configurations with detector-field status bits also set every TDT status flag and start the 8-bit packet counter at 255.",
 "C05": "Later additions: 13 scenarios - also two small worlds (every bounded queue of capacity 1, batches of 1 packet; vacuity guard: a queue was full) and two filtered-writing runs whose output file is part of the outcome and must equal the selected link's packets in every schedule; the stave scenarios carry one ALPIDE frame error per FEE (messages that name their FEE id). Non-blocking and timed channel operations (try_send, try_recv, recv_timeout, send_timeout, len) are scheduling points: a timeout is an environment answer, deferred by the default policy and placed anywhere else at the cost of one deviation. A scenario with a detector other than ITS (system id 36) and the merge closure with that detector's statistics; no thread may still be running when the main thread ends.",
 "C02": "Later additions: the CLI leg rotates stdin and --filter-link of the faulty link; every fault is also laid on two sites of one stream (the later occurrence must be reported like the first); a fault in which an IHW of a later packet switches off the lane of that packet's first data word. Also a catalogue fault in which the whole payload is 16 bytes of 0xFF (nothing but padding).",
 "C03": "Later additions: recognisable streams of 1 000 (quick) / 10^4 and 10^5 (thorough) packets; RDH version bytes 3, 4, 6, 7, 99, 100. The CLI leg delivers stdin at once or in writes of 61 / 256 / 4096 bytes with pauses (short reads in the tool's own stdin reader).",
 "C04": "Later additions: damaged packets that the scanner steps over in RDH-only modes and under filters; payload sizes 1..=40 bytes; the thorough word search is capped at 300 000 states per configuration and reports the cap.",
 "C06": "Later additions: per-link variants with header-only packets and (check all only) with a memory size below the offset to the next packet.",
 "C07": "Later additions: links whose packets alternate between the two data formats; 16 quoted header fields compared with the decoded RDH; every run's message list is passed through the real StatsCollector (sort by offset / stave must not panic and must keep every message). In the modes that step over payloads every second packet of some streams has a memory size below the offset to the next RDH (quoted header rows must show both as they are).",
 "C08": "Later additions: every other stdin run is fed by a slow producer (writes of 61 / 1000 bytes with pauses). Spellings: every filter value also lower-case, zero-padded, with `=`, with the short flag, and 10 destination names (./x, -, sub/x, blank, non-ASCII, ...): an accepted spelling gives the same file as the plain one and nothing on stdout, a rejected one leaves nothing behind.",
 "C09": "Later additions: TDT flag bits in the alphabet, packets numbered by their pages counter, the invariant 'a legal word that passes its own rule is not reported' with the key telling first page / start of data apart.",
 "C10": "Later additions: HBFs of 65 534 / 65 535 data pages (page counter at the edge of its 16 bits).",
 "C11": "Later additions: data words judged with a history (an earlier packet announced the complementary lane mask; own IHW with a reserved bit; offsets beyond 2^32; the word before has an unrecognised identifier), and identifier 0xF8 after the start of the data is an out-of-range data word.",
 "C12": "Later additions: the rejected payload is played twice on a link (second rejection resets like the first), positions beyond 2^32, the padding message through the real collector's sort. An all-0xFF word slot at every position but the last (word counts 3..12, both formats): it is a word, not padding.",
 "C13": "Later additions: fatal-lane frame sequences to depth 3 (4 thorough) plus a 4-frame family (each lane fatal in every order with repetition, then every fourth frame); custom files with only chip orders / only chip count; a CLI leg with messages shown and muted (923 cases); every second case is rendered with all TDT status flags set (transmission timeout, lane starts violation, the three timeouts). Fatal-lane memory across lane groups: after a fatal lane in one group, frames of two lanes of another group (54 five-frame cases). BUSY ON / BUSY OFF words between chip frames in front of 0..3 padding bytes.",
 "C14": "Later additions: report rows Links observed, FEE IDs seen (wrapped cells, '... N more'), Run Trigger Type, RDH Version, Data Format, System ID (all 20 known ids), Total HBFs, Data size with its parts, Layers/Staves, Filter RDHs; 12 / 80 / 300 distinct FEE ids; custom-check failures in view modes; 1 000 / 70 000 packets; in every case the code list equals the codes of the listed messages (each once) and total_errors the number of listed messages; every sequence of length 2..4 over two fault kinds on successive packets; every other case finds an older, longer statistics file at the destination. Streams in which every third packet belongs to another detector (system id 36) and some staves first occur in a later reader batch. The per-bit trigger counts quoted inside an [E9002] message equal the counters of the same statistics file (on trigger words whose neighbouring bits differ).",
 "C15": "Later additions: every second drift run also writes statistics; a second round trip writes again and the two files must be equal; every other job finds an older, longer statistics file at the destination. Every third perturbed file also claims not to be finalised (a hand-written file). The verifying run may write the other format: json -> toml -> json (and the reverse) must hold and end where it started.",
 "C16": "Later additions: a matching / mismatching earlier statistics file (-i) x 7 display option sets; a trivial filter, stdin or -v 0 change nothing; check all its-stave on a stream with an ALPIDE lane bunch-counter mismatch in the option-pair lattice; two FEE ids on one link id in stave mode (unit after unit and alternating per HBF) with a lane fault on the first / second / both; the earlier statistics file under 11 spellings of its name (rejected before any output, or processed like the plainly named file). Code lists with a repeated code, reversed, one -w per code; every option of --help in its short form, long form, with =, with each documented alias and behind the sub-command (an accepted spelling behaves like the long form; a documented alias must be accepted). A custom-check failure is reported whether or not an error cap cut the run short (-e 1 / 2 / 4 / 1000 x -w 9001).",
 "C17": "Later additions: fatal framing errors on the real binary (6 offset-to-next values x first / middle / last packet x 5 modes); in every scheduler execution the any-errors flag must equal 'something was reported' (vacuity guard: both kinds occur); the real-signal runs use -E 7 and the exit status after one signal is judged; the shim code itself is run under the scheduler against real crossbeam (every operation sequence to depth 4 / 5 x capacities 1, 2, unbounded x non-blocking and timed operations). A stop cause (signal, error cap) followed by a fatal framing error: the fatal error must be recorded whenever the RDHs read show that the reader ran into it; no thread may still be running when the main thread ends (a detached writer); closed-pipe cases with outputs of a few hundred bytes.",
 "C18": "Later additions: cuts around the reader's 100-packet batch boundaries of a 306-packet stream, cuts of large payloads, cuts combined with a failing custom-checks file.",
 "C19": "Later additions: every nibble value in identifier and flag positions, arbitrary header bytes in view rdh, the styled run reading from stdin. Every ordered (warning lane, error lane) pair over lanes 0, 1, 4, 5, 13, 26, 27 in TDT / DDW0. Options that mean nothing to a view (-o, -m, -E, -S) leave a 330-packet view unchanged; the styled views written to a pseudo-terminal of 200..40 columns (with and without COLUMNS) show the same tokens as into a pipe.",
 "C20": "Later additions: chip orders that are a prefix / an extension of the true ones; a custom file holding the true values changes nothing else (outer-layer and inner-barrel stave streams, clean and faulty, 3 modes, 4 key subsets). Every subset of >= 2 keys configured wrong as a whole (each failing check reported). The same configuration in 9 other written forms (generated template with the hint left on the line, trailing comments, CRLF, key order, +, _, hex): accepted means the plain file's meaning; 8 files with a value its key cannot hold next to a wrong cdps: refused before the analysis or cdps still enforced; what every [E45] message quotes about its two TDHs (sequences over two orbits); every stave witness x catalogue fault with and without -p: the same messages apart from [E45].",
}

NOT_YET = {
}

def main():
    props = [json.loads(l) for l in open(os.path.join(VERIF, "properties.jsonl"))]
    hooks_commits = []
    try:
        out = subprocess.run(["git", "-C", "/repo", "log", "--format=%H %s"], capture_output=True, text=True).stdout
        for line in out.splitlines():
            h, s = line.split(" ", 1)
            if s.startswith("verif-hook:"):
                hooks_commits.append(h)
    except Exception:
        pass
    checks = []
    na = []
    for p in props:
        pid = p["id"]
        if pid in CHECKS:
            eng, cat, tech, text, note, thorough = CHECKS[pid]
            c = {
                "property_id": pid,
                "quick_cmd": "./check %s --tier quick" % pid,
                "evidence_file": "/verif/evidence/%s.json" % pid,
                "replay_cmd_template": "./check %s --replay {path}" % pid,
                "engine": eng,
                "level_claimed": {"category": cat, "text": text + (" " + ADDENDA[pid] if pid in ADDENDA else ""), "design_ref": "DESIGN.md section 5, %s" % pid},
                "level_note": note,
                "technique": tech,
            }
            if thorough:
                c["thorough_cmd"] = "./check %s --tier thorough" % pid
            checks.append(c)
        else:
            na.append({"property_id": pid, "reason": NOT_YET.get(pid, "check under construction in this round; not claimed until it runs clean on the unchanged tree (see DESIGN.md section 5 for the planned exploration)")})
    m = {
        "version": 1,
        "setup_cmd": "./check setup",
        "hooks": {
            "guard": "--cfg fastpasta_verif (read-only accessors / markers) and --cfg fastpasta_verif_sched (import swap to the scheduler shims, only in the sched build)",
            "enable": "RUSTFLAGS=--cfg fastpasta_verif via /verif/harness/.cargo/config.toml (path dependencies on /repo/fastpasta and /repo/alice_protocol_reader) and for the CLI build in ./check; the sched build adds --cfg fastpasta_verif_sched",
            "baseline_off_cmd": "cd /repo && cargo nextest run --workspace --no-fail-fast --tool-config-file pb:/w/lib/nextest.toml --profile pb --test-threads 8 --offline",
            "source_commits": hooks_commits,
            "add_only": True,
        },
        "engines": [
            {"name": "enum", "path": "harness/fp_checks", "serves_properties": sorted(k for k, v in CHECKS.items() if v[0].startswith("enum")), "kind_free_text": "bounded-exhaustive input/fault enumeration of the real code (in-process and CLI) against the independent reference model fp_model"},
            {"name": "xs", "path": "harness/fp_checks (xs module)", "serves_properties": sorted(k for k, v in CHECKS.items() if v[0].startswith("xs")), "kind_free_text": "explicit-state BFS over the product of real component x reference model, to fixpoint"},
            {"name": "sched", "path": "harness_sched", "serves_properties": sorted(k for k, v in CHECKS.items() if v[0].startswith("sched")), "kind_free_text": "CHESS-style deviation-bounded controlled scheduler over the real threads via channel/thread/atomic shims"},
        ],
        "checks": checks,
        "not_applicable": na,
        "notes": "All checks rebuild /repo's working tree (harness path-depends on it; the CLI is rebuilt into /verif/target/cli). Exit 2 = machinery failure, never a verdict. Known findings: /verif/known_findings.json.",
    }
    json.dump(m, open(os.path.join(VERIF, "MANIFEST.json"), "w"), indent=1)
    print("MANIFEST.json: %d checks, %d not claimed" % (len(checks), len(na)))

if __name__ == "__main__":
    main()
