#!/bin/bash
# usage: confirm_seed.sh <worktree-id> <seed-name> <check-result-note>
# Confirms a seeded change in its scratch worktree (suite passes with it, demo fails with it and passes without),
# files it under /verif/seeded/<seed-name>/ and removes the worktree with its build output.
set -u
ID=$1; NAME=$2; NOTE=${3:-}
WT=/tmp/wt/$ID
LOG=/tmp/wt/confirm_$NAME.log
cd $WT || exit 3
git checkout -q -- . 2>/dev/null
git apply MUTATION/patch.diff || { echo "patch does not apply" > $LOG; exit 3; }
export CARGO_TARGET_DIR=$WT/target CARGO_NET_OFFLINE=true
T=$(cargo test --workspace --no-fail-fast --offline 2>&1 | grep -E "^test result" | awk '{p+=$4; f+=$6} END {print p" passed, "f" failed"}')
bash MUTATION/demo.sh > $WT/demo_with.log 2>&1; W=$?
git checkout -q -- .
bash MUTATION/demo.sh > $WT/demo_without.log 2>&1; WO=$?
echo "suite_with_change: $T; demo_with_change_exit=$W; demo_without_change_exit=$WO" > $LOG
if [ "$W" != "0" ] && [ "$WO" = "0" ] && echo "$T" | grep -q ", 0 failed"; then
  D=/verif/seeded/$NAME; mkdir -p $D
  rsync -a --exclude build --exclude work --exclude target --exclude '*.raw' --max-size=300k MUTATION/ $D/ 2>/dev/null
  python3 - "$D" "$T" "$W" "$WO" "$NOTE" <<'PY'
import json,sys
d,t,w,wo,note=sys.argv[1:6]
try: m=json.load(open(d+'/meta.json'))
except Exception: m={}
m['confirmed']={'suite_with_change':t,'demo_exit_with_change':int(w),'demo_exit_without_change':int(wo),
  'how':'tools/confirm_seed.sh in a scratch worktree: cargo test --workspace --no-fail-fast --offline with the patch applied; MUTATION/demo.sh with and without the patch'}
m['detection']=note
json.dump(m,open(d+'/meta.json','w'),indent=1)
PY
  echo "KEPT $NAME" >> $LOG
else
  echo "REJECTED $NAME" >> $LOG
fi
cd / && git -C /repo worktree remove --force $WT
cat $LOG
