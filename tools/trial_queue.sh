#!/bin/bash
# usage: trial_queue.sh <out-log> <target-root> <tag>:<ID,ID,..> ...  -- trials of not yet filed seeds (patch at
# /tmp/wt/<tag>/MUTATION/patch.diff); builds from a snapshot of the harness sources; /repo is patched only under the lock.
set -u
OUT=$1; export VERIF_TARGET=$2 CARGO_NET_OFFLINE=true; shift; shift
SNAP=$VERIF_TARGET/snap
mkdir -p $SNAP
rsync -a --delete /verif/check /verif/harness /verif/harness_sched /verif/tools /verif/models /verif/known_findings.json $SNAP/ 2>/dev/null
: > $OUT
for e in "$@"; do
  tag=${e%%:*}; ids=$(echo ${e#*:} | tr ',' ' ')
  P=/tmp/wt/$tag/MUTATION/patch.diff
  [ -f $P ] || { echo "$tag NO-PATCH" >> $OUT; continue; }
  flock /tmp/wt/repo.lock bash -c "cd /repo && git apply $P && (cd $SNAP && ./check setup > $VERIF_TARGET/build.log 2>&1); rc=\$?; cd /repo && git checkout -- .; exit \$rc"
  if [ $? -ne 0 ]; then echo "$tag BUILD-FAILED $(grep -E '^error' $VERIF_TARGET/build.log | head -2 | tr '\n' ' ' | cut -c1-200)" >> $OUT; continue; fi
  line="$tag"
  for id in $ids; do
    tier=quick; case $id in *@t) tier=thorough; id=${id%@t};; esac
    case $id in C05|C17) bin=$VERIF_TARGET/sched/release/fp_sched_checks;; *) bin=$VERIF_TARGET/plain/release/fp_checks;; esac
    out=$(cd /verif && timeout 1800 $bin $id --tier $tier 2>/dev/null); rc=$?
    sig=$(echo "$out" | grep -E "^  signature:" | head -3 | sed 's/  signature: //' | tr '\n' ' ')
    line="$line | $id=$rc $sig"
  done
  echo "$line" >> $OUT
done
echo ALLDONE >> $OUT
