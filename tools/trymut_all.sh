#!/bin/bash
# usage: trymut_all.sh <patch> [tier] [ids...] -- applies a seeded change to /repo, builds once into the separate target
# root, runs every (or the listed) check against it, reverts. Prints one line per check.
set -u
P=$1; T=${2:-quick}; shift; shift 2>/dev/null
IDS=${@:-C01 C02 C03 C04 C05 C06 C07 C08 C09 C10 C11 C12 C13 C14 C15 C16 C17 C18 C19 C20}
export VERIF_TARGET=/verif/target/mut CARGO_NET_OFFLINE=true
cd /repo && git apply "$P" || { echo "patch does not apply"; exit 3; }
(cd /verif && ./check setup > /tmp/trymut_all_build.log 2>&1) || { echo "BUILD FAILED"; tail -5 /tmp/trymut_all_build.log; cd /repo && git checkout -- .; exit 2; }
cd /repo && git checkout -- . && git status --short
cd /verif
for id in $IDS; do
  case $id in C05|C17) bin=$VERIF_TARGET/sched/release/fp_sched_checks;; *) bin=$VERIF_TARGET/plain/release/fp_checks;; esac
  out=$(timeout 900 $bin $id --tier $T 2>/dev/null); rc=$?
  sig=$(echo "$out" | grep -E "^  signature:" | head -3 | sed 's/  signature: //' | tr '\n' ' ')
  echo "$id rc=$rc $sig"
done
