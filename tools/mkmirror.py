#!/usr/bin/env python3
"""Generates the sched mirror packages: same sources as /repo (lib path points into /repo), dependency names
crossbeam-channel / flume mapped to the scheduler shims, plus a dependency on fp_sched (for the cfg-guarded
import swaps)."""
import os, re, sys
VERIF = os.path.dirname(os.path.dirname(os.path.abspath(__file__)))
OUT = os.path.join(VERIF, "harness_sched", "mirror")

def deps_section(text):
    m = re.search(r"^\[dependencies\]\n(.*?)(?=^\[|\Z)", text, re.S | re.M)
    return m.group(1) if m else ""

def transform(deps, extra):
    out = []
    for line in deps.splitlines():
        l = line.strip()
        if not l or l.startswith("#"):
            continue
        name = l.split("=")[0].strip()
        if name == "crossbeam-channel":
            out.append('crossbeam-channel = { package = "fp_shim_crossbeam", path = "../../shims/crossbeam" }')
        elif name == "flume":
            out.append('flume = { package = "fp_shim_flume", path = "../../shims/flume" }')
        elif name == "alice_protocol_reader":
            out.append('alice_protocol_reader = { path = "../alice_protocol_reader" }')
        else:
            out.append(l)
    out.append('fp_sched = { path = "../../fp_sched" }')
    out.extend(extra)
    return "\n".join(out) + "\n"

def write_if_changed(path, content):
    os.makedirs(os.path.dirname(path), exist_ok=True)
    if os.path.exists(path) and open(path).read() == content:
        return
    open(path, "w").write(content)

def main():
    for crate, version in (("alice_protocol_reader", "0.15.0"), ("fastpasta", "1.22.0")):
        src = open("/repo/%s/Cargo.toml" % crate).read()
        m = re.search(r'^version\s*=\s*"([^"]+)"', src, re.M)
        if m:
            version = m.group(1)
        body = "[package]\nname = \"%s\"\nversion = \"%s\"\nedition = \"2021\"\n\n[lib]\npath = \"/repo/%s/src/lib.rs\"\n\n[dependencies]\n%s" % (
            crate, version, crate, transform(deps_section(src), []))
        write_if_changed(os.path.join(OUT, crate, "Cargo.toml"), body)

if __name__ == "__main__":
    main()
