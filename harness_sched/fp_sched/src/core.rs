use std::any::Any;
use std::cell::Cell;
use std::collections::HashMap;
use std::panic::{catch_unwind, resume_unwind, AssertUnwindSafe};
use std::sync::{Arc, Condvar, Mutex};

/// What a thread is about to do at a scheduling point.
#[derive(Clone, Debug, PartialEq, Eq, Hash)]
pub enum Op {
    Start,
    Send(usize),
    Recv(usize),
    DropSender(usize),
    DropReceiver(usize),
    CloneEnd(usize),
    Spawn,
    Join(usize),
    Load(usize),
    Store(usize, bool),
    Exit,
    Yield,
    /// non-blocking send: always enabled; full / disconnected / accepted is decided when it is performed
    TrySend(usize),
    /// non-blocking receive: always enabled
    TryRecv(usize),
    /// receive with a time limit: always enabled; on an empty channel with live senders it returns `Timeout` - an
    /// environment answer (the timer lands first), so the default policy runs such a thread only when nothing else
    /// can run and every other placement of the timeout costs one deviation
    RecvTimeout(usize),
    /// send with a time limit (same treatment, on a full channel with live receivers)
    SendTimeout(usize),
    /// len / is_empty / is_full
    Query(usize),
}

#[derive(Clone, Debug, PartialEq, Eq)]
pub enum ThreadStatus {
    /// waiting to perform `Op` (enabledness decided by the scheduler)
    Pending(Op),
    Done,
}

#[derive(Clone, Debug)]
pub struct ChanState {
    pub name: String,
    pub len: usize,
    pub cap: Option<usize>,
    pub senders: usize,
    pub receivers: usize,
}

#[derive(Clone, Debug, PartialEq, Eq)]
pub struct Step {
    /// canonical order: the running thread first if still enabled, then ascending ids
    pub enabled: Vec<usize>,
    pub chosen: usize,
    pub op: Op,
    /// the previously running thread was still enabled (choosing another one is a preemption)
    pub running_enabled: bool,
}

#[derive(Clone, Debug, Default)]
pub struct Policy {
    /// choices to replay: index into `enabled` at each scheduling decision; afterwards choice 0 (default policy)
    pub prefix: Vec<usize>,
    /// scheduling decisions allowed per execution (horizon)
    pub max_steps: usize,
    /// sends on unbounded channels are decision points too (needed when arrival order matters)
    pub yield_on_unbounded_send: bool,
    /// capacity override for bounded channels (small worlds)
    pub cap_override: Option<usize>,
    /// second base schedule: the non-running threads are listed in descending id order (the default policy then
    /// prefers the youngest thread); exploring d deviations around both base schedules covers orders that need
    /// many deviations from one of them
    pub descending: bool,
}

#[derive(Clone, Debug, PartialEq, Eq)]
pub enum Outcome {
    Completed,
    Deadlock(Vec<(String, String)>),
    Horizon,
    /// a choice of the prefix was out of range (replay divergence) — a machinery failure
    ReplayDiverged(String),
}

#[derive(Debug)]
pub struct ExecResult {
    pub outcome: Outcome,
    pub steps: Vec<Step>,
    /// (thread name, panic message) of threads of the code under test that panicked
    pub panics: Vec<(String, String)>,
    /// abstract states seen (hash of per-thread op + per-channel (len, ends) + flags)
    pub abstract_states: Vec<u64>,
    pub thread_names: Vec<String>,
    /// log of (sender thread id, channel id) for every message sent, in global order
    pub send_log: Vec<(usize, usize)>,
    pub max_chan_len: HashMap<usize, usize>,
    /// names of the managed threads that had not finished when thread 0 (the program's main thread) ended
    pub alive_at_main_exit: Vec<String>,
}

pub(crate) struct ThreadRec {
    pub name: String,
    pub status: ThreadStatus,
    pub panicked: bool,
}

pub(crate) struct Inner {
    pub threads: Vec<ThreadRec>,
    pub chans: Vec<ChanState>,
    pub flags: Vec<bool>,
    pub current: usize,
    pub policy: Policy,
    pub steps: Vec<Step>,
    pub aborted: Option<Outcome>,
    pub panics: Vec<(String, String)>,
    pub abstract_states: Vec<u64>,
    pub send_log: Vec<(usize, usize)>,
    pub max_chan_len: HashMap<usize, usize>,
    pub os_handles: Vec<std::thread::JoinHandle<()>>,
    pub alive_at_main_exit: Vec<String>,
}

pub(crate) struct Sched {
    pub inner: Mutex<Inner>,
    pub cv: Condvar,
}

/// Payload used to unwind the threads of an aborted execution.
pub(crate) struct AbortExecution;

static GLOBAL: Mutex<Option<Arc<Sched>>> = Mutex::new(None);
thread_local! {
    static MY_ID: Cell<Option<usize>> = const { Cell::new(None) };
}

pub(crate) fn current() -> Option<(Arc<Sched>, usize)> {
    let id = MY_ID.with(|m| m.get())?;
    let g = GLOBAL.lock().unwrap_or_else(|e| e.into_inner());
    g.as_ref().map(|s| (s.clone(), id))
}

fn fnv(h: &mut u64, x: u64) {
    *h ^= x;
    *h = h.wrapping_mul(0x100000001b3);
}

impl Inner {
    fn op_enabled(&self, op: &Op) -> bool {
        match op {
            Op::Send(c) => {
                let ch = &self.chans[*c];
                ch.receivers == 0 || ch.cap.map_or(true, |cap| ch.len < cap)
            }
            Op::Recv(c) => {
                let ch = &self.chans[*c];
                ch.len > 0 || ch.senders == 0
            }
            Op::Join(t) => self.threads[*t].status == ThreadStatus::Done,
            _ => true,
        }
    }
    /// The operation would end with `Timeout` if performed now (the timer lands before the other side acts).
    fn would_time_out(&self, op: &Op) -> bool {
        match op {
            Op::RecvTimeout(c) => {
                let ch = &self.chans[*c];
                ch.len == 0 && ch.senders > 0
            }
            Op::SendTimeout(c) => {
                let ch = &self.chans[*c];
                ch.receivers > 0 && ch.cap.map_or(false, |cap| ch.len >= cap)
            }
            _ => false,
        }
    }
    fn is_lazy(&self, i: usize) -> bool {
        let t = &self.threads[i];
        t.name.starts_with("Signal") || matches!(&t.status, ThreadStatus::Pending(op) if self.would_time_out(op))
    }
    fn enabled_set(&self, running: usize) -> (Vec<usize>, bool) {
        let mut v = Vec::new();
        let mut running_enabled = false;
        if let ThreadStatus::Pending(op) = &self.threads[running].status {
            // (a lazy environment thread that has been started goes on like any other; an operation that would time
            // out is deferred even in the running thread)
            if self.op_enabled(op) && !self.would_time_out(op) {
                v.push(running);
                running_enabled = true;
            }
        }
        // lazy threads (environment events such as `Signal`) come last: the default policy only runs them when
        // nothing else can run, so that a single deviation places the event at any chosen point
        for lazy in [false, true] {
            let n = self.threads.len();
            for k in 0..n {
                let i = if self.policy.descending { n - 1 - k } else { k };
                let t = &self.threads[i];
                if (i == running && running_enabled) || self.is_lazy(i) != lazy {
                    continue;
                }
                if let ThreadStatus::Pending(op) = &t.status {
                    if self.op_enabled(op) {
                        v.push(i);
                    }
                }
            }
        }
        (v, running_enabled)
    }
    fn abstract_state(&self) -> u64 {
        let mut h: u64 = 0xcbf29ce484222325;
        for t in &self.threads {
            let code = match &t.status {
                ThreadStatus::Done => 1u64,
                ThreadStatus::Pending(op) => match op {
                    Op::Start => 2,
                    Op::Send(c) => 100 + *c as u64,
                    Op::Recv(c) => 200 + *c as u64,
                    Op::DropSender(c) => 300 + *c as u64,
                    Op::DropReceiver(c) => 400 + *c as u64,
                    Op::CloneEnd(c) => 450 + *c as u64,
                    Op::Spawn => 3,
                    Op::Join(t) => 500 + *t as u64,
                    Op::Load(f) => 600 + *f as u64,
                    Op::Store(f, v) => 700 + 2 * *f as u64 + *v as u64,
                    Op::Exit => 4,
                    Op::Yield => 5,
                    Op::TrySend(c) => 800 + *c as u64,
                    Op::TryRecv(c) => 900 + *c as u64,
                    Op::RecvTimeout(c) => 1000 + *c as u64,
                    Op::SendTimeout(c) => 1100 + *c as u64,
                    Op::Query(c) => 1200 + *c as u64,
                },
            };
            fnv(&mut h, code);
        }
        for c in &self.chans {
            fnv(&mut h, c.len as u64);
            fnv(&mut h, c.senders as u64);
            fnv(&mut h, c.receivers as u64);
        }
        for f in &self.flags {
            fnv(&mut h, *f as u64);
        }
        h
    }
    /// Picks the next thread to run. Returns None when the execution is over (completed or aborted).
    fn decide(&mut self, running: usize) -> Option<usize> {
        if self.aborted.is_some() {
            return None;
        }
        let (enabled, running_enabled) = self.enabled_set(running);
        if enabled.is_empty() {
            if self.threads.iter().all(|t| t.status == ThreadStatus::Done) {
                self.aborted = Some(Outcome::Completed);
            } else {
                let blocked = self
                    .threads
                    .iter()
                    .filter_map(|t| match &t.status {
                        ThreadStatus::Pending(op) => Some((t.name.clone(), format!("{:?}", op))),
                        _ => None,
                    })
                    .collect();
                self.aborted = Some(Outcome::Deadlock(blocked));
            }
            return None;
        }
        if self.steps.len() >= self.policy.max_steps {
            self.aborted = Some(Outcome::Horizon);
            return None;
        }
        let idx = self.steps.len();
        let choice = if idx < self.policy.prefix.len() { self.policy.prefix[idx] } else { 0 };
        if choice >= enabled.len() {
            self.aborted = Some(Outcome::ReplayDiverged(format!("step {idx}: choice {choice} but only {} threads enabled", enabled.len())));
            return None;
        }
        let chosen = enabled[choice];
        let op = match &self.threads[chosen].status {
            ThreadStatus::Pending(op) => op.clone(),
            _ => unreachable!(),
        };
        self.steps.push(Step { enabled, chosen, op, running_enabled });
        let st = self.abstract_state();
        self.abstract_states.push(st);
        self.current = chosen;
        Some(chosen)
    }
}

/// Scheduling point: the calling (managed) thread announces `op`; returns when it has been chosen to perform it.
/// Unmanaged threads (not part of an execution) pass through.
pub fn point(op: Op) {
    let Some((s, me)) = current() else { return };
    let mut g = s.inner.lock().unwrap_or_else(|e| e.into_inner());
    if g.aborted.is_some() {
        drop(g);
        if !std::thread::panicking() {
            resume_unwind(Box::new(AbortExecution));
        }
        return;
    }
    g.threads[me].status = ThreadStatus::Pending(op);
    let next = g.decide(me);
    match next {
        Some(n) if n == me => {}
        _ => {
            s.cv.notify_all();
            // wait for the baton (or for the end of the execution)
            loop {
                if g.aborted.is_some() {
                    drop(g);
                    if !std::thread::panicking() {
                        resume_unwind(Box::new(AbortExecution));
                    }
                    return;
                }
                if g.current == me {
                    if let ThreadStatus::Pending(_) = g.threads[me].status {
                        // chosen
                        break;
                    }
                }
                g = s.cv.wait(g).unwrap_or_else(|e| e.into_inner());
            }
        }
    }
}

/// Accessors used by the shims while holding the baton.
pub(crate) fn with_inner<R>(f: impl FnOnce(&mut Inner, usize) -> R) -> Option<R> {
    let (s, me) = current()?;
    let mut g = s.inner.lock().unwrap_or_else(|e| e.into_inner());
    Some(f(&mut g, me))
}

/// True once the current execution has been aborted (deadlock, horizon): the threads are being unwound and
/// destructors of the code under test must not fail on the way out.
pub fn is_aborted() -> bool {
    with_inner(|i, _| i.aborted.is_some()).unwrap_or(false)
}

pub(crate) fn policy_yield_on_unbounded() -> bool {
    with_inner(|i, _| i.policy.yield_on_unbounded_send).unwrap_or(false)
}

/// Registers a new managed thread and starts it as a real OS thread that first waits for the baton.
pub(crate) fn spawn_managed<T: Send + 'static>(
    name: String,
    f: impl FnOnce() -> T + Send + 'static,
) -> (usize, Arc<Mutex<Option<std::thread::Result<T>>>>) {
    let (s, _me) = current().expect("spawn_managed outside an execution");
    let slot: Arc<Mutex<Option<std::thread::Result<T>>>> = Arc::new(Mutex::new(None));
    let tid = {
        let mut g = s.inner.lock().unwrap();
        g.threads.push(ThreadRec { name: name.clone(), status: ThreadStatus::Pending(Op::Start), panicked: false });
        g.threads.len() - 1
    };
    let s2 = s.clone();
    let slot2 = slot.clone();
    let h = std::thread::Builder::new()
        .name(name.clone())
        .spawn(move || {
            MY_ID.with(|m| m.set(Some(tid)));
            thread_body(&s2, tid, f, &slot2);
        })
        .expect("OS thread spawn");
    s.inner.lock().unwrap().os_handles.push(h);
    (tid, slot)
}

fn thread_body<T>(s: &Arc<Sched>, tid: usize, f: impl FnOnce() -> T, slot: &Arc<Mutex<Option<std::thread::Result<T>>>>) {
    // wait to be scheduled for the first time
    let started = {
        let mut g = s.inner.lock().unwrap_or_else(|e| e.into_inner());
        loop {
            if g.aborted.is_some() {
                break false;
            }
            if g.current == tid {
                break true;
            }
            g = s.cv.wait(g).unwrap_or_else(|e| e.into_inner());
        }
    };
    let mut result: Option<std::thread::Result<T>> = None;
    if started {
        let r = catch_unwind(AssertUnwindSafe(f));
        match r {
            Ok(v) => result = Some(Ok(v)),
            Err(p) => {
                if p.downcast_ref::<AbortExecution>().is_none() {
                    let msg = panic_msg(&p);
                    let mut g = s.inner.lock().unwrap_or_else(|e| e.into_inner());
                    let name = g.threads[tid].name.clone();
                    g.threads[tid].panicked = true;
                    g.panics.push((name, msg));
                    result = Some(Err(p));
                } else {
                    result = Some(Err(p));
                }
            }
        }
    }
    *slot.lock().unwrap_or_else(|e| e.into_inner()) = result;
    // exit: a scheduling point of its own (other threads may observe the exit through join)
    let _ = catch_unwind(AssertUnwindSafe(|| point(Op::Exit)));
    let mut g = s.inner.lock().unwrap_or_else(|e| e.into_inner());
    g.threads[tid].status = ThreadStatus::Done;
    if tid == 0 && g.aborted.is_none() {
        // the program's main thread ends here: in a real process every thread still running is cut off at this moment
        let alive: Vec<String> = g.threads.iter().filter(|t| t.status != ThreadStatus::Done).map(|t| t.name.clone()).collect();
        g.alive_at_main_exit = alive;
    }
    if g.aborted.is_none() {
        let _ = g.decide(tid);
    }
    drop(g);
    s.cv.notify_all();
}

pub(crate) fn panic_msg(p: &Box<dyn Any + Send>) -> String {
    if let Some(s) = p.downcast_ref::<&str>() {
        s.to_string()
    } else if let Some(s) = p.downcast_ref::<String>() {
        s.clone()
    } else {
        "panic".to_string()
    }
}

static EXEC_LOCK: Mutex<()> = Mutex::new(());

/// Runs `body` as thread 0 of a fresh execution under `policy`; returns when every managed thread has finished
/// (or the execution was aborted: deadlock, horizon, replay divergence) and all OS threads have been joined.
pub fn run_execution(policy: Policy, body: impl FnOnce() + Send + 'static) -> ExecResult {
    let _one = EXEC_LOCK.lock().unwrap_or_else(|e| e.into_inner());
    let s = Arc::new(Sched {
        inner: Mutex::new(Inner {
            threads: vec![ThreadRec { name: "main".into(), status: ThreadStatus::Pending(Op::Start), panicked: false }],
            chans: Vec::new(),
            flags: Vec::new(),
            current: 0,
            policy,
            steps: Vec::new(),
            aborted: None,
            panics: Vec::new(),
            abstract_states: Vec::new(),
            send_log: Vec::new(),
            max_chan_len: HashMap::new(),
            os_handles: Vec::new(),
            alive_at_main_exit: Vec::new(),
        }),
        cv: Condvar::new(),
    });
    *GLOBAL.lock().unwrap_or_else(|e| e.into_inner()) = Some(s.clone());
    let s2 = s.clone();
    let slot: Arc<Mutex<Option<std::thread::Result<()>>>> = Arc::new(Mutex::new(None));
    let slot2 = slot.clone();
    let main = std::thread::Builder::new()
        .name("sched-main".into())
        .spawn(move || {
            MY_ID.with(|m| m.set(Some(0)));
            thread_body(&s2, 0, body, &slot2);
        })
        .expect("spawn main");
    // wait for the end of the execution
    {
        let mut g = s.inner.lock().unwrap_or_else(|e| e.into_inner());
        while g.aborted.is_none() {
            let (ng, to) = s.cv.wait_timeout(g, std::time::Duration::from_millis(200)).unwrap_or_else(|e| e.into_inner());
            g = ng;
            if to.timed_out() && g.aborted.is_none() && g.threads.iter().all(|t| t.status == ThreadStatus::Done) {
                g.aborted = Some(Outcome::Completed);
            }
        }
    }
    s.cv.notify_all();
    let _ = main.join();
    loop {
        let h = s.inner.lock().unwrap_or_else(|e| e.into_inner()).os_handles.pop();
        match h {
            Some(h) => {
                s.cv.notify_all();
                let _ = h.join();
            }
            None => break,
        }
    }
    *GLOBAL.lock().unwrap_or_else(|e| e.into_inner()) = None;
    let g = s.inner.lock().unwrap_or_else(|e| e.into_inner());
    ExecResult {
        outcome: g.aborted.clone().unwrap_or(Outcome::Completed),
        steps: g.steps.clone(),
        panics: g.panics.clone(),
        abstract_states: g.abstract_states.clone(),
        thread_names: g.threads.iter().map(|t| t.name.clone()).collect(),
        send_log: g.send_log.clone(),
        max_chan_len: g.max_chan_len.clone(),
        alive_at_main_exit: g.alive_at_main_exit.clone(),
    }
}
