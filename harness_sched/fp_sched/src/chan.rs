//! The channel used by both shim crates: a queue whose operations are single atomic steps under the scheduler.
use crate::core::{point, policy_yield_on_unbounded, with_inner, ChanState, Op};
use std::collections::VecDeque;
use std::sync::{Arc, Mutex};

pub struct Shared<T> {
    pub id: Option<usize>,
    pub q: Mutex<VecDeque<T>>,
    /// used only outside an execution (unmanaged use, e.g. the harness itself)
    pub raw_senders: Mutex<usize>,
    pub raw_receivers: Mutex<usize>,
    pub cv: std::sync::Condvar,
    pub cap: Option<usize>,
}

pub struct Tx<T> {
    pub sh: Arc<Shared<T>>,
}
pub struct Rx<T> {
    pub sh: Arc<Shared<T>>,
}

pub fn channel<T>(cap: Option<usize>, name: &str) -> (Tx<T>, Rx<T>) {
    let id = with_inner(|i, _| {
        let cap = match (cap, i.policy.cap_override) {
            (Some(_), Some(o)) => Some(o),
            (c, _) => c,
        };
        i.chans.push(ChanState { name: name.to_string(), len: 0, cap, senders: 1, receivers: 1 });
        (i.chans.len() - 1, cap)
    });
    let (id, cap) = match id {
        Some((id, cap)) => (Some(id), cap),
        None => (None, cap),
    };
    let sh = Arc::new(Shared {
        id,
        q: Mutex::new(VecDeque::new()),
        raw_senders: Mutex::new(1),
        raw_receivers: Mutex::new(1),
        cv: std::sync::Condvar::new(),
        cap,
    });
    (Tx { sh: sh.clone() }, Rx { sh })
}

impl<T> Tx<T> {
    /// Ok(()) or Err(value) when all receivers are gone.
    pub fn send(&self, v: T) -> Result<(), T> {
        match self.sh.id {
            Some(c) if crate::core::current().is_some() => {
                if std::thread::panicking() && crate::core::is_aborted() {
                    // unwinding an aborted execution: swallow the message instead of failing in a destructor
                    return Ok(());
                }
                if self.sh.cap.is_some() || policy_yield_on_unbounded() {
                    point(Op::Send(c));
                }
                let gone = with_inner(|i, me| {
                    if i.chans[c].receivers == 0 {
                        true
                    } else {
                        i.chans[c].len += 1;
                        let l = i.chans[c].len;
                        let e = i.max_chan_len.entry(c).or_insert(0);
                        if l > *e {
                            *e = l;
                        }
                        i.send_log.push((me, c));
                        false
                    }
                })
                .unwrap();
                if gone {
                    return Err(v);
                }
                self.sh.q.lock().unwrap().push_back(v);
                Ok(())
            }
            _ => {
                // unmanaged: plain blocking queue
                let mut q = self.sh.q.lock().unwrap();
                loop {
                    if *self.sh.raw_receivers.lock().unwrap() == 0 {
                        return Err(v);
                    }
                    if self.sh.cap.map_or(true, |c| q.len() < c) {
                        q.push_back(v);
                        self.sh.cv.notify_all();
                        return Ok(());
                    }
                    q = self.sh.cv.wait(q).unwrap();
                }
            }
        }
    }
}

/// Outcome of a non-blocking / timed send that did not go through.
pub enum NoSend<T> {
    Full(T),
    Disconnected(T),
}
/// Outcome of a non-blocking / timed receive that delivered nothing.
pub enum NoRecv {
    Empty,
    Disconnected,
}

impl<T> Tx<T> {
    fn send_now(&self, c: usize, v: T) -> Result<(), NoSend<T>> {
        // 0 = accepted, 1 = full, 2 = disconnected
        let r = with_inner(|i, me| {
            let ch = &mut i.chans[c];
            if ch.receivers == 0 {
                2
            } else if ch.cap.map_or(false, |cap| ch.len >= cap) {
                1
            } else {
                ch.len += 1;
                let l = ch.len;
                let e = i.max_chan_len.entry(c).or_insert(0);
                if l > *e {
                    *e = l;
                }
                i.send_log.push((me, c));
                0
            }
        })
        .unwrap();
        match r {
            0 => {
                self.sh.q.lock().unwrap().push_back(v);
                Ok(())
            }
            1 => Err(NoSend::Full(v)),
            _ => Err(NoSend::Disconnected(v)),
        }
    }
    fn send_unmanaged_now(&self, v: T) -> Result<(), NoSend<T>> {
        let mut q = self.sh.q.lock().unwrap();
        if *self.sh.raw_receivers.lock().unwrap() == 0 {
            return Err(NoSend::Disconnected(v));
        }
        if self.sh.cap.map_or(true, |c| q.len() < c) {
            q.push_back(v);
            self.sh.cv.notify_all();
            return Ok(());
        }
        Err(NoSend::Full(v))
    }
    /// Non-blocking send: one atomic step.
    pub fn try_send(&self, v: T) -> Result<(), NoSend<T>> {
        match self.sh.id {
            Some(c) if crate::core::current().is_some() => {
                point(Op::TrySend(c));
                self.send_now(c, v)
            }
            _ => self.send_unmanaged_now(v),
        }
    }
    /// Send with a time limit: `Full` stands for the timeout (the timer landed before a receiver made room).
    pub fn send_timeout(&self, v: T) -> Result<(), NoSend<T>> {
        match self.sh.id {
            Some(c) if crate::core::current().is_some() => {
                point(Op::SendTimeout(c));
                self.send_now(c, v)
            }
            _ => self.send(v).map_err(NoSend::Disconnected),
        }
    }
    pub fn query(&self) -> (usize, Option<usize>) {
        if let Some(c) = self.sh.id {
            if crate::core::current().is_some() {
                point(Op::Query(c));
            }
        }
        (self.sh.q.lock().unwrap().len(), self.sh.cap)
    }
}

impl<T> Rx<T> {
    fn recv_now(&self, c: usize) -> Result<T, NoRecv> {
        // 0 = value, 1 = empty, 2 = disconnected
        let r = with_inner(|i, _| {
            let ch = &mut i.chans[c];
            if ch.len > 0 {
                ch.len -= 1;
                0
            } else if ch.senders == 0 {
                2
            } else {
                1
            }
        })
        .unwrap();
        match r {
            0 => Ok(self.sh.q.lock().unwrap().pop_front().expect("queue and scheduler state agree")),
            1 => Err(NoRecv::Empty),
            _ => Err(NoRecv::Disconnected),
        }
    }
    /// Receive with a time limit: `Empty` stands for the timeout (the timer landed before a sender acted).
    pub fn recv_timeout(&self) -> Result<T, NoRecv> {
        match self.sh.id {
            Some(c) if crate::core::current().is_some() => {
                point(Op::RecvTimeout(c));
                self.recv_now(c)
            }
            _ => self.recv().ok_or(NoRecv::Disconnected),
        }
    }
    /// Non-blocking receive as a scheduling point (for code under test; the harness itself uses `try_recv`).
    pub fn try_recv_point(&self) -> Result<T, NoRecv> {
        match self.sh.id {
            Some(c) if crate::core::current().is_some() => {
                point(Op::TryRecv(c));
                self.recv_now(c)
            }
            _ => self.try_recv().map_err(|d| if d { NoRecv::Disconnected } else { NoRecv::Empty }),
        }
    }
    pub fn query(&self) -> (usize, Option<usize>) {
        if let Some(c) = self.sh.id {
            if crate::core::current().is_some() {
                point(Op::Query(c));
            }
        }
        (self.sh.q.lock().unwrap().len(), self.sh.cap)
    }
    /// Some(value) or None when the queue is empty and all senders are gone.
    pub fn recv(&self) -> Option<T> {
        match self.sh.id {
            Some(c) if crate::core::current().is_some() => {
                point(Op::Recv(c));
                let has = with_inner(|i, _| {
                    if i.chans[c].len > 0 {
                        i.chans[c].len -= 1;
                        true
                    } else {
                        false
                    }
                })
                .unwrap();
                if has {
                    Some(self.sh.q.lock().unwrap().pop_front().expect("queue and scheduler state agree"))
                } else {
                    None
                }
            }
            _ => {
                let mut q = self.sh.q.lock().unwrap();
                loop {
                    if let Some(v) = q.pop_front() {
                        self.sh.cv.notify_all();
                        return Some(v);
                    }
                    if *self.sh.raw_senders.lock().unwrap() == 0 {
                        return None;
                    }
                    q = self.sh.cv.wait(q).unwrap();
                }
            }
        }
    }
    /// Non-blocking: Ok(v), Err(true) = disconnected, Err(false) = empty. Not a scheduling point of its own
    /// (the code under test does not use it; the harness uses it after the execution).
    pub fn try_recv(&self) -> Result<T, bool> {
        let mut q = self.sh.q.lock().unwrap();
        if let Some(v) = q.pop_front() {
            if let Some(c) = self.sh.id {
                let _ = with_inner(|i, _| {
                    if i.chans.len() > c && i.chans[c].len > 0 {
                        i.chans[c].len -= 1
                    }
                });
            }
            return Ok(v);
        }
        let senders = match self.sh.id {
            Some(c) => with_inner(|i, _| i.chans.get(c).map_or(0, |ch| ch.senders)).unwrap_or(*self.sh.raw_senders.lock().unwrap()),
            None => *self.sh.raw_senders.lock().unwrap(),
        };
        Err(senders == 0)
    }
}

impl<T> Clone for Tx<T> {
    fn clone(&self) -> Self {
        *self.sh.raw_senders.lock().unwrap() += 1;
        if let Some(c) = self.sh.id {
            let _ = with_inner(|i, _| {
                if let Some(ch) = i.chans.get_mut(c) {
                    ch.senders += 1
                }
            });
        }
        Tx { sh: self.sh.clone() }
    }
}
impl<T> Clone for Rx<T> {
    fn clone(&self) -> Self {
        *self.sh.raw_receivers.lock().unwrap() += 1;
        if let Some(c) = self.sh.id {
            let _ = with_inner(|i, _| {
                if let Some(ch) = i.chans.get_mut(c) {
                    ch.receivers += 1
                }
            });
        }
        Rx { sh: self.sh.clone() }
    }
}
impl<T> Drop for Tx<T> {
    fn drop(&mut self) {
        if let Some(c) = self.sh.id {
            if crate::core::current().is_some() && !std::thread::panicking() {
                // a disconnection other threads can observe: a scheduling point
                let last = with_inner(|i, _| i.chans.get(c).map_or(false, |ch| ch.senders == 1)).unwrap_or(false);
                if last {
                    let r = std::panic::catch_unwind(std::panic::AssertUnwindSafe(|| point(Op::DropSender(c))));
                    let _ = with_inner(|i, _| {
                        if let Some(ch) = i.chans.get_mut(c) {
                            ch.senders = ch.senders.saturating_sub(1)
                        }
                    });
                    *self.sh.raw_senders.lock().unwrap() -= 1;
                    self.sh.cv.notify_all();
                    if let Err(p) = r {
                        std::panic::resume_unwind(p);
                    }
                    return;
                }
            }
            let _ = with_inner(|i, _| {
                if let Some(ch) = i.chans.get_mut(c) {
                    ch.senders = ch.senders.saturating_sub(1)
                }
            });
        }
        *self.sh.raw_senders.lock().unwrap() -= 1;
        self.sh.cv.notify_all();
    }
}
impl<T> Drop for Rx<T> {
    fn drop(&mut self) {
        if let Some(c) = self.sh.id {
            if crate::core::current().is_some() && !std::thread::panicking() {
                let last = with_inner(|i, _| i.chans.get(c).map_or(false, |ch| ch.receivers == 1)).unwrap_or(false);
                if last {
                    let r = std::panic::catch_unwind(std::panic::AssertUnwindSafe(|| point(Op::DropReceiver(c))));
                    let _ = with_inner(|i, _| {
                        if let Some(ch) = i.chans.get_mut(c) {
                            ch.receivers = ch.receivers.saturating_sub(1)
                        }
                    });
                    *self.sh.raw_receivers.lock().unwrap() -= 1;
                    self.sh.cv.notify_all();
                    if let Err(p) = r {
                        std::panic::resume_unwind(p);
                    }
                    return;
                }
            }
            let _ = with_inner(|i, _| {
                if let Some(ch) = i.chans.get_mut(c) {
                    ch.receivers = ch.receivers.saturating_sub(1)
                }
            });
        }
        *self.sh.raw_receivers.lock().unwrap() -= 1;
        self.sh.cv.notify_all();
    }
}
