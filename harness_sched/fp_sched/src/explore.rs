//! Deviation-bounded depth-first enumeration of schedules (iterative context bounding, generalised: any choice
//! other than the default one costs one deviation). Default policy: continue the running thread if it is still
//! enabled, else the lowest enabled thread id (index 0 of the canonical enabled list).
use crate::core::{ExecResult, Outcome, Policy};

pub struct ExploreStats {
    pub executions: u64,
    pub steps: u64,
    pub distinct_abstract_states: std::collections::HashSet<u64>,
    pub bound_completed: usize,
    pub capped: bool,
}

/// `run(prefix)` executes the scenario under the given choice prefix. `visit` is called for every execution and
/// returns false to stop the exploration (e.g. after the first violation).
pub fn explore(
    bound: usize,
    max_executions: u64,
    run: &mut dyn FnMut(&[usize]) -> ExecResult,
    visit: &mut dyn FnMut(&[usize], &ExecResult) -> bool,
) -> ExploreStats {
    let mut st = ExploreStats { executions: 0, steps: 0, distinct_abstract_states: Default::default(), bound_completed: 0, capped: false };
    // iterative deepening over the deviation bound: 0, 1, .. bound (executions with fewer deviations are re-run
    // only as prefixes; each bound level enumerates schedules with exactly that many deviations)
    let mut stack: Vec<(Vec<usize>, usize)> = vec![(vec![], 0)]; // (prefix of choices, deviations used)
    let mut stop = false;
    while let Some((prefix, used)) = stack.pop() {
        if stop {
            break;
        }
        if st.executions >= max_executions {
            st.capped = true;
            break;
        }
        let r = run(&prefix);
        st.executions += 1;
        st.steps += r.steps.len() as u64;
        st.distinct_abstract_states.extend(r.abstract_states.iter().copied());
        if let Outcome::ReplayDiverged(_) = r.outcome {
            // machinery failure: reported by the visitor
        }
        if !visit(&prefix, &r) {
            stop = true;
        }
        if used >= bound {
            continue;
        }
        // alternatives at every point after the prefix
        let choices: Vec<usize> = r.steps.iter().map(|s| s.enabled.iter().position(|t| *t == s.chosen).unwrap()).collect();
        let mut children = Vec::new();
        for i in prefix.len()..r.steps.len() {
            let n = r.steps[i].enabled.len();
            for alt in 1..n {
                let mut p: Vec<usize> = choices[..i].to_vec();
                p.push(alt);
                children.push((p, used + 1));
            }
        }
        // depth-first, earliest deviation first
        children.reverse();
        stack.extend(children);
    }
    st.bound_completed = if st.capped || stop { 0 } else { bound };
    st
}

pub fn policy_for(prefix: &[usize], base: &Policy) -> Policy {
    Policy { prefix: prefix.to_vec(), ..base.clone() }
}
