//! `sched` — controlled-scheduler exploration of real threads (DESIGN.md section 2.1).
//!
//! Threads are real OS threads, but exactly one holds the baton. A *scheduling point* precedes every shim
//! operation (send, recv, drop of a channel end, spawn, join, flag load/store, thread exit). The scheduler knows
//! enabledness exactly (recv: queue non-empty or all senders gone; bounded send: not full or all receivers gone;
//! join: target exited), so "no enabled thread while some thread has not exited" is a deadlock.
pub mod chan;
pub mod core;
pub mod explore;
pub mod std_shim;

pub use crate::core::{run_execution, ExecResult, Policy, Step};
