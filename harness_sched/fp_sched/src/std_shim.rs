//! Drop-in replacements for the `std::thread` / `std::sync::atomic` items the code under test uses.
pub mod thread {
    use crate::core::{current, point, spawn_managed, Op};
    use std::io;
    use std::sync::{Arc, Mutex};
    pub use std::thread::Result;

    pub struct Builder {
        name: Option<String>,
    }
    impl Builder {
        pub fn new() -> Self {
            Builder { name: None }
        }
        pub fn name(mut self, n: String) -> Self {
            self.name = Some(n);
            self
        }
        pub fn spawn<F, T>(self, f: F) -> io::Result<JoinHandle<T>>
        where
            F: FnOnce() -> T + Send + 'static,
            T: Send + 'static,
        {
            if current().is_some() {
                point(Op::Spawn);
                let (tid, slot) = spawn_managed(self.name.unwrap_or_else(|| "thread".into()), f);
                Ok(JoinHandle { inner: Inner::Managed { tid, slot } })
            } else {
                let mut b = std::thread::Builder::new();
                if let Some(n) = self.name {
                    b = b.name(n);
                }
                b.spawn(f).map(|h| JoinHandle { inner: Inner::Os(h) })
            }
        }
    }
    impl Default for Builder {
        fn default() -> Self {
            Self::new()
        }
    }

    enum Inner<T> {
        Managed { tid: usize, slot: Arc<Mutex<Option<std::thread::Result<T>>>> },
        Os(std::thread::JoinHandle<T>),
    }
    pub struct JoinHandle<T> {
        inner: Inner<T>,
    }
    impl<T> JoinHandle<T> {
        pub fn join(self) -> std::thread::Result<T> {
            match self.inner {
                Inner::Os(h) => h.join(),
                Inner::Managed { tid, slot } => {
                    point(Op::Join(tid));
                    let r = slot.lock().unwrap_or_else(|e| e.into_inner()).take();
                    r.expect("joined thread left a result")
                }
            }
        }
    }
    impl<T> std::fmt::Debug for JoinHandle<T> {
        fn fmt(&self, f: &mut std::fmt::Formatter<'_>) -> std::fmt::Result {
            write!(f, "JoinHandle")
        }
    }

    pub fn spawn<F, T>(f: F) -> JoinHandle<T>
    where
        F: FnOnce() -> T + Send + 'static,
        T: Send + 'static,
    {
        Builder::new().spawn(f).expect("spawn")
    }
    /// Sleeping only yields: real time is not part of the model.
    pub fn sleep(_d: std::time::Duration) {
        point(Op::Yield);
    }
}

pub mod atomic {
    use crate::core::{current, point, with_inner, Op};
    pub use std::sync::atomic::Ordering;

    /// A flag whose loads and stores are scheduling points.
    pub struct AtomicBool {
        raw: std::sync::atomic::AtomicBool,
        id: std::sync::OnceLock<usize>,
    }
    impl AtomicBool {
        pub fn new(v: bool) -> Self {
            AtomicBool { raw: std::sync::atomic::AtomicBool::new(v), id: std::sync::OnceLock::new() }
        }
        fn id(&self) -> Option<usize> {
            if current().is_none() {
                return None;
            }
            Some(*self.id.get_or_init(|| {
                with_inner(|i, _| {
                    i.flags.push(self.raw.load(Ordering::SeqCst));
                    i.flags.len() - 1
                })
                .unwrap()
            }))
        }
        /// The flag's id in the current execution (assigned on first use); lets a harness tell flags apart.
        pub fn verif_id(&self) -> Option<usize> {
            self.id()
        }
        pub fn load(&self, o: Ordering) -> bool {
            if let Some(id) = self.id() {
                point(Op::Load(id));
            }
            self.raw.load(o)
        }
        pub fn store(&self, v: bool, o: Ordering) {
            if let Some(id) = self.id() {
                point(Op::Store(id, v));
                let _ = with_inner(|i, _| i.flags[id] = v);
            }
            self.raw.store(v, o)
        }
    }
    impl std::fmt::Debug for AtomicBool {
        fn fmt(&self, f: &mut std::fmt::Formatter<'_>) -> std::fmt::Result {
            write!(f, "AtomicBool({})", self.raw.load(Ordering::SeqCst))
        }
    }
    impl Default for AtomicBool {
        fn default() -> Self {
            Self::new(false)
        }
    }
}
