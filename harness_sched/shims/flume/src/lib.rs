//! The subset of `flume` the code under test uses, on top of `fp_sched::chan`.
use fp_sched::chan::{channel, Rx, Tx};
use std::fmt;

pub struct Sender<T>(Tx<T>);
pub struct Receiver<T>(Rx<T>);

#[derive(PartialEq, Eq, Clone, Copy)]
pub struct SendError<T>(pub T);
#[derive(PartialEq, Eq, Clone, Copy, Debug)]
pub enum RecvError {
    Disconnected,
}
#[derive(PartialEq, Eq, Clone, Copy, Debug)]
pub enum TryRecvError {
    Empty,
    Disconnected,
}

impl<T> fmt::Debug for SendError<T> {
    fn fmt(&self, f: &mut fmt::Formatter<'_>) -> fmt::Result {
        "SendError(..)".fmt(f)
    }
}
impl<T> fmt::Display for SendError<T> {
    fn fmt(&self, f: &mut fmt::Formatter<'_>) -> fmt::Result {
        "sending on a closed channel".fmt(f)
    }
}
impl<T> std::error::Error for SendError<T> {}
impl fmt::Display for RecvError {
    fn fmt(&self, f: &mut fmt::Formatter<'_>) -> fmt::Result {
        "receiving on a closed channel".fmt(f)
    }
}
impl std::error::Error for RecvError {}

pub fn unbounded<T>() -> (Sender<T>, Receiver<T>) {
    let (t, r) = channel(None, "flume-unbounded");
    (Sender(t), Receiver(r))
}
pub fn bounded<T>(cap: usize) -> (Sender<T>, Receiver<T>) {
    let (t, r) = channel(Some(cap), "flume-bounded");
    (Sender(t), Receiver(r))
}

impl<T> Sender<T> {
    pub fn send(&self, v: T) -> Result<(), SendError<T>> {
        self.0.send(v).map_err(SendError)
    }
}
impl<T> Receiver<T> {
    pub fn recv(&self) -> Result<T, RecvError> {
        self.0.recv().ok_or(RecvError::Disconnected)
    }
    pub fn try_recv(&self) -> Result<T, TryRecvError> {
        self.0.try_recv().map_err(|d| if d { TryRecvError::Disconnected } else { TryRecvError::Empty })
    }
    pub fn try_iter(&self) -> TryIter<'_, T> {
        TryIter(self)
    }
}
pub struct TryIter<'a, T>(&'a Receiver<T>);
impl<'a, T> Iterator for TryIter<'a, T> {
    type Item = T;
    fn next(&mut self) -> Option<T> {
        self.0.try_recv().ok()
    }
}
impl<T> Clone for Sender<T> {
    fn clone(&self) -> Self {
        Sender(self.0.clone())
    }
}
impl<T> Clone for Receiver<T> {
    fn clone(&self) -> Self {
        Receiver(self.0.clone())
    }
}
impl<T> fmt::Debug for Sender<T> {
    fn fmt(&self, f: &mut fmt::Formatter<'_>) -> fmt::Result {
        f.write_str("Sender { .. }")
    }
}
impl<T> fmt::Debug for Receiver<T> {
    fn fmt(&self, f: &mut fmt::Formatter<'_>) -> fmt::Result {
        f.write_str("Receiver { .. }")
    }
}
