//! The subset of `crossbeam_channel` the code under test uses, on top of `fp_sched::chan`.
use fp_sched::chan::{channel, NoRecv, NoSend, Rx, Tx};
use std::time::{Duration, Instant};
use std::fmt;

pub struct Sender<T>(Tx<T>);
pub struct Receiver<T>(Rx<T>);

#[derive(PartialEq, Eq, Clone, Copy)]
pub struct SendError<T>(pub T);
#[derive(PartialEq, Eq, Clone, Copy, Debug)]
pub struct RecvError;
#[derive(PartialEq, Eq, Clone, Copy, Debug)]
pub enum TryRecvError {
    Empty,
    Disconnected,
}

impl<T> fmt::Debug for SendError<T> {
    fn fmt(&self, f: &mut fmt::Formatter<'_>) -> fmt::Result {
        "SendError(..)".fmt(f)
    }
}
impl<T> fmt::Display for SendError<T> {
    fn fmt(&self, f: &mut fmt::Formatter<'_>) -> fmt::Result {
        "sending on a disconnected channel".fmt(f)
    }
}
impl<T> std::error::Error for SendError<T> {}
impl fmt::Display for RecvError {
    fn fmt(&self, f: &mut fmt::Formatter<'_>) -> fmt::Result {
        "receiving on an empty and disconnected channel".fmt(f)
    }
}
impl std::error::Error for RecvError {}

pub fn bounded<T>(cap: usize) -> (Sender<T>, Receiver<T>) {
    let (t, r) = channel(Some(cap), "crossbeam-bounded");
    (Sender(t), Receiver(r))
}

#[derive(PartialEq, Eq, Clone, Copy)]
pub enum TrySendError<T> {
    Full(T),
    Disconnected(T),
}
#[derive(PartialEq, Eq, Clone, Copy)]
pub enum SendTimeoutError<T> {
    Timeout(T),
    Disconnected(T),
}
#[derive(PartialEq, Eq, Clone, Copy, Debug)]
pub enum RecvTimeoutError {
    Timeout,
    Disconnected,
}
impl<T> fmt::Debug for TrySendError<T> {
    fn fmt(&self, f: &mut fmt::Formatter<'_>) -> fmt::Result {
        match self {
            TrySendError::Full(_) => "Full(..)".fmt(f),
            TrySendError::Disconnected(_) => "Disconnected(..)".fmt(f),
        }
    }
}
impl<T> fmt::Display for TrySendError<T> {
    fn fmt(&self, f: &mut fmt::Formatter<'_>) -> fmt::Result {
        match self {
            TrySendError::Full(_) => "sending on a full channel".fmt(f),
            TrySendError::Disconnected(_) => "sending on a disconnected channel".fmt(f),
        }
    }
}
impl<T> std::error::Error for TrySendError<T> {}
impl<T> TrySendError<T> {
    pub fn into_inner(self) -> T {
        match self {
            TrySendError::Full(v) | TrySendError::Disconnected(v) => v,
        }
    }
    pub fn is_full(&self) -> bool {
        matches!(self, TrySendError::Full(_))
    }
    pub fn is_disconnected(&self) -> bool {
        matches!(self, TrySendError::Disconnected(_))
    }
}
impl<T> fmt::Debug for SendTimeoutError<T> {
    fn fmt(&self, f: &mut fmt::Formatter<'_>) -> fmt::Result {
        match self {
            SendTimeoutError::Timeout(_) => "Timeout(..)".fmt(f),
            SendTimeoutError::Disconnected(_) => "Disconnected(..)".fmt(f),
        }
    }
}
impl<T> fmt::Display for SendTimeoutError<T> {
    fn fmt(&self, f: &mut fmt::Formatter<'_>) -> fmt::Result {
        match self {
            SendTimeoutError::Timeout(_) => "timed out waiting on send operation".fmt(f),
            SendTimeoutError::Disconnected(_) => "sending on a disconnected channel".fmt(f),
        }
    }
}
impl<T> std::error::Error for SendTimeoutError<T> {}
impl fmt::Display for RecvTimeoutError {
    fn fmt(&self, f: &mut fmt::Formatter<'_>) -> fmt::Result {
        match self {
            RecvTimeoutError::Timeout => "timed out waiting on receive operation".fmt(f),
            RecvTimeoutError::Disconnected => "channel is empty and disconnected".fmt(f),
        }
    }
}
impl std::error::Error for RecvTimeoutError {}
impl RecvTimeoutError {
    pub fn is_timeout(&self) -> bool {
        matches!(self, RecvTimeoutError::Timeout)
    }
    pub fn is_disconnected(&self) -> bool {
        matches!(self, RecvTimeoutError::Disconnected)
    }
}
impl fmt::Display for TryRecvError {
    fn fmt(&self, f: &mut fmt::Formatter<'_>) -> fmt::Result {
        match self {
            TryRecvError::Empty => "receiving on an empty channel".fmt(f),
            TryRecvError::Disconnected => "receiving on an empty and disconnected channel".fmt(f),
        }
    }
}
impl std::error::Error for TryRecvError {}
impl<T> SendError<T> {
    pub fn into_inner(self) -> T {
        self.0
    }
}

pub fn unbounded<T>() -> (Sender<T>, Receiver<T>) {
    let (t, r) = channel(None, "crossbeam-unbounded");
    (Sender(t), Receiver(r))
}

impl<T> Sender<T> {
    pub fn send(&self, v: T) -> Result<(), SendError<T>> {
        self.0.send(v).map_err(SendError)
    }
    pub fn try_send(&self, v: T) -> Result<(), TrySendError<T>> {
        self.0.try_send(v).map_err(|e| match e {
            NoSend::Full(v) => TrySendError::Full(v),
            NoSend::Disconnected(v) => TrySendError::Disconnected(v),
        })
    }
    /// The time limit itself is not modelled: the timeout is an answer of the environment chosen by the scheduler.
    pub fn send_timeout(&self, v: T, _d: Duration) -> Result<(), SendTimeoutError<T>> {
        self.0.send_timeout(v).map_err(|e| match e {
            NoSend::Full(v) => SendTimeoutError::Timeout(v),
            NoSend::Disconnected(v) => SendTimeoutError::Disconnected(v),
        })
    }
    pub fn send_deadline(&self, v: T, _d: Instant) -> Result<(), SendTimeoutError<T>> {
        self.send_timeout(v, Duration::ZERO)
    }
    pub fn len(&self) -> usize {
        self.0.query().0
    }
    pub fn is_empty(&self) -> bool {
        self.0.query().0 == 0
    }
    pub fn is_full(&self) -> bool {
        let (l, c) = self.0.query();
        c.map_or(false, |c| l >= c)
    }
    pub fn capacity(&self) -> Option<usize> {
        self.0.sh.cap
    }
}
impl<T> Receiver<T> {
    pub fn recv(&self) -> Result<T, RecvError> {
        self.0.recv().ok_or(RecvError)
    }
    pub fn try_recv(&self) -> Result<T, TryRecvError> {
        self.0.try_recv_point().map_err(|e| match e {
            NoRecv::Empty => TryRecvError::Empty,
            NoRecv::Disconnected => TryRecvError::Disconnected,
        })
    }
    /// The time limit itself is not modelled: the timeout is an answer of the environment chosen by the scheduler.
    pub fn recv_timeout(&self, _d: Duration) -> Result<T, RecvTimeoutError> {
        self.0.recv_timeout().map_err(|e| match e {
            NoRecv::Empty => RecvTimeoutError::Timeout,
            NoRecv::Disconnected => RecvTimeoutError::Disconnected,
        })
    }
    pub fn recv_deadline(&self, _d: Instant) -> Result<T, RecvTimeoutError> {
        self.recv_timeout(Duration::ZERO)
    }
    pub fn try_iter(&self) -> TryIter<'_, T> {
        TryIter(self)
    }
    pub fn iter(&self) -> Iter<'_, T> {
        Iter(self)
    }
    pub fn len(&self) -> usize {
        self.0.query().0
    }
    pub fn is_empty(&self) -> bool {
        self.0.query().0 == 0
    }
    pub fn is_full(&self) -> bool {
        let (l, c) = self.0.query();
        c.map_or(false, |c| l >= c)
    }
    pub fn capacity(&self) -> Option<usize> {
        self.0.sh.cap
    }
}
impl<T> Clone for Sender<T> {
    fn clone(&self) -> Self {
        Sender(self.0.clone())
    }
}
impl<T> Clone for Receiver<T> {
    fn clone(&self) -> Self {
        Receiver(self.0.clone())
    }
}
impl<T> fmt::Debug for Sender<T> {
    fn fmt(&self, f: &mut fmt::Formatter<'_>) -> fmt::Result {
        f.write_str("Sender { .. }")
    }
}
impl<T> fmt::Debug for Receiver<T> {
    fn fmt(&self, f: &mut fmt::Formatter<'_>) -> fmt::Result {
        f.write_str("Receiver { .. }")
    }
}

/// Blocking iterator: ends when the channel is empty and disconnected.
pub struct Iter<'a, T>(&'a Receiver<T>);
impl<'a, T> Iterator for Iter<'a, T> {
    type Item = T;
    fn next(&mut self) -> Option<T> {
        self.0.recv().ok()
    }
}
impl<T> IntoIterator for Receiver<T> {
    type Item = T;
    type IntoIter = IntoIter<T>;
    fn into_iter(self) -> IntoIter<T> {
        IntoIter(self)
    }
}
pub struct IntoIter<T>(Receiver<T>);
impl<T> Iterator for IntoIter<T> {
    type Item = T;
    fn next(&mut self) -> Option<T> {
        self.0.recv().ok()
    }
}
impl<'a, T> IntoIterator for &'a Receiver<T> {
    type Item = T;
    type IntoIter = Iter<'a, T>;
    fn into_iter(self) -> Iter<'a, T> {
        Iter(self)
    }
}

pub struct TryIter<'a, T>(&'a Receiver<T>);
impl<'a, T> Iterator for TryIter<'a, T> {
    type Item = T;
    fn next(&mut self) -> Option<T> {
        self.0.try_recv().ok()
    }
}
