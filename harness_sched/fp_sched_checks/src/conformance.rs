//! Shim/real channel conformance (DESIGN.md C17.4): every operation sequence up to the given depth over two
//! sender and two receiver handles, executed on the real crates (non-blocking variants) and on the scheduler's
//! enabledness rules + effects; this is what entitles `sched` to treat one channel operation as one atomic step
//! whose enabledness it knows exactly.

#[derive(Clone, Copy, Debug, PartialEq, Eq)]
pub enum COp {
    Send(usize),
    Recv(usize),
    CloneS(usize),
    CloneR(usize),
    DropS(usize),
    DropR(usize),
}

#[derive(Clone, Debug, PartialEq, Eq)]
pub enum Res {
    SendOk,
    SendWouldBlock,
    SendDisconnected,
    Recv(u32),
    RecvWouldBlock,
    RecvDisconnected,
    Unit,
    NoHandle,
}

/// The scheduler's model of a channel (what `fp_sched::core` keeps per channel) with its rules.
#[derive(Clone, Debug)]
struct Model {
    q: std::collections::VecDeque<u32>,
    cap: Option<usize>,
    s: [bool; 2],
    r: [bool; 2],
}
impl Model {
    fn senders(&self) -> usize {
        self.s.iter().filter(|x| **x).count()
    }
    fn receivers(&self) -> usize {
        self.r.iter().filter(|x| **x).count()
    }
    fn apply(&mut self, op: COp, val: u32) -> Res {
        match op {
            COp::Send(i) => {
                if !self.s[i] {
                    return Res::NoHandle;
                }
                // enabled iff not full or all receivers gone; with all receivers gone the send fails
                if self.receivers() == 0 {
                    Res::SendDisconnected
                } else if self.cap.map_or(true, |c| self.q.len() < c) {
                    self.q.push_back(val);
                    Res::SendOk
                } else {
                    Res::SendWouldBlock
                }
            }
            COp::Recv(i) => {
                if !self.r[i] {
                    return Res::NoHandle;
                }
                // enabled iff non-empty or all senders gone
                if let Some(v) = self.q.pop_front() {
                    Res::Recv(v)
                } else if self.senders() == 0 {
                    Res::RecvDisconnected
                } else {
                    Res::RecvWouldBlock
                }
            }
            COp::CloneS(i) => {
                if self.s[0] && !self.s[1] && i == 0 {
                    self.s[1] = true;
                    Res::Unit
                } else {
                    Res::NoHandle
                }
            }
            COp::CloneR(i) => {
                if self.r[0] && !self.r[1] && i == 0 {
                    self.r[1] = true;
                    Res::Unit
                } else {
                    Res::NoHandle
                }
            }
            COp::DropS(i) => {
                if self.s[i] {
                    self.s[i] = false;
                    Res::Unit
                } else {
                    Res::NoHandle
                }
            }
            COp::DropR(i) => {
                if self.r[i] {
                    self.r[i] = false;
                    Res::Unit
                } else {
                    Res::NoHandle
                }
            }
        }
    }
}

trait RealChan {
    fn apply(&mut self, op: COp, val: u32) -> Res;
}

struct Cb {
    s: [Option<real_crossbeam::Sender<u32>>; 2],
    r: [Option<real_crossbeam::Receiver<u32>>; 2],
}
impl RealChan for Cb {
    fn apply(&mut self, op: COp, val: u32) -> Res {
        use real_crossbeam::{TryRecvError, TrySendError};
        match op {
            COp::Send(i) => match &self.s[i] {
                None => Res::NoHandle,
                Some(s) => match s.try_send(val) {
                    Ok(()) => Res::SendOk,
                    Err(TrySendError::Full(_)) => Res::SendWouldBlock,
                    Err(TrySendError::Disconnected(_)) => Res::SendDisconnected,
                },
            },
            COp::Recv(i) => match &self.r[i] {
                None => Res::NoHandle,
                Some(r) => match r.try_recv() {
                    Ok(v) => Res::Recv(v),
                    Err(TryRecvError::Empty) => Res::RecvWouldBlock,
                    Err(TryRecvError::Disconnected) => Res::RecvDisconnected,
                },
            },
            COp::CloneS(i) => {
                if i == 0 && self.s[0].is_some() && self.s[1].is_none() {
                    self.s[1] = self.s[0].clone();
                    Res::Unit
                } else {
                    Res::NoHandle
                }
            }
            COp::CloneR(i) => {
                if i == 0 && self.r[0].is_some() && self.r[1].is_none() {
                    self.r[1] = self.r[0].clone();
                    Res::Unit
                } else {
                    Res::NoHandle
                }
            }
            COp::DropS(i) => {
                if self.s[i].take().is_some() {
                    Res::Unit
                } else {
                    Res::NoHandle
                }
            }
            COp::DropR(i) => {
                if self.r[i].take().is_some() {
                    Res::Unit
                } else {
                    Res::NoHandle
                }
            }
        }
    }
}

struct Fl {
    s: [Option<real_flume::Sender<u32>>; 2],
    r: [Option<real_flume::Receiver<u32>>; 2],
}
impl RealChan for Fl {
    fn apply(&mut self, op: COp, val: u32) -> Res {
        use real_flume::{TryRecvError, TrySendError};
        match op {
            COp::Send(i) => match &self.s[i] {
                None => Res::NoHandle,
                Some(s) => match s.try_send(val) {
                    Ok(()) => Res::SendOk,
                    Err(TrySendError::Full(_)) => Res::SendWouldBlock,
                    Err(TrySendError::Disconnected(_)) => Res::SendDisconnected,
                },
            },
            COp::Recv(i) => match &self.r[i] {
                None => Res::NoHandle,
                Some(r) => match r.try_recv() {
                    Ok(v) => Res::Recv(v),
                    Err(TryRecvError::Empty) => Res::RecvWouldBlock,
                    Err(TryRecvError::Disconnected) => Res::RecvDisconnected,
                },
            },
            COp::CloneS(i) => {
                if i == 0 && self.s[0].is_some() && self.s[1].is_none() {
                    self.s[1] = self.s[0].clone();
                    Res::Unit
                } else {
                    Res::NoHandle
                }
            }
            COp::CloneR(i) => {
                if i == 0 && self.r[0].is_some() && self.r[1].is_none() {
                    self.r[1] = self.r[0].clone();
                    Res::Unit
                } else {
                    Res::NoHandle
                }
            }
            COp::DropS(i) => {
                if self.s[i].take().is_some() {
                    Res::Unit
                } else {
                    Res::NoHandle
                }
            }
            COp::DropR(i) => {
                if self.r[i].take().is_some() {
                    Res::Unit
                } else {
                    Res::NoHandle
                }
            }
        }
    }
}

fn all_ops() -> Vec<COp> {
    vec![COp::Send(0), COp::Send(1), COp::Recv(0), COp::Recv(1), COp::CloneS(0), COp::CloneR(0), COp::DropS(0), COp::DropS(1), COp::DropR(0), COp::DropR(1)]
}

/// Returns (sequences checked, first disagreement).
pub fn run(depth: usize) -> (u64, Option<String>) {
    let ops = all_ops();
    let mut count = 0u64;
    let kinds: Vec<(&str, Option<usize>)> = vec![("crossbeam bounded(1)", Some(1)), ("crossbeam bounded(2)", Some(2)), ("crossbeam unbounded", None), ("flume unbounded", None), ("flume bounded(1)", Some(1))];
    for (kind, cap) in &kinds {
        let mut seq = vec![0usize; depth];
        loop {
            // execute this sequence
            let mut model = Model { q: Default::default(), cap: *cap, s: [true, false], r: [true, false] };
            let mut real: Box<dyn RealChan> = if kind.starts_with("crossbeam") {
                let (s, r) = match cap {
                    Some(c) => real_crossbeam::bounded(*c),
                    None => real_crossbeam::unbounded(),
                };
                Box::new(Cb { s: [Some(s), None], r: [Some(r), None] })
            } else {
                let (s, r) = match cap {
                    Some(c) => real_flume::bounded(*c),
                    None => real_flume::unbounded(),
                };
                Box::new(Fl { s: [Some(s), None], r: [Some(r), None] })
            };
            for (k, &oi) in seq.iter().enumerate() {
                let a = model.apply(ops[oi], k as u32);
                let b = real.apply(ops[oi], k as u32);
                if a != b {
                    return (count, Some(format!("{kind}: after {:?} the operation {:?} gives {:?} on the real crate and {:?} by the scheduler's rules", seq[..k].iter().map(|i| ops[*i]).collect::<Vec<_>>(), ops[oi], b, a)));
                }
            }
            count += 1;
            // next sequence
            let mut i = depth;
            loop {
                if i == 0 {
                    break;
                }
                i -= 1;
                seq[i] += 1;
                if seq[i] < ops.len() {
                    break;
                }
                seq[i] = 0;
                if i == 0 {
                    i = usize::MAX;
                    break;
                }
            }
            if i == usize::MAX {
                break;
            }
        }
    }
    (count, None)
}


// ------------------------------------------------------------------ the shim code itself, under the scheduler

struct Sh {
    s: [Option<crossbeam_channel::Sender<u32>>; 2],
    r: [Option<crossbeam_channel::Receiver<u32>>; 2],
}
impl Sh {
    /// `timed`: use the operations with a time limit (a timeout stands for "would block") instead of try_*.
    fn apply(&mut self, op: COp, val: u32, timed: bool) -> Res {
        use crossbeam_channel::{RecvTimeoutError, SendTimeoutError, TryRecvError, TrySendError};
        let d = std::time::Duration::from_millis(1);
        match op {
            COp::Send(i) => match &self.s[i] {
                None => Res::NoHandle,
                Some(s) if timed => match s.send_timeout(val, d) {
                    Ok(()) => Res::SendOk,
                    Err(SendTimeoutError::Timeout(_)) => Res::SendWouldBlock,
                    Err(SendTimeoutError::Disconnected(_)) => Res::SendDisconnected,
                },
                Some(s) => match s.try_send(val) {
                    Ok(()) => Res::SendOk,
                    Err(TrySendError::Full(_)) => Res::SendWouldBlock,
                    Err(TrySendError::Disconnected(_)) => Res::SendDisconnected,
                },
            },
            COp::Recv(i) => match &self.r[i] {
                None => Res::NoHandle,
                Some(r) if timed => match r.recv_timeout(d) {
                    Ok(v) => Res::Recv(v),
                    Err(RecvTimeoutError::Timeout) => Res::RecvWouldBlock,
                    Err(RecvTimeoutError::Disconnected) => Res::RecvDisconnected,
                },
                Some(r) => match r.try_recv() {
                    Ok(v) => Res::Recv(v),
                    Err(TryRecvError::Empty) => Res::RecvWouldBlock,
                    Err(TryRecvError::Disconnected) => Res::RecvDisconnected,
                },
            },
            COp::CloneS(i) => {
                if i == 0 && self.s[0].is_some() && self.s[1].is_none() {
                    self.s[1] = self.s[0].clone();
                    Res::Unit
                } else {
                    Res::NoHandle
                }
            }
            COp::CloneR(i) => {
                if i == 0 && self.r[0].is_some() && self.r[1].is_none() {
                    self.r[1] = self.r[0].clone();
                    Res::Unit
                } else {
                    Res::NoHandle
                }
            }
            COp::DropS(i) => {
                if self.s[i].take().is_some() {
                    Res::Unit
                } else {
                    Res::NoHandle
                }
            }
            COp::DropR(i) => {
                if self.r[i].take().is_some() {
                    Res::Unit
                } else {
                    Res::NoHandle
                }
            }
        }
    }
}

/// The shim channel code as the code under test sees it (inside a controlled execution, one thread): every operation
/// sequence up to `depth`, with the non-blocking operations and with the timed ones, against real crossbeam.
/// Returns (sequences checked, first disagreement).
pub fn run_shim(depth: usize) -> (u64, Option<String>) {
    use std::sync::{Arc, Mutex};
    let ops = all_ops();
    // all sequences of this depth
    let mut seqs: Vec<Vec<usize>> = vec![vec![]];
    for _ in 0..depth {
        seqs = seqs.into_iter().flat_map(|p| (0..ops.len()).map(move |o| { let mut q = p.clone(); q.push(o); q })).collect();
    }
    let mut total = 0u64;
    for cap in [Some(1usize), Some(2), None] {
        for timed in [false, true] {
            // chunks keep the number of channels per execution small (the scheduler's state hash visits them all)
            for chunk in seqs.chunks(400) {
                let chunk: Vec<Vec<usize>> = chunk.to_vec();
                let n = chunk.len() as u64;
                let out: Arc<Mutex<Option<String>>> = Arc::new(Mutex::new(None));
                let out2 = out.clone();
                let policy = fp_sched::core::Policy { prefix: vec![], max_steps: 1_000_000, yield_on_unbounded_send: false, cap_override: None, descending: false };
                let r = fp_sched::core::run_execution(policy, move || {
                    let ops = all_ops();
                    for seq in &chunk {
                        let (s, r) = match cap {
                            Some(c) => crossbeam_channel::bounded(c),
                            None => crossbeam_channel::unbounded(),
                        };
                        let mut shim = Sh { s: [Some(s), None], r: [Some(r), None] };
                        let (s, r) = match cap {
                            Some(c) => real_crossbeam::bounded(c),
                            None => real_crossbeam::unbounded(),
                        };
                        let mut real = Cb { s: [Some(s), None], r: [Some(r), None] };
                        for (k, &oi) in seq.iter().enumerate() {
                            let a = shim.apply(ops[oi], k as u32, timed);
                            let b = real.apply(ops[oi], k as u32);
                            if a != b {
                                *out2.lock().unwrap() = Some(format!("capacity {:?}, {} operations: after {:?} the operation {:?} gives {:?} on real crossbeam and {:?} on the shim under the scheduler", cap, if timed { "timed" } else { "non-blocking" }, seq[..k].iter().map(|i| ops[*i]).collect::<Vec<_>>(), ops[oi], b, a));
                                return;
                            }
                        }
                    }
                });
                if let Some(d) = out.lock().unwrap().clone() {
                    return (total, Some(d));
                }
                if r.outcome != fp_sched::core::Outcome::Completed {
                    return (total, Some(format!("the conformance execution ended with {:?}", r.outcome)));
                }
                if let Some((t, m)) = r.panics.first() {
                    return (total, Some(format!("thread {t} panicked: {m}")));
                }
                total += n;
            }
        }
    }
    (total, None)
}
