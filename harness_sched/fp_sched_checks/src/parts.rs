//! Splitting a check over worker processes: the scheduler engine owns process-wide state (one controlled execution
//! at a time), so independent scenarios are explored by child processes of the same binary (`--part k`), up to
//! `workers()` at a time; each child writes `Reporter::export_part` to the file named by VERIF_PART_OUT.
use fp_harness::Tier;
use serde_json::Value;
use std::process::{Child, Command, Stdio};

pub fn workers() -> usize {
    std::env::var("VERIF_WORKERS").ok().and_then(|s| s.parse().ok()).unwrap_or_else(|| std::thread::available_parallelism().map(|n| n.get()).unwrap_or(4).min(16))
}

pub fn out_path() -> Option<String> {
    std::env::var("VERIF_PART_OUT").ok()
}

/// Child side: write the part file.
pub fn write_part(v: &Value) {
    if let Some(p) = out_path() {
        let tmp = format!("{p}.tmp");
        std::fs::write(&tmp, serde_json::to_vec(v).unwrap()).expect("write part");
        std::fs::rename(&tmp, &p).expect("rename part");
    }
}

/// Parent side: runs parts 0..n, returns per part Ok(export) or Err(what went wrong with the worker).
pub fn run_parts(id: &str, tier: Tier, n: usize) -> Vec<Result<Value, String>> {
    let exe = std::env::current_exe().expect("current_exe");
    let dir = std::path::PathBuf::from(format!("/verif/target/scratch/parts-{}-{}", id, std::process::id()));
    let dir = match std::env::var("VERIF_TARGET") {
        Ok(t) if !t.is_empty() => std::path::PathBuf::from(format!("{t}/scratch/parts-{}-{}", id, std::process::id())),
        _ => dir,
    };
    std::fs::create_dir_all(&dir).expect("parts dir");
    let mut results: Vec<Option<Result<Value, String>>> = (0..n).map(|_| None).collect();
    let mut running: Vec<(usize, Child)> = Vec::new();
    let mut next = 0usize;
    let w = workers();
    while next < n || !running.is_empty() {
        while next < n && running.len() < w {
            let out = dir.join(format!("part{next}.json"));
            let child = Command::new(&exe)
                .args([id, "--tier", tier.name(), "--part", &next.to_string()])
                .env("VERIF_PART_OUT", &out)
                .stdin(Stdio::null())
                .stdout(Stdio::null())
                .stderr(Stdio::null())
                .spawn();
            match child {
                Ok(c) => running.push((next, c)),
                Err(e) => results[next] = Some(Err(format!("spawn failed: {e}"))),
            }
            next += 1;
        }
        let mut still = Vec::new();
        for (k, mut c) in running.drain(..) {
            match c.try_wait() {
                Ok(Some(st)) => {
                    let out = dir.join(format!("part{k}.json"));
                    let r = match std::fs::read(&out).ok().and_then(|b| serde_json::from_slice::<Value>(&b).ok()) {
                        Some(v) => Ok(v),
                        None => Err(format!("worker for part {k} ended with {st} and left no result")),
                    };
                    results[k] = Some(r);
                }
                Ok(None) => still.push((k, c)),
                Err(e) => results[k] = Some(Err(format!("wait failed: {e}"))),
            }
        }
        running = still;
        std::thread::sleep(std::time::Duration::from_millis(5));
    }
    let _ = std::fs::remove_dir_all(&dir);
    results.into_iter().map(|r| r.unwrap_or_else(|| Err("not run".into()))).collect()
}
