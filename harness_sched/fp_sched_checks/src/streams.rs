//! Inputs for the scheduler scenarios (built with the independent model).
use fp_model::grammar::{self, HbfShape, LinkCfg, PacketT};

/// `links` interleaved links (round robin), `hbfs` HBFs each of shape `shape_idx`; when `err_pairs` is set every
/// RDH carries a sanity fault (E10) and a running fault (E11): two errors at the same offset from one sender.
pub fn multi_link(links: usize, hbfs: usize, shape_idx: usize, err_pairs: bool, stave: bool) -> (Vec<Vec<PacketT>>, Vec<u8>) {
    multi_link_fmt(links, hbfs, shape_idx, err_pairs, stave, 2)
}

pub fn multi_link_fmt(links: usize, hbfs: usize, shape_idx: usize, err_pairs: bool, stave: bool, fmt: u8) -> (Vec<Vec<PacketT>>, Vec<u8>) {
    let mut per_link = Vec::new();
    for l in 0..links {
        let mut cfg = LinkCfg::ib(l as u8, 4 + l as u8);
        cfg.data_format = fmt;
        let shapes: Vec<HbfShape> = if stave { grammar::stave_hbf_shapes(&cfg) } else { grammar::basic_hbf_shapes(&cfg) }.into_iter().map(|s| s.1).collect();
        let hs: Vec<HbfShape> = (0..hbfs).map(|i| shapes[(shape_idx + i) % shapes.len()].clone()).collect();
        let mut pk = grammar::render_link(&cfg, &hs);
        if err_pairs {
            let n = pk.len();
            for (i, p) in pk.iter_mut().enumerate() {
                // even links: an E10 + E11 pair on every RDH; odd links: E11 on every RDH and E10 only on the last,
                // so that the first-seen order of the error codes differs between links
                if l % 2 == 0 || i + 1 == n {
                    p.packet.rdh.rdh1_reserved = 1; // E10
                }
                p.packet.rdh.pages_counter += 7; // E11
            }
        }
        per_link.push(pk);
    }
    let bytes = grammar::round_robin(&per_link).bytes();
    (per_link, bytes)
}
