//! Binding of the TLA+ model `models/Shutdown.tla` to the implementation (C17, thorough; a small instance in quick).
//!
//! 1. TLC checks the model exhaustively (all interleavings): no deadlock, every worker joined before main ends,
//!    termination under weak fairness — for several constant assignments (signal, error cap, fatal error).
//! 2. For the instance that matches a scheduler scenario (clean input, 2 links, batches of one packet, queue
//!    capacities 1 / 2, signal armed) TLC dumps its labelled state graph (`-dump dot,actionlabels`); every
//!    execution the controlled scheduler explores on the real code is projected onto the model's action labels
//!    (one label per scheduling point that the model represents, the rest are stutter steps) and walked through the
//!    graph: each projected step must be an edge of the model from the current state. A step the model does not
//!    allow is a conformance failure; the evidence reports how many implementation traces were validated and which
//!    share of the model's states and edges they cover.
use fp_sched::core::{Op, Step};
use std::collections::{HashMap, HashSet};
use std::path::{Path, PathBuf};

#[derive(Clone, Debug)]
pub struct Consts {
    pub nv: usize,
    pub batches: usize,
    pub cap_d: usize,
    pub cap_v: usize,
    pub err_at: Vec<usize>,
    pub err_cap: usize,
    pub fatal_at: usize,
    pub with_signal: bool,
}

pub struct Graph {
    pub init: i64,
    pub edges: HashMap<i64, Vec<(String, i64)>>,
    pub n_states: usize,
    pub n_edges: usize,
}

pub struct TlcOut {
    pub ok: bool,
    pub states: u64,
    pub distinct: u64,
    pub message: String,
    pub graph: Option<Graph>,
}

pub fn run_tlc(models_dir: &Path, work: &Path, c: &Consts, dump: bool) -> Result<TlcOut, String> {
    std::fs::create_dir_all(work).map_err(|e| e.to_string())?;
    std::fs::copy(models_dir.join("Shutdown.tla"), work.join("Shutdown.tla")).map_err(|e| format!("copy model: {e}"))?;
    let set = |v: &Vec<usize>| format!("{{{}}}", v.iter().map(|x| x.to_string()).collect::<Vec<_>>().join(", "));
    let cfg = format!(
        "SPECIFICATION Spec\nCONSTANTS\n  NV = {}\n  Batches = {}\n  CapD = {}\n  CapV = {}\n  ErrAt = {}\n  ErrCap = {}\n  FatalAt = {}\n  WithSignal = {}\nINVARIANTS TypeOK OrderlyEnd\nPROPERTIES Termination\n",
        c.nv,
        c.batches,
        c.cap_d,
        c.cap_v,
        set(&c.err_at),
        c.err_cap,
        c.fatal_at,
        if c.with_signal { "TRUE" } else { "FALSE" }
    );
    std::fs::write(work.join("S.cfg"), cfg).map_err(|e| e.to_string())?;
    let mut cmd = std::process::Command::new("tlc");
    cmd.current_dir(work).args(["-workers", "4", "-config", "S.cfg"]);
    if dump {
        cmd.args(["-dump", "dot,actionlabels", "out.dot"]);
    }
    cmd.arg("Shutdown.tla");
    let out = cmd.output().map_err(|e| format!("cannot run tlc: {e}"))?;
    let text = String::from_utf8_lossy(&out.stdout).to_string();
    let ok = text.contains("Model checking completed. No error has been found.");
    let mut states = 0;
    let mut distinct = 0;
    for l in text.lines() {
        if l.contains("states generated,") && l.contains("distinct states found") && !l.starts_with("Progress") {
            let nums: Vec<u64> = l.split(|c: char| !c.is_ascii_digit()).filter(|s| !s.is_empty()).filter_map(|s| s.parse().ok()).collect();
            if nums.len() >= 2 {
                states = nums[0];
                distinct = nums[1];
            }
        }
    }
    let message = text.lines().filter(|l| l.starts_with("Error") || l.contains("Deadlock") || l.contains("violated")).take(3).collect::<Vec<_>>().join(" | ");
    let graph = if dump && ok { Some(parse_dot(&work.join("out.dot"))?) } else { None };
    Ok(TlcOut { ok, states, distinct, message, graph })
}

fn parse_dot(p: &PathBuf) -> Result<Graph, String> {
    let text = std::fs::read_to_string(p).map_err(|e| format!("read dot: {e}"))?;
    let mut edges: HashMap<i64, Vec<(String, i64)>> = HashMap::new();
    let mut init: Option<i64> = None;
    let mut states: HashSet<i64> = HashSet::new();
    let mut n_edges = 0;
    for line in text.lines() {
        let l = line.trim();
        if let Some(arrow) = l.find(" -> ") {
            // edge: <src> -> <dst> [label="Action",...]
            let src: i64 = l[..arrow].trim().parse().map_err(|_| format!("bad edge {l}"))?;
            let rest = &l[arrow + 4..];
            let sp = rest.find(' ').ok_or("bad edge")?;
            let dst: i64 = rest[..sp].trim().parse().map_err(|_| format!("bad edge {l}"))?;
            let lab = rest.split("label=\"").nth(1).and_then(|s| s.split('"').next()).unwrap_or("").to_string();
            let e = edges.entry(src).or_default();
            if !e.contains(&(lab.clone(), dst)) {
                e.push((lab, dst));
                n_edges += 1;
            }
            states.insert(src);
            states.insert(dst);
        } else if let Some(b) = l.find(" [label=") {
            if let Ok(id) = l[..b].trim().parse::<i64>() {
                states.insert(id);
                if init.is_none() && l.ends_with("style = filled]") {
                    init = Some(id);
                }
            }
        }
    }
    Ok(Graph { init: init.ok_or("no initial state in the dump")?, edges, n_states: states.len(), n_edges })
}

/// Projects the scheduler steps of one execution onto model action labels.
/// Channel ids in creation order: 0 = statistics, 1 = scanner statistics, 2 = reader->analysis data, 3.. = validators.
pub fn project(steps: &[Step], names: &[String]) -> Vec<String> {
    let mut out = Vec::new();
    let tid = |n: &str| names.iter().position(|x| x == n);
    let reader = tid("Reader");
    let ana = tid("Analysis");
    let ctrl = tid("stats_thread");
    let last_ctrl_recv = steps.iter().rposition(|s| Some(s.chosen) == ctrl && s.op == Op::Recv(0));
    let last_main_recv = steps.iter().rposition(|s| s.chosen == 0 && s.op == Op::Recv(1));
    let mut sent_on: HashSet<usize> = HashSet::new();
    let mut closed = false;
    for (i, s) in steps.iter().enumerate() {
        let name = names[s.chosen].as_str();
        match (name, &s.op) {
            ("Reader", Op::Load(_)) => out.push("ReaderCheck".into()),
            ("Reader", Op::Send(2)) => out.push("ReaderSend".into()),
            ("Reader", Op::DropSender(1)) => out.push("ReaderDropScanner".into()),
            ("Reader", Op::DropSender(2)) => out.push("ReaderExit".into()),
            ("Analysis", Op::Load(_)) => out.push("AnaCheck".into()),
            ("Analysis", Op::Recv(2)) => out.push("AnaRecv".into()),
            ("Analysis", Op::Send(c)) if *c >= 3 => {
                out.push(if sent_on.insert(*c) { "AnaDispatchNew".into() } else { "AnaDispatchOld".into() });
            }
            ("Analysis", Op::DropSender(c)) if *c >= 3 => {
                if !closed {
                    closed = true;
                    out.push("AnaClose".into());
                }
            }
            ("Analysis", Op::DropReceiver(2)) => {
                if !closed {
                    closed = true;
                    out.push("AnaClose".into());
                }
                out.push("AnaJoin".into());
            }
            ("stats_thread", Op::Recv(0)) => {
                if Some(i) == last_ctrl_recv {
                    out.push("CtrlRecv".into());
                }
            }
            ("stats_thread", Op::Store(_, true)) if s.op != Op::Store(usize::MAX, true) => {
                // the only flag the collector raises during processing is the stop flag; the any-errors flag is
                // stored after its loop has ended (after the final Recv)
                if last_ctrl_recv.map_or(true, |l| i < l) {
                    out.push("CtrlStore".into());
                }
            }
            ("main", Op::Recv(1)) => {
                if Some(i) == last_main_recv {
                    out.push("MainForward".into());
                }
            }
            ("main", Op::Join(t)) => {
                if Some(*t) == reader {
                    out.push("MainJoinReader".into());
                } else if Some(*t) == ana {
                    out.push("MainJoinAna".into());
                } else if Some(*t) == ctrl {
                    out.push("MainJoinCtrl".into());
                }
            }
            ("Signal", Op::Store(_, true)) => out.push("Signal".into()),
            (n, Op::Recv(_)) if n.starts_with("Validator #") => {
                let k: usize = n.trim_start_matches("Validator #").parse().unwrap_or(0);
                out.push(format!("ValRecv{}", k + 1));
            }
            _ => {}
        }
    }
    out
}

/// Walks the projected labels through the model graph. Returns the visited (state, label, state) edges, or the index
/// and label of the first step the model does not allow.
pub fn walk(g: &Graph, labels: &[String]) -> Result<Vec<(i64, String, i64)>, (usize, String, Vec<String>)> {
    let mut cur = g.init;
    let mut used = Vec::new();
    for (i, l) in labels.iter().enumerate() {
        let outs = g.edges.get(&cur).cloned().unwrap_or_default();
        let next: Vec<&(String, i64)> = outs.iter().filter(|(lab, _)| lab == l).collect();
        match next.len() {
            1 => {
                used.push((cur, l.clone(), next[0].1));
                cur = next[0].1;
            }
            0 => return Err((i, l.clone(), outs.iter().map(|x| x.0.clone()).collect())),
            _ => {
                // the model is deterministic per label; should it ever not be, follow the first and say so
                used.push((cur, l.clone(), next[0].1));
                cur = next[0].1;
            }
        }
    }
    Ok(used)
}
