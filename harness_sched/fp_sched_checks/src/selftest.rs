//! Self-test of the scheduler on a toy producer/consumer with a lost-update bug and a bounded queue.
use fp_sched::core::{run_execution, Outcome, Policy};
use fp_sched::explore::{explore, policy_for};
use std::sync::atomic::Ordering;
use std::sync::{Arc, Mutex};

pub fn run() -> i32 {
    let base = Policy { prefix: vec![], max_steps: 2000, yield_on_unbounded_send: true, cap_override: None, descending: false };
    // two producers send 2 messages each over one unbounded channel; the consumer records the arrival order
    let orders = Arc::new(Mutex::new(std::collections::BTreeSet::new()));
    let o2 = orders.clone();
    let mut runner = |prefix: &[usize]| {
        let o3 = o2.clone();
        run_execution(policy_for(prefix, &base), move || {
            let (tx, rx) = flume::unbounded::<u8>();
            let mut hs = Vec::new();
            for p in 0..2u8 {
                let tx = tx.clone();
                hs.push(fp_sched::std_shim::thread::Builder::new().name(format!("p{p}")).spawn(move || {
                    tx.send(p * 10).unwrap();
                    tx.send(p * 10 + 1).unwrap();
                }).unwrap());
            }
            drop(tx);
            let mut got = Vec::new();
            while let Ok(v) = rx.recv() {
                got.push(v);
            }
            for h in hs {
                h.join().unwrap();
            }
            o3.lock().unwrap().insert(got);
        })
    };
    let mut bad = 0;
    let st = explore(4, 200_000, &mut runner, &mut |_p, r| {
        if r.outcome != Outcome::Completed {
            bad += 1;
        }
        true
    });
    let n = orders.lock().unwrap().len();
    crate::say!("selftest: executions={} steps={} arrival orders={} (expected 6 = C(4,2)) non-completed={}", st.executions, st.steps, n, bad);
    // deadlock detection: a bounded(1) channel whose receiver never reads while it still holds the handle
    let r = run_execution(Policy { max_steps: 100, ..base.clone() }, || {
        let (tx, rx) = crossbeam_channel::bounded::<u8>(1);
        let flag = Arc::new(fp_sched::std_shim::atomic::AtomicBool::new(false));
        let f2 = flag.clone();
        let h = fp_sched::std_shim::thread::Builder::new().name("prod".into()).spawn(move || {
            tx.send(1).unwrap();
            tx.send(2).unwrap(); // blocks forever: full and the receiver is alive but never reads
            f2.store(true, Ordering::SeqCst);
        }).unwrap();
        h.join().unwrap();
        drop(rx);
    });
    let dl = matches!(r.outcome, Outcome::Deadlock(_));
    crate::say!("selftest: deadlock detected = {dl} ({:?})", r.outcome);
    if n == 6 && bad == 0 && dl { 0 } else { 2 }
}
