//! The real pipeline as a schedulable scenario: controller thread, reader thread, analysis thread, one validator
//! thread per link (per FEE id in stave mode) or the writer thread, the input-statistics forwarder (main), and an
//! optional `Signal` pseudo-thread that does what the ctrl-c handler does (store `true` into the stop flag).
use alice_protocol_reader::prelude::*;
use fastpasta::config::check::{CheckCommands, CheckModeArgs, System};
use fastpasta::config::inputoutput::{DataOutputFormat, DataOutputMode};
use fastpasta::config::prelude::MockConfig;
use fastpasta::stats::StatType;
use fp_sched::core::{run_execution, ExecResult, Policy};
use std::io::{self, Read, Seek, SeekFrom};
use std::path::PathBuf;
use std::sync::atomic::Ordering;
use std::sync::{Arc, Mutex};

pub struct MemReader {
    pub data: Arc<Vec<u8>>,
    pub pos: usize,
}
impl Read for MemReader {
    fn read(&mut self, buf: &mut [u8]) -> io::Result<usize> {
        if self.pos >= self.data.len() {
            return Ok(0);
        }
        let n = buf.len().min(self.data.len() - self.pos);
        buf[..n].copy_from_slice(&self.data[self.pos..self.pos + n]);
        self.pos += n;
        Ok(n)
    }
}
impl Seek for MemReader {
    fn seek(&mut self, pos: SeekFrom) -> io::Result<u64> {
        match pos {
            SeekFrom::Current(o) => {
                self.pos = (self.pos as i64 + o).max(0) as usize;
                Ok(self.pos as u64)
            }
            _ => Err(io::Error::new(io::ErrorKind::Other, "unsupported")),
        }
    }
}
impl BufferedReaderWrapper for MemReader {
    fn seek_relative_offset(&mut self, offset: i64) -> io::Result<()> {
        self.seek(SeekFrom::Current(offset)).map(|_| ())
    }
}

#[derive(Clone, Copy, Debug, PartialEq, Eq, Hash)]
pub enum Mode {
    All,
    AllIts,
    AllStave,
    /// filtered writing: `-f <link> -o <file>`
    Write(u8),
    /// a check combined with an output destination that is then ignored: `-f <link> -o <file> check all its`
    AllItsIgnoredOutput(u8),
}

#[derive(Clone, Debug)]
pub struct Scn {
    pub mode: Mode,
    pub mute: bool,
    pub max_errors: u32,
    pub signal: bool,
    /// batch size of the reader (const generic of `process`): 1, 2 or 3
    pub cap: usize,
    pub input: Arc<Vec<u8>>,
    pub scratch: PathBuf,
    /// TOML instead of JSON statistics
    pub toml: bool,
}

pub fn config(s: &Scn) -> &'static MockConfig {
    let mut c = MockConfig::new();
    let args = |t: Option<System>| CheckModeArgs { target: t, ..Default::default() };
    match s.mode {
        Mode::All => c.check = Some(CheckCommands::All(args(None))),
        Mode::AllIts => c.check = Some(CheckCommands::All(args(Some(System::ITS)))),
        Mode::AllStave => c.check = Some(CheckCommands::All(args(Some(System::ITS_Stave)))),
        Mode::AllItsIgnoredOutput(l) => {
            c.check = Some(CheckCommands::All(args(Some(System::ITS))));
            c.filter_link = Some(l);
            c.output = Some(s.scratch.join("out.raw"));
            c.output_mode = DataOutputMode::File(s.scratch.join("out.raw").into());
        }
        Mode::Write(l) => {
            c.filter_link = Some(l);
            c.output = Some(s.scratch.join("out.raw"));
            c.output_mode = DataOutputMode::File(s.scratch.join("out.raw").into());
        }
    }
    c.skip_payload = matches!(s.mode, Mode::All);
    c.mute_errors = s.mute;
    c.max_tolerate_errors = s.max_errors;
    c.stats_output_mode = DataOutputMode::File(s.scratch.join(if s.toml { "stats.toml" } else { "stats.json" }).into());
    c.stats_output_format = Some(if s.toml { DataOutputFormat::TOML } else { DataOutputFormat::JSON });
    Box::leak(Box::new(c))
}

#[derive(Clone, Debug, Default, PartialEq, Eq)]
pub struct Obs {
    pub stats_file: Option<Vec<u8>>,
    pub any_errors: bool,
    pub process_result: Option<String>,
    pub output_file: Option<Vec<u8>>,
    pub finished: bool,
    /// scheduler id of the stop flag (to tell its stores from those to the any-errors flag)
    pub stop_flag_id: Option<usize>,
}

fn process_dyn(
    cap: usize,
    cfg: &'static MockConfig,
    loader: InputScanner<MemReader>,
    rx: &flume::Receiver<InputStatType>,
    tx: &flume::Sender<StatType>,
    stop: Arc<fp_sched::std_shim::atomic::AtomicBool>,
) -> io::Result<()> {
    match cap {
        1 => fastpasta::process::<RdhCru, 1>(cfg, loader, Some(rx), tx, stop),
        2 => fastpasta::process::<RdhCru, 2>(cfg, loader, Some(rx), tx, stop),
        3 => fastpasta::process::<RdhCru, 3>(cfg, loader, Some(rx), tx, stop),
        _ => fastpasta::process::<RdhCru, 100>(cfg, loader, Some(rx), tx, stop),
    }
}

/// One execution of the whole pipeline under `policy`.
pub fn run(scn: &Scn, cfg: &'static MockConfig, policy: Policy) -> (ExecResult, Obs) {
    let obs = Arc::new(Mutex::new(Obs::default()));
    let stats_path = scn.scratch.join(if scn.toml { "stats.toml" } else { "stats.json" });
    let out_path = scn.scratch.join("out.raw");
    let _ = std::fs::remove_file(&stats_path);
    let _ = std::fs::remove_file(&out_path);
    let obs2 = obs.clone();
    let input = scn.input.clone();
    let signal = scn.signal;
    let cap = scn.cap;
    let res = run_execution(policy, move || {
        // what init::run() does, minus argument parsing and the OS signal plumbing
        let (controller, stat_send, stop_flag, any_errors) = fastpasta::controller::init_controller(cfg);
        obs2.lock().unwrap().stop_flag_id = stop_flag.verif_id();
        let sig = if signal {
            let f = stop_flag.clone();
            Some(fp_sched::std_shim::thread::Builder::new().name("Signal".into()).spawn(move || f.store(true, Ordering::SeqCst)).unwrap())
        } else {
            None
        };
        // init_processing() with the batch size as a parameter
        let mut reader = MemReader { data: input, pos: 0 };
        let r: Result<(), String> = (|| {
            let rdh0 = Rdh0::load(&mut reader).map_err(|e| e.to_string())?;
            stat_send.send(StatType::RdhVersion(rdh0.header_id)).unwrap();
            let (itx, irx) = flume::unbounded();
            let loader = InputScanner::new_from_rdh0(cfg, Box::new(reader), Some(itx), rdh0);
            match process_dyn(cap, cfg, loader, &irx, &stat_send, stop_flag.clone()) {
                Ok(()) => Ok(()),
                Err(e) => {
                    stat_send.send(StatType::Fatal(e.to_string().into())).unwrap();
                    Err(e.to_string())
                }
            }
        })();
        drop(stat_send);
        controller.join().expect("Failed to join stats thread");
        if let Some(s) = sig {
            let _ = s.join();
        }
        let mut o = obs2.lock().unwrap();
        o.process_result = r.err();
        o.any_errors = any_errors.load(Ordering::Relaxed);
        o.finished = true;
    });
    let mut o = obs.lock().unwrap().clone();
    o.stats_file = std::fs::read(&stats_path).ok();
    o.output_file = std::fs::read(&out_path).ok();
    (res, o)
}
