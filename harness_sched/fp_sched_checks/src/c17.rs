//! C17 — early stop is orderly: signals, closed pipes, error cap, fatal errors.
//!
//! 1. `sched`: the whole real pipeline with bounded queues overridden to capacity 1 / 2; a `Signal` pseudo-thread
//!    (stores `true` into the stop flag, as the ctrl-c handler does) is placed at every scheduling point of the
//!    default schedule (quick) and of every 1-deviation schedule (thorough); the error cap for every N; a fatal
//!    framing error at every packet index; check, view and filtered-writing modes. Invariants: every execution
//!    terminates (no deadlock, step horizon), no thread panics, every thread is joined; a filtered output file
//!    is a concatenation of whole packets and a prefix of the expected filtered stream.
//! 2. stdout closure on the real CLI after every N bytes of output.
//! 3. shim/real channel conformance to depth 6 (what entitles 1. to its atomic steps).
use crate::conformance;
use crate::say;
use crate::scenario::{self, Mode, Scn};
use crate::streams;
use fp_harness::cli::{Run, Scratch};
use fp_harness::par::par_map;
use fp_harness::{Reporter, Tier, Violation};
use fp_model::stream;
use fp_sched::core::{Outcome, Policy};
use fp_sched::explore::{explore, policy_for};
use serde_json::json;
use std::sync::Arc;

fn scratch() -> std::path::PathBuf {
    let p = std::path::PathBuf::from(format!("/verif/target/scratch/sched17-{}", std::process::id()));
    std::fs::create_dir_all(&p).unwrap();
    p
}

struct Tot {
    executions: u64,
    steps: u64,
    states: std::collections::HashSet<u64>,
    full_queue_seen: bool,
    stop_observed_runs: u64,
    /// executions in which the any-errors flag was compared with what was reported / of these, nothing reported
    flag_judged: u64,
    flag_judged_clean: u64,
    /// executions of the "stop cause, then fatal error" scenarios in which the reader did run into the damaged RDH
    fatal_reached: u64,
}

fn explore_stop(rep: &mut Reporter, tot: &mut Tot, scn: &Scn, cap_override: Option<usize>, bound: usize, label: &str, expected_output: Option<&[u8]>) {
    explore_stop_x(rep, tot, scn, cap_override, bound, label, expected_output, false, None)
}

/// What one execution must satisfy (shared by the exploration and by the replay of a stored schedule).
#[allow(clippy::too_many_arguments)]
fn judge(r: &fp_sched::core::ExecResult, o: &scenario::Obs, scn: &Scn, expected_output: Option<&[u8]>, must_stop: bool, fatal_at: Option<usize>, full_caps: &[usize], tot: &mut Tot) -> Vec<(String, String)> {
    let mut out: Vec<(String, String)> = Vec::new();
        match &r.outcome {
            Outcome::Completed => {}
            Outcome::ReplayDiverged(m) => out.push(("__machinery".into(), format!("replay diverged: {m}"))),
            Outcome::Deadlock(b) => out.push(("stop:deadlock".into(), format!("deadlock; blocked threads: {:?}", b))),
            Outcome::Horizon => out.push(("stop:no-termination-within-horizon".into(), "step horizon reached".into())),
        }
        for (t, m) in &r.panics {
            out.push((format!("stop:panic:{}", t.split(' ').next().unwrap_or(t)), format!("thread {t} panicked: {m}")));
        }
        // "with all worker threads finished": when the main thread ends, no other thread may still be running
        // (a real process ends there and cuts them off, e.g. a writer that is still flushing)
        if r.outcome == Outcome::Completed && !r.alive_at_main_exit.is_empty() {
            out.push(("stop:main-ended-before-worker-threads".into(), format!("threads still running when the main thread ended: {:?}", r.alive_at_main_exit)));
        }
        if r.outcome == Outcome::Completed && !o.finished {
            out.push(("stop:main-did-not-finish".into(), "all threads ended but the main thread did not reach its end".into()));
        }
        if let Some(exp) = expected_output {
            if let Some(file) = &o.output_file {
                let (walked, end) = stream::walk(file);
                let whole = end == stream::WalkEnd::Clean && walked.iter().all(|w| w.complete);
                if !whole {
                    out.push(("stop:output-not-whole-packets".into(), format!("filtered output of {} bytes is not a sequence of whole packets ({:?})", file.len(), end)));
                } else if file.len() > exp.len() || exp[..file.len()] != file[..] {
                    out.push(("stop:output-not-a-prefix".into(), format!("filtered output ({} bytes) is not a prefix of the expected filtered stream ({} bytes)", file.len(), exp.len())));
                }
            }
        }
        // the any-errors flag (it becomes the exit status) follows what was reported, however the run was stopped
        if r.outcome == Outcome::Completed && o.finished {
            if let Some(st) = o.stats_file.as_deref().and_then(|b| serde_json::from_slice::<serde_json::Value>(b).ok()) {
                let es = &st["error_stats"];
                let total = es["total_errors"].as_u64().unwrap_or(0);
                let fatal = !es["fatal_error"].is_null();
                let reported = total > 0 || fatal || o.process_result.is_some();
                // a fatal input error that ended the reading is recorded as such, whatever else happened before. The
                // reader looks at the stop flag between batches only: once it has loaded a packet of the batch that holds
                // the damaged RDH it runs into that RDH
                if o.process_result.is_some() && !fatal {
                    out.push(("stop:fatal-error-not-recorded".into(), format!("processing ended with the fatal error {:?}, the statistics record no fatal error ({total} errors listed)", o.process_result)));
                }
                if let Some(k) = fatal_at {
                    let seen = st["rdh_stats"]["rdhs_seen"].as_u64().unwrap_or(0) as usize;
                    let batch_start = (k / scn.cap.max(1)) * scn.cap.max(1);
                    if seen > batch_start && !fatal {
                        out.push(("stop:fatal-error-not-recorded".into(), format!("{seen} RDHs were read, so the reader ran into the damaged RDH of packet {k}; the statistics record no fatal error")));
                    }
                    if seen > batch_start {
                        tot.fatal_reached += 1;
                    }
                }
                if o.any_errors != reported {
                    out.push((format!("stop:any-errors-flag-{}", if o.any_errors { "set-without-a-reported-error" } else { "not-set-although-errors-were-reported" }), format!("any-errors flag = {}, the statistics list {total} errors, fatal error present = {fatal}, processing result {:?}", o.any_errors, o.process_result)));
                }
                tot.flag_judged += 1;
                if !reported {
                    tot.flag_judged_clean += 1;
                }
            }
        }
        if let Some(c) = full_caps.first() {
            if r.max_chan_len.values().any(|l| l >= c) {
                tot.full_queue_seen = true;
            }
        }
        if r.steps.iter().any(|s| matches!(s.op, fp_sched::core::Op::Store(id, true) if Some(id) == o.stop_flag_id)) {
            tot.stop_observed_runs += 1;
        } else if must_stop && r.outcome == Outcome::Completed {
            out.push(("stop:cap-reached-but-not-stopped".into(), format!("the stream carries at least {} errors, the cap is {}, yet the stop flag was never raised", scn.max_errors, scn.max_errors)));
        }
    out
}

/// `must_stop`: the stream carries at least as many errors as the configured cap, so in every execution the
/// controller must raise the stop flag (the run is cut short by reaching the cap, not one error later).
#[allow(clippy::too_many_arguments)]
fn explore_stop_x(rep: &mut Reporter, tot: &mut Tot, scn: &Scn, cap_override: Option<usize>, bound: usize, label: &str, expected_output: Option<&[u8]>, must_stop: bool, fatal_at: Option<usize>) {
    let cfg = scenario::config(scn);
    let base = Policy { prefix: vec![], max_steps: 30_000, yield_on_unbounded_send: false, cap_override, descending: false };
    let mut problems: Vec<(String, String, Vec<usize>)> = Vec::new();
    let mut run = |prefix: &[usize]| {
        let (r, o) = scenario::run(scn, cfg, policy_for(prefix, &base));
        LAST.with(|l| *l.borrow_mut() = Some(o));
        r
    };
    let full_caps: Vec<usize> = cap_override.into_iter().collect();
    let st = explore(bound, 2_000_000, &mut run, &mut |prefix, r| {
        let o = LAST.with(|l| l.borrow_mut().take()).unwrap();
        for (sig, d) in judge(r, &o, scn, expected_output, must_stop, fatal_at, &full_caps, tot) {
            problems.push((sig, d, prefix.to_vec()));
        }
        true
    });
    tot.executions += st.executions;
    tot.steps += st.steps;
    tot.states.extend(st.distinct_abstract_states.iter().copied());
    if st.capped {
        rep.machinery_error(format!("{label}: execution cap hit before the deviation bound was completed"));
    }
    for (sig, d, p) in problems {
        if sig == "__machinery" {
            rep.machinery_error(format!("{label}: {d}"));
        } else {
            rep.violation(Violation { signature: sig, description: format!("{d} [{label}]"), replay: json!({"scenario": label, "schedule": p}) });
        }
    }
}

thread_local! {
    static LAST: std::cell::RefCell<Option<scenario::Obs>> = const { std::cell::RefCell::new(None) };
}

// ------------------------------------------------------------------ stdout closure on the CLI

fn closure_cases(tier: Tier) -> Vec<(String, Vec<String>, Vec<u8>, bool)> {
    // large enough that the output exceeds the (shrunk, 4 KiB) pipe several times over
    let (_, clean) = streams::multi_link(2, 9, 0, false, false);
    let (_, faulty) = streams::multi_link(2, 9, 0, true, false);
    let mut v: Vec<(String, Vec<String>, Vec<u8>, bool)> = Vec::new();
    let s = |a: &[&str]| a.iter().map(|x| x.to_string()).collect::<Vec<_>>();
    v.push(("view rdh".into(), s(&["view", "rdh"]), clean.clone(), false));
    v.push(("view its-readout-frames".into(), s(&["view", "its-readout-frames"]), clean.clone(), false));
    v.push(("filtered data to stdout".into(), s(&["-f", "0"]), clean.clone(), true));
    v.push(("report".into(), s(&["check", "all", "its"]), faulty.clone(), false));
    v.push(("statistics to stdout".into(), s(&["check", "sanity", "-S", "stdout", "-D", "json"]), clean.clone(), false));
    // small outputs: everything the tool writes stays in its own buffers until the very end, so the closed pipe is
    // first noticed by the final flush (1, 2, 3 HBFs of one link: filtered data of a few hundred bytes; a short view)
    for hbfs in [1usize, 2, 3] {
        let (_, small) = streams::multi_link(1, hbfs, 0, false, false);
        v.push((format!("filtered data to stdout, {} bytes", small.len()), s(&["-f", "0"]), small.clone(), true));
        if hbfs == 1 {
            v.push(("view rdh, short".into(), s(&["view", "rdh"]), small.clone(), false));
            v.push(("statistics to stdout, short".into(), s(&["check", "sanity", "-S", "stdout", "-D", "toml"]), small, false));
        }
    }
    if tier.is_thorough() {
        // beyond the writer's 2^20-packet buffer: the flush in mid-run meets the closed pipe (few closing points)
        let mut big: Vec<u8> = Vec::with_capacity(1_100_000 * 64);
        let (_, one) = streams::multi_link(1, 1, 0, false, false);
        let mut h = one[..64].to_vec();
        h[8] = 64;
        h[9] = 0;
        h[10] = 64;
        h[11] = 0;
        for _ in 0..1_100_000 {
            big.extend_from_slice(&h);
        }
        v.push(("big: filtered data to stdout, 1.1 million packets".into(), s(&["-f", "0"]), big, true));
        v.push(("view its-readout-frames-data".into(), s(&["view", "its-readout-frames-data"]), clean.clone(), false));
        v.push(("statistics toml to stdout".into(), s(&["check", "all", "-S", "stdout", "-D", "toml"]), faulty, false));
        v.push(("view rdh unstyled".into(), s(&["view", "rdh", "-d"]), clean, false));
    }
    v
}

fn closure_run(args: &[String], input: &[u8], n: Option<usize>) -> (fp_harness::cli::RunResult, Scratch) {
    let scratch = Scratch::new("c17");
    let mut a = vec![scratch.file("in.raw", input).display().to_string()];
    a.extend(args.iter().cloned());
    let mut run = Run::new(&a).cwd(&scratch.path).timeout_s(if input.len() > 10_000_000 { 60 } else { 10 }).stdout_pipe_size(4096);
    if let Some(n) = n {
        run = run.close_stdout_after(n);
    }
    (run.run(), scratch)
}

// ------------------------------------------------------------------ real OS signals on the real binary

struct SigOutcome {
    status: Option<i32>,
    killed_by: Option<i32>,
    timed_out: bool,
    stderr: String,
    stdout: String,
}

/// Runs the CLI with `input` on a pipe that stays open, waits until `stop_marker` shows up on stderr (or, without a
/// marker, `delay_ms`), sends `signals` (one every 150 ms), closes stdin 300 ms after the last one and waits.
fn signal_run(args: &[String], input: &[u8], stop_marker: Option<&str>, delay_ms: u64, signals: &[i32]) -> SigOutcome {
    use std::io::{Read, Write};
    use std::os::unix::process::ExitStatusExt;
    use std::process::{Command, Stdio};
    use std::time::{Duration, Instant};
    let scratch = Scratch::new("c17sig");
    let mut child = Command::new(fp_harness::cli::cli_bin())
        .args(args)
        .current_dir(&scratch.path)
        .env("RUST_BACKTRACE", "0")
        .stdin(Stdio::piped())
        .stdout(Stdio::piped())
        .stderr(Stdio::piped())
        .spawn()
        .expect("spawn fastpasta");
    let mut stdin = child.stdin.take().unwrap();
    let mut so = child.stdout.take().unwrap();
    let mut se = child.stderr.take().unwrap();
    let errbuf = Arc::new(std::sync::Mutex::new(Vec::<u8>::new()));
    let eb = errbuf.clone();
    let t_err = std::thread::spawn(move || {
        let mut b = [0u8; 4096];
        while let Ok(n) = se.read(&mut b) {
            if n == 0 {
                break;
            }
            eb.lock().unwrap().extend_from_slice(&b[..n]);
        }
    });
    let t_out = std::thread::spawn(move || {
        let mut v = Vec::new();
        let _ = so.read_to_end(&mut v);
        v
    });
    let data = input.to_vec();
    let (txc, rxc) = std::sync::mpsc::channel::<()>();
    let t_in = std::thread::spawn(move || {
        let _ = stdin.write_all(&data);
        let _ = stdin.flush();
        let _ = rxc.recv_timeout(Duration::from_secs(20)); // keep the pipe open until told to close it
        drop(stdin);
    });
    let t0 = Instant::now();
    match stop_marker {
        Some(m) => {
            while t0.elapsed() < Duration::from_secs(8) {
                if String::from_utf8_lossy(&errbuf.lock().unwrap()).contains(m) {
                    break;
                }
                std::thread::sleep(Duration::from_millis(10));
            }
            std::thread::sleep(Duration::from_millis(150));
        }
        None => std::thread::sleep(Duration::from_millis(delay_ms)),
    }
    for (i, sig) in signals.iter().enumerate() {
        if i > 0 {
            std::thread::sleep(Duration::from_millis(150));
        }
        unsafe {
            libc::kill(child.id() as i32, *sig);
        }
    }
    std::thread::sleep(Duration::from_millis(300));
    let _ = txc.send(());
    let mut timed_out = false;
    let st = loop {
        match child.try_wait() {
            Ok(Some(st)) => break Some(st),
            Ok(None) if t0.elapsed() > Duration::from_secs(25) => {
                timed_out = true;
                let _ = child.kill();
                break child.wait().ok();
            }
            Ok(None) => std::thread::sleep(Duration::from_millis(10)),
            Err(_) => break None,
        }
    };
    let _ = t_in.join();
    let _ = t_err.join();
    let stdout = t_out.join().unwrap_or_default();
    let stderr = String::from_utf8_lossy(&errbuf.lock().unwrap()).into_owned();
    SigOutcome { status: st.and_then(|s| s.code()), killed_by: if timed_out { None } else { st.and_then(|s| s.signal()) }, timed_out, stderr, stdout: String::from_utf8_lossy(&stdout).into_owned() }
}

/// A producer that never stops: `unit` (whole packets) is written to the tool's stdin again and again; `sig` is sent
/// after `delay_ms`. Returns the time from the signal to the exit, or None if the tool was still running
/// `limit_s` seconds after the signal (it is killed then).
fn endless_input_run(args: &[String], unit: &[u8], delay_ms: u64, sig: i32, limit_s: u64) -> Option<f64> {
    use std::io::Write;
    use std::process::{Command, Stdio};
    use std::time::{Duration, Instant};
    let scratch = Scratch::new("c17end");
    let mut child = Command::new(fp_harness::cli::cli_bin())
        .args(args)
        .current_dir(&scratch.path)
        .env("RUST_BACKTRACE", "0")
        .stdin(Stdio::piped())
        .stdout(Stdio::null())
        .stderr(Stdio::null())
        .spawn()
        .expect("spawn fastpasta");
    let mut stdin = child.stdin.take().unwrap();
    let data: Vec<u8> = unit.iter().copied().cycle().take(unit.len() * (1 + (1 << 16) / unit.len().max(1))).collect();
    let stop = Arc::new(std::sync::atomic::AtomicBool::new(false));
    let stop2 = stop.clone();
    let t_in = std::thread::spawn(move || {
        // whole units only: the stream stays well-framed for as long as it lasts
        while !stop2.load(std::sync::atomic::Ordering::Relaxed) {
            if stdin.write_all(&data).is_err() {
                break;
            }
        }
        drop(stdin);
    });
    std::thread::sleep(Duration::from_millis(delay_ms));
    unsafe {
        libc::kill(child.id() as i32, sig);
    }
    let t0 = Instant::now();
    let res = loop {
        match child.try_wait() {
            Ok(Some(_)) => break Some(t0.elapsed().as_secs_f64()),
            Ok(None) if t0.elapsed() > Duration::from_secs(limit_s) => {
                let _ = child.kill();
                let _ = child.wait();
                break None;
            }
            Ok(None) => std::thread::sleep(Duration::from_millis(10)),
            Err(_) => break None,
        }
    };
    stop.store(true, std::sync::atomic::Ordering::Relaxed);
    let _ = t_in.join();
    res
}

/// {no earlier stop, error cap reached, fatal framing error} x {SIGINT, SIGTERM, SIGHUP} x {one, two signals} with
/// the input pipe held open, plus one signal at a menu of delays on a long input. One signal must always lead to
/// the orderly end (no forced exit, no panic, bounded time); a second one may force the exit.
fn real_signals(rep: &mut Reporter) -> serde_json::Value {
    // more than two reader batches (100 packets each): the first batches are analysed while the pipe stays open
    let (_, clean) = streams::multi_link(2, 70, 0, false, false);
    let (_, faulty) = streams::multi_link(2, 70, 0, true, false);
    let mut fatal = clean.clone();
    {
        // the third RDH gets an offset to the next RDH of 16: a fatal framing error in mid-stream
        let o1 = u16::from_le_bytes([clean[8], clean[9]]) as usize;
        let o2 = o1 + u16::from_le_bytes([clean[o1 + 8], clean[o1 + 9]]) as usize;
        fatal[o2 + 8] = 16;
        fatal[o2 + 9] = 0;
    }
    let s = |a: &[&str]| a.iter().map(|x| x.to_string()).collect::<Vec<_>>();
    struct SCase {
        label: String,
        args: Vec<String>,
        input: Vec<u8>,
        marker: Option<&'static str>,
        delay: u64,
        signals: Vec<i32>,
    }
    let mut cases: Vec<SCase> = Vec::new();
    for (sname, sig) in [("SIGINT", libc::SIGINT), ("SIGTERM", libc::SIGTERM), ("SIGHUP", libc::SIGHUP)] {
        for n in [1usize, 2] {
            cases.push(SCase { label: format!("no earlier stop, {n} x {sname}"), args: s(&["check", "all", "its", "-E", "7"]), input: clean.clone(), marker: None, delay: 700, signals: vec![sig; n] });
            cases.push(SCase { label: format!("error cap reached, then {n} x {sname}"), args: s(&["check", "sanity", "-e", "1", "-E", "7"]), input: faulty.clone(), marker: None, delay: 700, signals: vec![sig; n] });
            cases.push(SCase { label: format!("fatal framing error, then {n} x {sname}"), args: s(&["check", "all", "its", "-E", "7"]), input: fatal.clone(), marker: None, delay: 700, signals: vec![sig; n] });
        }
        for d in [0u64, 2, 5, 20] {
            cases.push(SCase { label: format!("{sname} {d} ms after start, view rdh"), args: s(&["view", "rdh", "-E", "7"]), input: clean.clone(), marker: None, delay: d, signals: vec![sig] });
        }
    }
    let res = par_map(&cases, |_, c| signal_run(&c.args, &c.input, c.marker, c.delay, &c.signals));
    let mut forced = 0u64;
    let mut before_handler = 0u64;
    for (c, o) in cases.iter().zip(res.iter()) {
        let class = c.label.split(',').next().unwrap_or("").replace(' ', "-");
        let mut bad: Option<(&str, String)> = None;
        if o.timed_out {
            bad = Some(("timeout", "no exit within 25 s (stdin was closed 300 ms after the last signal)".into()));
        } else if o.stderr.contains("panicked at") {
            bad = Some(("panic", o.stderr.lines().find(|l| l.contains("panicked at")).unwrap_or("").to_string()));
        } else if let Some(k) = o.killed_by.filter(|k| !c.signals.contains(k)) {
            // dying of the very signal sent means it arrived before the handler was installed (no thread, no output
            // yet): the default action is an orderly end; any other fatal signal (SIGABRT, SIGSEGV, ...) is not
            bad = Some(("killed", format!("terminated by signal {k}")));
        } else if c.signals.len() == 1 && o.stderr.contains("ungraceful") {
            bad = Some(("forced-exit-after-one-signal", format!("a single stop signal forced the exit (status {:?}): worker threads not joined, no orderly end", o.status)));
        }
        // one signal ends the run in an orderly way: the exit status is the configured one iff an error was reported
        if bad.is_none() && c.signals.len() == 1 && o.killed_by.is_none() {
            let want = if c.label.starts_with("no earlier stop") || c.label.contains("view rdh") { 0 } else { 7 };
            if o.status != Some(want) {
                bad = Some(("exit-status-after-one-signal", format!("exit status {:?}, expected {want} (the configured any-errors status is 7; the input {})", o.status, if want == 0 { "is clean" } else { "carries errors" })));
            }
        }
        if c.signals.len() == 2 && o.stderr.contains("ungraceful") {
            forced += 1;
        }
        if o.killed_by.map_or(false, |k| c.signals.contains(&k)) {
            before_handler += 1;
        }
        let _ = &o.stdout;
        if let Some((kind, d)) = bad {
            rep.violation(Violation { signature: format!("signal:{kind}:{class}"), description: format!("{d} [{} | `{}`]", c.label, c.args.join(" ")), replay: json!({"args": c.args, "signals": c.signals, "label": c.label}) });
        }
    }
    // a producer that never stops (a live stream): the stop request must end the run although input keeps coming -
    // with a filter that selects everything (control: the reader sees the flag after each batch) and with a filter
    // that selects nothing (the reader is busy skipping packets)
    let mut endless = 0u64;
    {
        let (_, unit) = streams::multi_link(2, 4, 0, false, false);
        let mut ecases: Vec<(&str, Vec<String>, i32)> = Vec::new();
        for (sname, sig) in [("SIGTERM", libc::SIGTERM), ("SIGINT", libc::SIGINT)] {
            let _ = sname;
            ecases.push(("no filter", s(&["check", "sanity"]), sig));
            ecases.push(("filter selects a link that is present", s(&["check", "sanity", "--filter-link", "0"]), sig));
            ecases.push(("filter selects a link that never comes", s(&["check", "sanity", "--filter-link", "9"]), sig));
            ecases.push(("filtered writing of a link that never comes", s(&["--filter-link", "9", "-o", "out.raw"]), sig));
        }
        let res = par_map(&ecases, |_, (_, args, sig)| endless_input_run(args, &unit, 400, *sig, 10));
        for ((label, args, sig), r) in ecases.iter().zip(res.iter()) {
            endless += 1;
            if r.is_none() {
                let skipping = label.contains("never comes");
                rep.violation(Violation {
                    signature: format!("signal:no-end-while-input-keeps-coming:{}", if skipping { "reader-skipping-filtered-out-packets" } else { "reader-delivering-packets" }),
                    description: format!("still running 10 s after signal {sig} while the producer keeps writing well-framed packets [{label} | `{}`]", args.join(" ")),
                    replay: json!({"args": args, "signal": sig, "label": label, "kind": "endless-input"}),
                });
            }
        }
    }
    json!({"cases": cases.len(), "two_signal_cases_with_forced_exit": forced, "signal_arrived_before_the_handler_was_installed": before_handler, "endless_input_cases": endless})
}

struct Job {
    scn: Scn,
    cap_override: Option<usize>,
    bound: usize,
    label: String,
    expected_output: Option<Vec<u8>>,
    must_stop: bool,
    /// index of the packet whose RDH carries a fatal framing error, if any
    fatal_at: Option<usize>,
}

/// The scheduler scenarios and the number of errors the faulty stream produces in an uncapped reference execution.
fn jobs(tier: Tier) -> (Vec<Job>, u32) {
    let mut jobs: Vec<Job> = Vec::new();
    let bound = if tier.is_thorough() { 2 } else { 1 };
    let (_, clean3) = streams::multi_link(2, 2, 0, false, false); // 2 links x 2 HBFs = 8 packets = 4 batches of 2
    let (_, faulty3) = streams::multi_link(2, 2, 0, true, false);
    let clean3 = Arc::new(clean3);
    let faulty3 = Arc::new(faulty3);
    // (a) signal at every point; check / view-less analysis / writer
    for cap in [1usize, 2] {
        for (mode, input) in [(Mode::AllIts, faulty3.clone()), (Mode::All, clean3.clone()), (Mode::AllItsIgnoredOutput(0), faulty3.clone())] {
            // quick: capacity 2 only for the plain check scenario
            if !tier.is_thorough() && cap == 2 && mode != Mode::AllIts {
                continue;
            }
            let scn = Scn { mode, mute: false, max_errors: 0, signal: true, cap: 2, input: input.clone(), scratch: scratch(), toml: false };
            jobs.push(Job { scn, cap_override: Some(cap), bound, label: format!("signal, {:?}, queue capacity {cap}, 8 packets in batches of 2", mode), expected_output: None, must_stop: false, fatal_at: None });
        }
        // (d) writer
        let expected: Vec<u8> = {
            let (w, _) = stream::walk(&clean3);
            w.iter().filter(|x| x.rdh.link_id == 0).flat_map(|x| clean3[x.offset as usize..x.payload.1].to_vec()).collect()
        };
        let scn = Scn { mode: Mode::Write(0), mute: false, max_errors: 0, signal: true, cap: 1, input: clean3.clone(), scratch: scratch(), toml: false };
        jobs.push(Job { scn, cap_override: Some(cap), bound, label: format!("signal, filtered writing of link 0, queue capacity {cap}"), expected_output: Some(expected), must_stop: false, fatal_at: None });
    }
    // (a2) a second stop cause behind the first: the signal, or the error cap, followed by a fatal framing error later
    //      in the stream - the fatal error must be recorded and flagged whenever the reader still ran into it
    {
        let w = stream::walk(&faulty3).0;
        for at in [2usize, 5] {
            // (on otherwise clean data too: the fatal error is then the only thing to report)
            {
                let mut b = (*clean3).clone();
                let off = stream::walk(&clean3).0[at].offset as usize;
                b[off + 8] = 0x10;
                b[off + 9] = 0;
                let scn = Scn { mode: Mode::AllIts, mute: false, max_errors: 0, signal: true, cap: 2, input: Arc::new(b), scratch: scratch(), toml: false };
                jobs.push(Job { scn, cap_override: Some(1), bound, label: format!("signal, then a fatal framing error at packet {at} of clean data, queue capacity 1"), expected_output: None, must_stop: false, fatal_at: Some(at) });
            }
            let mut b = (*faulty3).clone();
            let off = w[at].offset as usize;
            b[off + 8] = 0x10;
            b[off + 9] = 0;
            let input = Arc::new(b);
            let scn = Scn { mode: Mode::AllIts, mute: false, max_errors: 0, signal: true, cap: 2, input: input.clone(), scratch: scratch(), toml: false };
            jobs.push(Job { scn, cap_override: Some(1), bound, label: format!("signal, then a fatal framing error at packet {at}, queue capacity 1"), expected_output: None, must_stop: false, fatal_at: Some(at) });
            let scn = Scn { mode: Mode::AllIts, mute: false, max_errors: 1, signal: false, cap: 2, input, scratch: scratch(), toml: false };
            jobs.push(Job { scn, cap_override: Some(1), bound, label: format!("error cap -e 1, then a fatal framing error at packet {at}, queue capacity 1"), expected_output: None, must_stop: false, fatal_at: Some(at) });
        }
    }
    // (b) error cap for every N
    // the exact number of errors the stream produces: from an uncapped reference execution's statistics file
    let total_errors = {
        let scn = Scn { mode: Mode::AllIts, mute: false, max_errors: 0, signal: false, cap: 2, input: faulty3.clone(), scratch: scratch(), toml: false };
        let (_, o) = scenario::run(&scn, scenario::config(&scn), Policy { prefix: vec![], max_steps: 30_000, yield_on_unbounded_send: false, cap_override: Some(1), descending: false });
        let n = o.stats_file.as_ref().and_then(|b| serde_json::from_slice::<serde_json::Value>(b).ok()).and_then(|v| v["error_stats"]["total_errors"].as_u64()).unwrap_or(0) as u32;
        n
    };
    for n in 1..=total_errors {
        if !tier.is_thorough() && n > 4 && n % 4 != 0 && n != total_errors {
            continue;
        }
        let scn = Scn { mode: Mode::AllIts, mute: false, max_errors: n, signal: false, cap: 2, input: faulty3.clone(), scratch: scratch(), toml: false };
        jobs.push(Job { scn, cap_override: Some(1), bound, label: format!("error cap -e {n}, queue capacity 1"), expected_output: None, must_stop: true, fatal_at: None });
    }
    // (c) fatal framing error at every packet index
    let npk = stream::walk(&clean3).0.len();
    for i in 0..npk {
        let mut b = (*clean3).clone();
        let off = stream::walk(&clean3).0[i].offset as usize;
        b[off + 8] = 0x10; // offset to next = 16 (< 64): fatal for the scanner
        b[off + 9] = 0;
        for cap in [1usize, 2] {
            if !tier.is_thorough() && cap == 2 {
                continue;
            }
            let scn = Scn { mode: Mode::AllIts, mute: false, max_errors: 0, signal: false, cap: 2, input: Arc::new(b.clone()), scratch: scratch(), toml: false };
            jobs.push(Job { scn, cap_override: Some(cap), bound, label: format!("fatal framing error at packet {i}, queue capacity {cap}"), expected_output: None, must_stop: false, fatal_at: Some(i) });
        }
    }
    (jobs, total_errors)
}

/// Re-executes the stored schedule of a scheduler violation twice (identical observations required) and judges it again.
/// 1 = reproduced, 0 = not reproduced, 2 = cannot be replayed this way.
fn replay_file(path: &str) -> i32 {
    let Ok(txt) = std::fs::read_to_string(path) else {
        say!("REPLAY: cannot read {path}");
        return 2;
    };
    let v: serde_json::Value = serde_json::from_str(&txt).unwrap_or(serde_json::Value::Null);
    let sig = v["signature"].as_str().unwrap_or("").to_string();
    let r = &v["replay"];
    let (Some(label), Some(sch)) = (r["scenario"].as_str(), r["schedule"].as_array()) else {
        say!("REPLAY: {sig}: this violation comes from a run of the real binary (signals, closed pipe, framing errors) or from the TLA+ binding; re-run ./check C17 to see it again (arguments: {})", r);
        return 2;
    };
    let found = [Tier::Quick, Tier::Thorough].into_iter().flat_map(|t| jobs(t).0).find(|j| j.label == label);
    let Some(j) = found else {
        say!("REPLAY: no scenario with the label {label:?}");
        return 2;
    };
    let prefix: Vec<usize> = sch.iter().filter_map(|x| x.as_u64().map(|n| n as usize)).collect();
    let cfg = scenario::config(&j.scn);
    let pol = Policy { prefix: prefix.clone(), max_steps: 30_000, yield_on_unbounded_send: false, cap_override: j.cap_override, descending: false };
    let (r1, o1) = scenario::run(&j.scn, cfg, pol.clone());
    let (r2, o2) = scenario::run(&j.scn, cfg, pol);
    if r1.steps != r2.steps || o1 != o2 {
        say!("REPLAY: the same schedule gave different observations twice (uncontrolled nondeterminism) - not a valid replay");
        return 2;
    }
    let mut tot = Tot { executions: 0, steps: 0, states: Default::default(), full_queue_seen: false, stop_observed_runs: 0, flag_judged: 0, flag_judged_clean: 0, fatal_reached: 0 };
    let full_caps: Vec<usize> = j.cap_override.into_iter().collect();
    let found = judge(&r1, &o1, &j.scn, j.expected_output.as_deref(), j.must_stop, j.fatal_at, &full_caps, &mut tot);
    say!("REPLAY: [{label}] schedule {:?}: {:?} after {} steps; {} problem(s)", prefix, r1.outcome, r1.steps.len(), found.len());
    for (s, d) in &found {
        say!("REPLAY:   {s}: {d}");
    }
    let _ = std::fs::remove_dir_all(scratch());
    if found.iter().any(|(s, _)| *s == sig) || (sig.is_empty() && !found.is_empty()) { 1 } else { 0 }
}

pub fn run(tier: Tier, replay: Option<String>, part: Option<usize>) -> i32 {
    if let Some(path) = replay {
        return replay_file(&path);
    }
    let mut rep = Reporter::new("C17", tier, "model_checking");
    let mut tot = Tot { executions: 0, steps: 0, states: Default::default(), full_queue_seen: false, stop_observed_runs: 0, flag_judged: 0, flag_judged_clean: 0, fatal_reached: 0 };
    // ---- 3. conformance first: it is what the rest rests on
    let depth = if tier.is_thorough() { 6 } else { 5 };
    let (nseq, dis) = if part.is_none() { conformance::run(depth) } else { (0, None) };
    if let Some(d) = dis {
        rep.machinery_error(format!("shim/real channel conformance failed: {d}"));
    }
    // the shim's own code under the scheduler (non-blocking and timed operations), one level shallower
    let (nseq_shim, dis_shim) = if part.is_none() { conformance::run_shim(depth - 1) } else { (0, None) };
    if let Some(d) = dis_shim {
        rep.machinery_error(format!("shim code / real channel conformance failed: {d}"));
    }
    // ---- 1. scheduler scenarios
    let bound = if tier.is_thorough() { 2 } else { 1 };
    let (jobs, total_errors) = jobs(tier);
    if total_errors < 4 {
        rep.machinery_error(format!("reference execution reports only {total_errors} errors"));
    }
    rep.cov("error_cap_scenarios_total_errors_in_stream", json!(total_errors));
    // the scenarios are explored by worker processes (one controlled execution at a time per process)
    if let Some(k) = part {
        let j = &jobs[k];
        explore_stop_x(&mut rep, &mut tot, &j.scn, j.cap_override, j.bound, &j.label, j.expected_output.as_deref(), j.must_stop, j.fatal_at);
        crate::parts::write_part(&rep.export_part(json!({"executions": tot.executions, "steps": tot.steps, "states": tot.states.iter().collect::<Vec<_>>(), "full_queue_seen": tot.full_queue_seen, "stop_observed_runs": tot.stop_observed_runs, "flag_judged": tot.flag_judged, "flag_judged_clean": tot.flag_judged_clean, "fatal_reached": tot.fatal_reached})));
        let _ = std::fs::remove_dir_all(scratch());
        return 0;
    }
    for (k, r) in crate::parts::run_parts("C17", tier, jobs.len()).into_iter().enumerate() {
        match r {
            Err(e) => rep.machinery_error(format!("{}: {e}", jobs[k].label)),
            Ok(v) => {
                let p = rep.import_part(&v);
                tot.executions += p["executions"].as_u64().unwrap_or(0);
                tot.steps += p["steps"].as_u64().unwrap_or(0);
                tot.states.extend(p["states"].as_array().map(|a| a.iter().filter_map(|x| x.as_u64()).collect::<Vec<_>>()).unwrap_or_default());
                tot.full_queue_seen |= p["full_queue_seen"].as_bool().unwrap_or(false);
                tot.stop_observed_runs += p["stop_observed_runs"].as_u64().unwrap_or(0);
                tot.flag_judged += p["flag_judged"].as_u64().unwrap_or(0);
                tot.flag_judged_clean += p["flag_judged_clean"].as_u64().unwrap_or(0);
                tot.fatal_reached += p["fatal_reached"].as_u64().unwrap_or(0);
            }
        }
    }
    rep.cov("scheduler_scenarios", json!(jobs.len()));
    if !tot.full_queue_seen {
        rep.machinery_error("no execution ever filled a bounded queue (vacuous small world)".into());
    }
    if tot.stop_observed_runs == 0 {
        rep.machinery_error("the stop flag was never set in any execution (vacuous)".into());
    }
    if tot.flag_judged_clean == 0 || tot.flag_judged == tot.flag_judged_clean {
        rep.machinery_error(format!("the any-errors flag was judged in {} executions, {} of them without a reported error (vacuous)", tot.flag_judged, tot.flag_judged_clean));
    }
    rep.cov("any_errors_flag_judged_executions", json!(tot.flag_judged));
    rep.cov("executions_in_which_the_reader_reached_the_damaged_rdh", json!(tot.fatal_reached));
    rep.cov("any_errors_flag_judged_with_nothing_reported", json!(tot.flag_judged_clean));
    // ---- 4. TLA+ model of the shutdown protocol: TLC over all interleavings + trace conformance with the code
    let mut tla_json = Vec::new();
    let mut tla_traces = 0u64;
    {
        use crate::tla::{self, Consts};
        let models = std::path::PathBuf::from("/verif/models");
        let work = scratch().join("tlc");
        let base = Consts { nv: 2, batches: 4, cap_d: 1, cap_v: 1, err_at: vec![], err_cap: 0, fatal_at: 0, with_signal: true };
        let mut verify: Vec<(String, Consts)> = vec![
            ("signal, caps 1/1".into(), base.clone()),
            ("error cap 2 with errors in batches 1-3, caps 1/1".into(), Consts { err_at: vec![1, 2, 3], err_cap: 2, with_signal: false, ..base.clone() }),
            ("fatal framing error at batch 3, caps 1/1".into(), Consts { fatal_at: 3, with_signal: false, ..base.clone() }),
        ];
        if tier.is_thorough() {
            for (cd, cv) in [(1usize, 2usize), (2, 1), (2, 2)] {
                verify.push((format!("signal, caps {cd}/{cv}"), Consts { cap_d: cd, cap_v: cv, ..base.clone() }));
            }
            verify.push(("signal + error cap 1 + fatal at 4, 3 validators, 5 batches".into(), Consts { nv: 3, batches: 5, err_at: vec![2, 3], err_cap: 1, fatal_at: 4, ..base.clone() }));
            verify.push(("error cap 1, caps 2/2, with signal".into(), Consts { cap_d: 2, cap_v: 2, err_at: vec![1, 4], err_cap: 1, ..base.clone() }));
        }
        for (label, c) in &verify {
            match tla::run_tlc(&models, &work, c, false) {
                Err(e) => rep.machinery_error(format!("TLC could not be run ({label}): {e}")),
                Ok(o) => {
                    tla_json.push(json!({"model_instance": label, "tlc_states_generated": o.states, "tlc_distinct_states": o.distinct, "no_error": o.ok}));
                    if !o.ok {
                        rep.violation(Violation { signature: "tla:model-property-violated".into(), description: format!("TLC reports an error for the shutdown model ({label}): {}", o.message), replay: json!({"constants": format!("{:?}", c)}) });
                    }
                }
            }
        }
        // conformance: implementation traces (all schedules within the bound) are paths of the model's state graph
        let caps: Vec<usize> = if tier.is_thorough() { vec![1, 2] } else { vec![1] };
        for cap in caps {
            let c = Consts { cap_d: cap, cap_v: cap, ..base.clone() };
            let g = match tla::run_tlc(&models, &work, &c, true) {
                Ok(o) if o.ok && o.graph.is_some() => o.graph.unwrap(),
                Ok(o) => {
                    rep.machinery_error(format!("TLC dump failed (caps {cap}): {}", o.message));
                    continue;
                }
                Err(e) => {
                    rep.machinery_error(format!("TLC dump failed (caps {cap}): {e}"));
                    continue;
                }
            };
            let (_, clean1) = streams::multi_link(2, 1, 0, false, false); // 2 links x (page + stop) = 4 packets
            let scn = Scn { mode: Mode::AllIts, mute: false, max_errors: 0, signal: true, cap: 1, input: Arc::new(clean1), scratch: scratch(), toml: false };
            let cfg = scenario::config(&scn);
            let basep = Policy { prefix: vec![], max_steps: 30_000, yield_on_unbounded_send: false, cap_override: Some(cap), descending: false };
            let mut covered_edges: std::collections::HashSet<(i64, String, i64)> = Default::default();
            let mut covered_states: std::collections::HashSet<i64> = Default::default();
            let mut failures: Vec<(Vec<usize>, String)> = Vec::new();
            let mut n = 0u64;
            let mut run = |prefix: &[usize]| scenario::run(&scn, cfg, policy_for(prefix, &basep)).0;
            let st = explore(bound, 2_000_000, &mut run, &mut |prefix, r| {
                n += 1;
                if r.outcome != Outcome::Completed {
                    return true; // judged by part 1
                }
                let labels = tla::project(&r.steps, &r.thread_names);
                match tla::walk(&g, &labels) {
                    Ok(used) => {
                        for e in used {
                            covered_states.insert(e.0);
                            covered_states.insert(e.2);
                            covered_edges.insert(e);
                        }
                    }
                    Err((i, l, allowed)) => {
                        if failures.len() < 3 {
                            failures.push((prefix.to_vec(), format!("step {i} of the projected trace is `{l}`, the model allows only {:?} there; trace {:?}", allowed, labels)));
                        }
                    }
                }
                true
            });
            tot.executions += st.executions;
            tot.steps += st.steps;
            tla_traces += n;
            for (p, d) in failures {
                rep.violation(Violation { signature: "tla:implementation-trace-not-in-model".into(), description: format!("{d} [queue capacity {cap}]"), replay: json!({"schedule": p, "cap": cap}) });
            }
            tla_json.push(json!({"conformance_instance": format!("signal, caps {cap}/{cap}, 4 batches of one packet, 2 links"), "model_states": g.n_states, "model_edges": g.n_edges, "implementation_traces_validated": n, "model_states_covered": covered_states.len(), "model_edges_covered": covered_edges.len()}));
            if covered_edges.len() < 10 {
                rep.machinery_error("trace conformance covered fewer than 10 model edges (vacuous)".into());
            }
        }
    }
    // ---- 2. stdout closed after N bytes
    let mut closure_total = 0u64;
    let mut closure_json = Vec::new();
    for (label, args, input, binary_out) in closure_cases(tier) {
        let (full, _s) = closure_run(&args, &input, None);
        let len = full.stdout.len();
        if full.crashed() {
            rep.violation(Violation { signature: format!("pipe:crash-without-closure:{label}"), description: format!("`{}` crashed even with an open stdout", args.join(" ")), replay: json!({"args": args}) });
            continue;
        }
        let _ = binary_out;
        // thorough: every N; quick: every N up to 1100 (line / 1 KiB buffer effects), then every 97th byte
        let ns: Vec<usize> = if label.starts_with("big:") { vec![0, 1, 4096, 65_536, 1 << 20, 3 << 20] } else { (0..=len).filter(|n| tier.is_thorough() || *n <= 200 || (1000..=1050).contains(n) || n % 211 == 0 || *n == len).collect() };
        let res = par_map(&ns, |_, n| {
            let (r, _s) = closure_run(&args, &input, Some(*n));
            let err = r.stderr_str();
            if r.timed_out {
                Some(("timeout".to_string(), "no exit within 10 s".to_string()))
            } else if let Some(sig) = r.signal {
                let site = err.lines().find(|l| l.contains("panicked at")).unwrap_or("").to_string();
                Some((format!("signal-{sig}"), site))
            } else if err.contains("panicked at") {
                Some(("panic-text".to_string(), err.lines().find(|l| l.contains("panicked at")).unwrap_or("").to_string()))
            } else {
                None
            }
        });
        let mut bad = 0;
        for (n, r) in ns.iter().zip(res.iter()) {
            closure_total += 1;
            if let Some((kind, site)) = r {
                bad += 1;
                rep.violation(Violation {
                    signature: format!("pipe:{kind}:{label}"),
                    description: format!("`fastpasta in.raw {}` with stdout closed after {n} of {len} bytes: {kind} {site}", args.join(" ")),
                    replay: json!({"args": args, "close_after": n, "input_hex": fp_model::util::hex(&input)}),
                });
            }
        }
        closure_json.push(json!({"output": label, "output_bytes": len, "closures": len + 1, "abnormal": bad}));
    }
    // ---- 2b. a fatal framing error in mid-stream on the real binary, in the modes that step over payloads by seeking
    //      (offset to the next RDH below the header size: 0, 1, 16, 63; too large: 10065, 0xFFFF)
    {
        let (_, clean) = streams::multi_link(2, 6, 0, false, false);
        let (walked, _) = stream::walk(&clean);
        let mut fcases: Vec<(Vec<u8>, Vec<String>, bool, String)> = Vec::new();
        let sv = |a: &[&str]| a.iter().map(|x| x.to_string()).collect::<Vec<_>>();
        for off in [0u16, 1, 16, 63, 10065, 0xFFFF] {
            for k in [1usize, walked.len() / 2, walked.len() - 1] {
                let mut b = clean.clone();
                let o = walked[k].offset as usize;
                b[o + 8..o + 10].copy_from_slice(&off.to_le_bytes());
                for (mi, m) in [sv(&["check", "sanity"]), sv(&["check", "all"]), sv(&["view", "rdh"]), sv(&["-f", "31", "-o", "out.raw"]), sv(&["check", "all", "its"])].into_iter().enumerate() {
                    fcases.push((b.clone(), m, (mi + k) % 2 == 0, format!("offset to next = {off} at packet {k}")));
                }
            }
        }
        let fres = par_map(&fcases, |_, (b, m, stdin, _)| {
            let scratch = Scratch::new("c17f");
            let mut a: Vec<String> = if *stdin { vec![] } else { vec![scratch.file("in.raw", b).display().to_string()] };
            a.extend(m.iter().cloned());
            let mut run = Run::new(&a).cwd(&scratch.path).timeout_s(10);
            if *stdin {
                run = run.stdin(b);
            }
            let r = run.run();
            if r.timed_out {
                Some(("timeout".to_string(), "no exit within 10 s".to_string()))
            } else if let Some(sig) = r.signal {
                Some((format!("signal-{sig}"), r.stderr_str().lines().find(|l| l.contains("panicked at")).unwrap_or("").to_string()))
            } else if r.stderr_str().contains("panicked at") {
                Some(("panic-text".to_string(), r.stderr_str().lines().find(|l| l.contains("panicked at")).unwrap_or("").to_string()))
            } else {
                None
            }
        });
        for ((b, m, stdin, label), r) in fcases.iter().zip(fres.iter()) {
            if let Some((kind, site)) = r {
                rep.violation(Violation { signature: format!("fatal-framing:{kind}"), description: format!("{label}, `{}` from {}: {kind} {site}", m.join(" "), if *stdin { "stdin" } else { "a file" }), replay: json!({"args": m, "stdin": stdin, "input_hex": fp_model::util::hex(b)}) });
            }
        }
        rep.cov("fatal_framing_cli_cases", json!(fcases.len()));
    }
    // ---- 5. real OS signals on the real binary
    let sig_json = real_signals(&mut rep);
    rep.cov("real_signal_cases", sig_json);
    rep.cov("states", json!(tot.states.len()));
    rep.cov("transitions", json!(tot.steps));
    rep.cov("traces_validated_against_impl", json!(tot.executions + closure_total));
    rep.cov("schedules_executed", json!(tot.executions));
    rep.cov("executions_in_which_stop_was_raised", json!(tot.stop_observed_runs));
    rep.cov("full_bounded_queue_reached", json!(tot.full_queue_seen));
    rep.cov("deviation_bound", json!(bound));
    rep.cov("stdout_closure", json!(closure_json));
    rep.cov("tla", json!(tla_json));
    rep.cov("tla_implementation_traces_walked_through_model_graph", json!(tla_traces));
    rep.cov("channel_conformance_sequences", json!(nseq));
    rep.cov("shim_code_conformance_sequences_under_the_scheduler", json!(nseq_shim));
    rep.cov("channel_conformance_depth", json!(depth));
    rep.sample(json!({"schedule": [0, 0, 0, 3], "meaning": "default choices, then the 4th enabled thread (e.g. Signal) at the 4th scheduling point"}));
    rep.assume("OS signal delivery and the ctrlc crate's thread are outside the scheduler: the handler body (store true into the stop flag) is modelled as an event placed at scheduling points; the real handler is exercised by an enumerated menu of real signals on the real binary (earlier stop cause x signal kind x one/two signals x delays), which is a menu, not all instants");
    rep.assume("real-time bounds are replaced by a step horizon (sched) and a 10 s wall-clock cap (CLI)");
    let code = rep.finish_with(|line| say!("{line}"));
    let _ = std::fs::remove_dir_all(scratch());
    code
}
