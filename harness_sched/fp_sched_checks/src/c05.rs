//! C05 — results do not depend on thread scheduling.
//!
//! (a) `sched`: the whole real pipeline (controller, reader, analysis/dispatcher, one validator per link, statistics
//!     forwarder) under the controlled scheduler, every schedule with at most d deviations from the default one
//!     (d = 1 quick, 2 thorough); every send on the statistics channel is a scheduling point. Invariant: the
//!     statistics file bytes, the any-errors flag and normal completion are identical over all schedules.
//! (b) arrival-order closure: every order-preserving merge of per-validator error sequences (shapes around the
//!     thresholds of the standard library's unstable sort) through a fresh real `StatsCollector`
//!     (collect -> finalize -> serialise), muted and unmuted, JSON and TOML: one distinct output.
//! (c) commutation of `StatsCollector::collect` over all ordered pairs of message kinds on representative states.
use crate::say;
use crate::scenario::{self, Mode, Scn};
use crate::streams;
use alice_protocol_reader::prelude::*;
use fastpasta::analyze::validators::link_validator::LinkValidator;
use fastpasta::config::prelude::MockConfig;
use fastpasta::stats::stats_collector::StatsCollector;
use fastpasta::stats::{StatType, SystemId};
use fp_harness::{Reporter, Tier, Violation};
use fp_model::grammar::PacketT;
use fp_sched::core::{Outcome, Policy};
use fp_sched::explore::{explore, policy_for};
use serde_json::json;
use std::collections::BTreeMap;
use std::sync::Arc;

fn scratch() -> std::path::PathBuf {
    let p = std::path::PathBuf::from(format!("/verif/target/scratch/sched-{}", std::process::id()));
    std::fs::create_dir_all(&p).unwrap();
    p
}

fn base_policy() -> Policy {
    Policy { prefix: vec![], max_steps: 20_000, yield_on_unbounded_send: true, cap_override: None, descending: false }
}

struct SchedOutcome {
    executions: u64,
    steps: u64,
    abstract_states: usize,
    distinct_outputs: usize,
    distinct_arrival_orders: usize,
    capped: bool,
}

/// Extra conditions of a scenario: queue capacities of the small world, the filtered output a writing run must produce.
#[derive(Clone, Default)]
struct Extra {
    cap_override: Option<usize>,
    expected_output: Option<Vec<u8>>,
    /// scenarios built on an input class with a recorded finding carry their own signature
    sig_tag: Option<&'static str>,
}

fn explore_scenario(rep: &mut Reporter, scn: &Scn, extra: &Extra, bound: usize, max_exec: u64, label: &str) -> SchedOutcome {
    let cfg = scenario::config(scn);
    let mut outputs: BTreeMap<(Option<Vec<u8>>, bool, Option<Vec<u8>>), Vec<usize>> = BTreeMap::new();
    let mut full_queue_seen = false;
    let mut arrival: std::collections::BTreeSet<Vec<usize>> = Default::default();
    let mut problems: Vec<(String, String, Vec<usize>)> = Vec::new();
    let mut executions = 0u64;
    let mut steps = 0u64;
    let mut capped = false;
    let mut abstract_states: std::collections::HashSet<u64> = Default::default();
    // two base schedules (default policy prefers the oldest / the youngest waiting thread); d deviations around each
    for descending in [false, true] {
    let base = Policy { descending, cap_override: extra.cap_override, ..base_policy() };
    // replay determinism: the default schedule twice
    let (r1, o1) = scenario::run(scn, cfg, base.clone());
    let (r2, o2) = scenario::run(scn, cfg, base.clone());
    if r1.steps != r2.steps || o1 != o2 {
        rep.machinery_error(format!("{label}: the same schedule gave different observations (uncontrolled nondeterminism)"));
    }
    let mut run = |prefix: &[usize]| {
        let (r, o) = scenario::run(scn, cfg, policy_for(prefix, &base));
        LAST.with(|l| *l.borrow_mut() = Some(o));
        r
    };
    let st = explore(bound, max_exec, &mut run, &mut |prefix, r| {
        let o = LAST.with(|l| l.borrow_mut().take()).unwrap();
        match &r.outcome {
            Outcome::Completed => {}
            Outcome::ReplayDiverged(m) => problems.push(("__machinery".into(), format!("replay diverged: {m}"), prefix.to_vec())),
            other => problems.push((format!("sched:abnormal-end:{}", match other { Outcome::Deadlock(_) => "deadlock", Outcome::Horizon => "horizon", _ => "?" }), format!("{:?}", other), prefix.to_vec())),
        }
        for (t, m) in &r.panics {
            problems.push((format!("sched:panic:{}", t.split(' ').next().unwrap_or(t)), format!("thread {t} panicked: {m}"), prefix.to_vec()));
        }
        if r.outcome == Outcome::Completed && !r.alive_at_main_exit.is_empty() {
            problems.push(("sched:main-ended-before-worker-threads".into(), format!("threads still running when the main thread ended (their results may be cut off): {:?}", r.alive_at_main_exit), prefix.to_vec()));
        }
        // arrival order at the statistics channel = sender ids of the channel with the most messages
        let mut per_chan: BTreeMap<usize, Vec<usize>> = BTreeMap::new();
        for (t, c) in &r.send_log {
            per_chan.entry(*c).or_default().push(*t);
        }
        if let Some((_, order)) = per_chan.into_iter().max_by_key(|(_, v)| v.len()) {
            arrival.insert(order);
        }
        if let Some(c) = extra.cap_override {
            full_queue_seen |= r.max_chan_len.values().any(|l| *l >= c);
        }
        if let Some(want) = &extra.expected_output {
            if o.output_file.as_ref() != Some(want) {
                problems.push(("sched:filtered-output-differs-from-the-matching-packets".into(), format!("the output file has {:?} bytes, the packets of the selected link make {} bytes", o.output_file.as_ref().map(|f| f.len()), want.len()), prefix.to_vec()));
            }
        }
        let e = outputs.entry((o.stats_file.clone(), o.any_errors, o.output_file.clone())).or_default();
        if e.is_empty() {
            *e = prefix.to_vec();
            if descending {
                e.insert(0, usize::MAX); // marks a schedule relative to the descending base schedule
            }
        }
        true
    });
    executions += st.executions;
    steps += st.steps;
    capped |= st.capped;
    abstract_states.extend(st.distinct_abstract_states.iter().copied());
    }
    for (sig, d, p) in problems {
        if sig == "__machinery" {
            rep.machinery_error(format!("{label}: {d}"));
        } else {
            rep.violation(Violation { signature: sig, description: format!("{d} [{label}]"), replay: json!({"scenario": label, "schedule": p}) });
        }
    }
    if outputs.len() > 1 {
        let mut it = outputs.iter();
        let a = it.next().unwrap();
        let b = it.next().unwrap();
        let diff = if a.0 .0 != b.0 .0 { first_diff_line(a.0 .0.as_deref().unwrap_or(b""), b.0 .0.as_deref().unwrap_or(b"")) } else { format!("filtered output files of {:?} vs {:?} bytes / any-errors flag {} vs {}", a.0 .2.as_ref().map(|f| f.len()), b.0 .2.as_ref().map(|f| f.len()), a.0 .1, b.0 .1) };
        rep.violation(Violation {
            signature: format!("sched:output-depends-on-schedule:{}{}", extra.sig_tag.map(|t| format!("{t}:")).unwrap_or_default(), if scn.mute { "muted" } else { "unmuted" }),
            description: format!("{} distinct outcomes (statistics file, any-errors flag, filtered output) over the explored schedules of [{label}]; first difference: {diff}", outputs.len()),
            replay: json!({"scenario": label, "schedule_a": a.1, "schedule_b": b.1}),
        });
    }
    if outputs.keys().any(|k| k.0.is_none()) {
        rep.machinery_error(format!("{label}: an execution wrote no statistics file"));
    }
    if extra.cap_override.is_some() && !full_queue_seen {
        rep.machinery_error(format!("{label}: no bounded queue was ever full (vacuous small world)"));
    }
    SchedOutcome { executions, steps, abstract_states: abstract_states.len(), distinct_outputs: outputs.len(), distinct_arrival_orders: arrival.len(), capped }
}

thread_local! {
    static LAST: std::cell::RefCell<Option<scenario::Obs>> = const { std::cell::RefCell::new(None) };
}

fn first_diff_line(a: &[u8], b: &[u8]) -> String {
    let sa = String::from_utf8_lossy(a);
    let sb = String::from_utf8_lossy(b);
    for (i, (x, y)) in sa.lines().zip(sb.lines()).enumerate() {
        if x != y {
            return format!("line {}: {:?} vs {:?}", i + 1, x.chars().take(90).collect::<String>(), y.chars().take(90).collect::<String>());
        }
    }
    format!("lengths {} vs {}", a.len(), b.len())
}

// ------------------------------------------------------------------ (b) arrival-order closure

fn mode_cfg(mute: bool) -> &'static MockConfig {
    let s = Scn { mode: Mode::AllIts, mute, max_errors: 0, signal: false, cap: 2, input: Arc::new(vec![]), scratch: scratch(), toml: false };
    scenario::config(&s)
}

/// Error sequence of one link validator for `n` faulty packets (2 errors per RDH at the same offset).
fn sender_sequence(link: u8, n_packets: usize, base_off: u64, mute: bool) -> Vec<StatType> {
    let (per_link, _) = streams::multi_link(link as usize + 1, (n_packets + 1) / 2, 1, true, false);
    let pk: &Vec<PacketT> = &per_link[link as usize];
    let (tx, rx) = flume::unbounded();
    let (mut lv, send) = LinkValidator::<RdhCru, MockConfig>::with_chan_capacity(mode_cfg(mute), tx, None);
    for (i, p) in pk.iter().take(n_packets).enumerate() {
        let rdh = RdhCru::load(&mut &p.packet.rdh.encode()[..]).unwrap();
        // offsets of different senders interleave: link l owns offsets base + (i * 16 + l) * 0x100
        send.send((rdh, p.packet.payload.clone(), base_off + ((i * 16 + link as usize) as u64) * 0x100)).unwrap();
    }
    drop(send);
    lv.run();
    drop(lv);
    rx.try_iter().filter(|m| matches!(m, StatType::Error(_))).collect()
}

fn collector_output(prelude: &[StatType], merged: &[&StatType], mute: bool, toml: bool) -> String {
    // with the ALPIDE statistics block (as in stave mode): AlpideStats messages need it
    let mut c = StatsCollector::with_alpide_stats();
    for m in prelude {
        c.collect(m.clone());
    }
    for m in merged {
        c.collect((*m).clone());
    }
    c.finalize(mute);
    if toml {
        toml_string(&c)
    } else {
        serde_json::to_string(&c).unwrap()
    }
}

fn toml_string(c: &StatsCollector) -> String {
    // the crate's own TOML writer is private; the JSON value carries the same field order
    serde_json::to_string_pretty(c).unwrap()
}

fn closure_shape(rep: &mut Reporter, lens_packets: &[usize], mute: bool) -> (u64, usize) {
    closure_shape_x(rep, lens_packets, mute, true)
}

/// `its`: the statistics announce an ITS run with its layers / staves; otherwise another detector (no stave data)
fn closure_shape_x(rep: &mut Reporter, lens_packets: &[usize], mute: bool, its: bool) -> (u64, usize) {
    let seqs: Vec<Vec<StatType>> = lens_packets.iter().enumerate().map(|(l, n)| sender_sequence(l as u8, *n, 0, mute)).collect();
    let lens: Vec<usize> = seqs.iter().map(|s| s.len()).collect();
    let prelude = if its { vec![StatType::SystemId(SystemId::ITS), StatType::RdhVersion(7), StatType::LayerStaveSeen { layer: 0, stave: 4 }, StatType::LayerStaveSeen { layer: 0, stave: 5 }, StatType::LayerStaveSeen { layer: 0, stave: 6 }] } else { vec![StatType::SystemId(SystemId::MFT), StatType::RdhVersion(7)] };
    let mut outs: BTreeMap<String, Vec<usize>> = BTreeMap::new();
    let mut n = 0u64;
    // enumerate merges without materialising them all
    fn rec(rem: &mut Vec<usize>, cur: &mut Vec<usize>, f: &mut dyn FnMut(&[usize])) {
        if rem.iter().all(|r| *r == 0) {
            f(cur);
            return;
        }
        for i in 0..rem.len() {
            if rem[i] > 0 {
                rem[i] -= 1;
                cur.push(i);
                rec(rem, cur, f);
                cur.pop();
                rem[i] += 1;
            }
        }
    }
    let mut f = |order: &[usize]| {
        let mut idx = vec![0usize; seqs.len()];
        let merged: Vec<&StatType> = order
            .iter()
            .map(|&s| {
                let m = &seqs[s][idx[s]];
                idx[s] += 1;
                m
            })
            .collect();
        let out = collector_output(&prelude, &merged, mute, false);
        n += 1;
        outs.entry(out).or_insert_with(|| order.to_vec());
    };
    rec(&mut lens.clone(), &mut Vec::new(), &mut f);
    if outs.len() > 1 {
        let mut it = outs.iter();
        let a = it.next().unwrap();
        let b = it.next().unwrap();
        rep.violation(Violation {
            signature: format!("closure:output-depends-on-arrival-order:{}{}", if mute { "muted" } else { "unmuted" }, if its { "" } else { ":not-its" }),
            description: format!("{} distinct serialised statistics over the {} order-preserving merges of sender sequences {:?} (errors per sender); e.g. {}", outs.len(), n, lens, first_diff_line(a.0.replace(',', ",\n").as_bytes(), b.0.replace(',', ",\n").as_bytes())),
            replay: json!({"shape_packets": lens_packets, "mute": mute, "its": its, "merge_a": a.1, "merge_b": b.1}),
        });
    }
    (n, outs.len())
}

// ------------------------------------------------------------------ (c) commutation

fn message_kinds() -> Vec<(&'static str, StatType)> {
    vec![
        ("RDHSeen", StatType::RDHSeen(3)),
        ("RDHFiltered", StatType::RDHFiltered(2)),
        ("PayloadSize", StatType::PayloadSize(100)),
        ("LinksObserved", StatType::LinksObserved(4)),
        ("LinksObserved'", StatType::LinksObserved(1)),
        ("RdhVersion", StatType::RdhVersion(7)),
        ("DataFormat", StatType::DataFormat(2)),
        ("HBFsSeen", StatType::HBFsSeen(2)),
        ("LayerStaveSeen", StatType::LayerStaveSeen { layer: 1, stave: 3 }),
        ("LayerStaveSeen'", StatType::LayerStaveSeen { layer: 0, stave: 9 }),
        ("FeeId", StatType::FeeId(0x1003)),
        ("FeeId'", StatType::FeeId(0x0009)),
        ("TriggerType", StatType::TriggerType(0x6A03)),
        ("TriggerType'", StatType::TriggerType(0x13)),
        ("SystemId", StatType::SystemId(SystemId::ITS)),
        ("RunTriggerType", StatType::RunTriggerType((0x6A03, "SOC".into()))),
        // ALPIDE statistics arrive from every validator (stave mode): two different values of every counter
        ("AlpideStats", StatType::AlpideStats(serde_json::from_value(json!({"readout_flags": {"chip_trailers_seen": 7, "busy_violations": 1, "data_overrun": 2, "transmission_in_fatal": 3, "flushed_incomplete": 4, "strobe_extended": 5, "busy_transitions": 6}})).expect("AlpideStats from JSON"))),
        ("AlpideStats'", StatType::AlpideStats(serde_json::from_value(json!({"readout_flags": {"chip_trailers_seen": 100, "busy_violations": 20, "data_overrun": 30, "transmission_in_fatal": 40, "flushed_incomplete": 50, "strobe_extended": 60, "busy_transitions": 70}})).expect("AlpideStats from JSON"))),
        ("Error", StatType::Error("0x100: [E10] a".into())),
        ("Error'", StatType::Error("0x40: [E11] b".into())),
    ]
}

fn commutation(rep: &mut Reporter) -> (u64, Vec<String>) {
    crate::QUIET.store(true, std::sync::atomic::Ordering::SeqCst);
    let kinds = message_kinds();
    let states: Vec<Vec<StatType>> = vec![
        vec![],
        vec![StatType::SystemId(SystemId::ITS), StatType::LinksObserved(2), StatType::FeeId(0x2002), StatType::LayerStaveSeen { layer: 2, stave: 2 }, StatType::Error("0x80: [E30] c".into())],
    ];
    let mut n = 0u64;
    let mut non_commuting = Vec::new();
    for st in &states {
        for (na, a) in &kinds {
            for (nb, b) in &kinds {
                if na == nb {
                    continue;
                }
                for mute in [false, true] {
                    // set-once statistics (system id, version, ...) panic when recorded twice: such pairs do not
                    // occur (one sender, once) and are skipped
                    let ab = std::panic::catch_unwind(|| collector_output(st, &[a, b], mute, false));
                    let ba = std::panic::catch_unwind(|| collector_output(st, &[b, a], mute, false));
                    let (Ok(ab), Ok(ba)) = (ab, ba) else { continue };
                    n += 1;
                    if ab != ba {
                        let pair = format!("{}/{}{}", na.trim_end_matches('\''), nb.trim_end_matches('\''), if mute { " (muted)" } else { "" });
                        if !non_commuting.contains(&pair) {
                            non_commuting.push(pair);
                        }
                    }
                }
            }
        }
    }
    crate::QUIET.store(false, std::sync::atomic::Ordering::SeqCst);
    // messages of one kind always come from one sender (links, FEE ids: forwarder; layer/staves, trigger types:
    // analysis thread) except errors: only Error/Error pairs of *different offsets* may depend on order before
    // the sort, and must not after it
    for p in &non_commuting {
        let same_sender_kinds = ["LinksObserved/LinksObserved", "FeeId/FeeId", "LayerStaveSeen/LayerStaveSeen", "TriggerType/TriggerType"];
        if !same_sender_kinds.iter().any(|k| p.starts_with(k)) {
            rep.violation(Violation {
                signature: format!("commutation:{}", p.replace(' ', "")),
                description: format!("StatsCollector::collect does not commute for message kinds {p}, which different threads send concurrently"),
                replay: json!({"pair": p}),
            });
        }
    }
    (n, non_commuting)
}

/// The scheduler scenarios of part (a).
fn scenarios(tier: Tier) -> Vec<(String, Scn, Extra)> {
    let mut scenarios: Vec<(String, Scn, Extra)> = Vec::new();
    for (mode, stave) in [(Mode::All, false), (Mode::AllIts, false), (Mode::AllStave, true)] {
        for mute in [false, true] {
            let (links, hbfs) = if tier.is_thorough() { (2, 1) } else { (2, 1) };
            let (mut per_link, mut bytes) = streams::multi_link(links, hbfs, 0, true, stave);
            if stave {
                // in stave mode every FEE also carries an ALPIDE frame error (a chip bunch counter that deviates):
                // messages that name their FEE id, from which the collector derives the list of staves with errors
                for pk in per_link.iter_mut() {
                    'f: for p in pk.iter_mut() {
                        if let Some(wi) = p.words.iter().position(|w| w.kind == fp_model::grammar::WKind::Data) {
                            let off = p.word_rel_offset(wi) as usize - 64;
                            p.packet.payload[off + 1] ^= 0x01;
                            break 'f;
                        }
                    }
                }
                bytes = fp_model::grammar::round_robin(&per_link).bytes();
            }
            scenarios.push((
                format!("{:?} mute={mute} {links} links x {hbfs} HBF, E10+E11 on every RDH, batch 2", mode),
                Scn { mode, mute, max_errors: 0, signal: false, cap: 2, input: Arc::new(bytes), scratch: scratch(), toml: false },
                Extra::default(),
            ));
        }
    }
    // three links, muted, check all its
    let (_, bytes3) = streams::multi_link(3, 1, 1, true, false);
    scenarios.push(("AllIts mute=false 3 links x 1 HBF, batch 3".into(), Scn { mode: Mode::AllIts, mute: false, max_errors: 0, signal: false, cap: 3, input: Arc::new(bytes3), scratch: scratch(), toml: true }, Extra::default()));
    // the reader's own message (E100, payload cut short by the end of input) competes with the validators' messages:
    // the last RDH carries E10 + E11 and its payload is cut by 8 bytes
    for mode in [Mode::AllIts, Mode::All] {
        let (_, mut bytes) = streams::multi_link(2, 1, 0, true, false);
        bytes.truncate(bytes.len() - 8);
        scenarios.push((format!("{:?} mute=false 2 links x 1 HBF, E10+E11 on every RDH, last payload cut by 8 bytes (reader reports E100), batch 2", mode), Scn { mode, mute: false, max_errors: 0, signal: false, cap: 2, input: Arc::new(bytes), scratch: scratch(), toml: false }, Extra::default()));
    }
    // a check combined with a filter and an output destination (the destination is ignored, no writer may take part)
    {
        let (_, bytes) = streams::multi_link(2, 2, 0, true, false);
        scenarios.push(("AllIts with --filter-link 0 and an (ignored) -o file, 2 links x 2 HBFs, E10+E11 on every RDH, batch 2".into(), Scn { mode: Mode::AllItsIgnoredOutput(0), mute: false, max_errors: 0, signal: false, cap: 2, input: Arc::new(bytes), scratch: scratch(), toml: false }, Extra::default()));
    }
    // a detector other than ITS (system id 36 in every RDH), `check all`: no layer / stave bookkeeping takes part
    {
        let (_, mut bytes) = streams::multi_link(2, 1, 0, true, false);
        let (walked, _) = fp_model::stream::walk(&bytes);
        for w in &walked {
            bytes[w.offset as usize + 5] = 36;
        }
        scenarios.push(("All mute=false 2 links x 1 HBF of system id 36 (not ITS), E10+E11 on every RDH, batch 2".into(), Scn { mode: Mode::All, mute: false, max_errors: 0, signal: false, cap: 2, input: Arc::new(bytes), scratch: scratch(), toml: false }, Extra::default()));
    }
    // a data-format-0 stream in which one filler byte of the first word slot is not zero (payload byte 10) in the first
    // packet of each link: the tool guesses the format from those bytes (known finding F13), cuts the payload into
    // 10-byte words and places them with the 16-byte stride of the RDH's format - the offsets run into the NEXT packet,
    // which belongs to the other link's validator: two threads report at the same offsets
    {
        let (mut per_link, _) = streams::multi_link_fmt(2, 1, 3, false, false, 0);
        for pk in per_link.iter_mut() {
            pk[0].packet.payload[10] = 0x01;
        }
        let bytes = fp_model::grammar::round_robin(&per_link).bytes();
        scenarios.push(("AllIts mute=false 2 links x 1 HBF in data format 0, filler byte 10 of the first payload of each link set to 1, batch 2".into(), Scn { mode: Mode::AllIts, mute: false, max_errors: 0, signal: false, cap: 2, input: Arc::new(bytes), scratch: scratch(), toml: false }, Extra { sig_tag: Some("format-0-payload-cut-as-format-2"), ..Extra::default() }));
    }
    // small worlds: every bounded queue holds one element, so that full queues (and whatever the code does about
    // them) take part; batches of 1 packet keep the reader ahead of the analysis
    for (mode, links, hbfs) in [(Mode::AllIts, 2usize, 2usize), (Mode::All, 3, 1)] {
        let (_, bytes) = streams::multi_link(links, hbfs, 0, true, false);
        scenarios.push((format!("{:?} mute=false {links} links x {hbfs} HBF, E10+E11 on every RDH, batch 1, every bounded queue of capacity 1", mode), Scn { mode, mute: false, max_errors: 0, signal: false, cap: 1, input: Arc::new(bytes), scratch: scratch(), toml: false }, Extra { cap_override: Some(1), expected_output: None, sig_tag: None }));
    }
    // filtered writing: the output file is part of the outcome and must hold exactly the selected link's packets
    for (link, cap_override) in [(0u8, None), (1u8, Some(1usize))] {
        let (per_link, bytes) = streams::multi_link(2, 2, 0, false, false);
        let want: Vec<u8> = per_link[link as usize].iter().flat_map(|p| p.packet.bytes()).collect();
        scenarios.push((format!("filtered writing --filter-link {link} -o file, 2 links x 2 HBFs, batch 1, queue capacity {:?}", cap_override), Scn { mode: Mode::Write(link), mute: false, max_errors: 0, signal: false, cap: 1, input: Arc::new(bytes), scratch: scratch(), toml: false }, Extra { cap_override, expected_output: Some(want), sig_tag: None }));
    }
    scenarios
}

fn set_process_config(mute: bool) {
    // the ALPIDE frame messages are formatted with the help of the process-wide configuration (mute option)
    use clap::Parser;
    let mut argv = vec!["fastpasta", "check", "all", "its-stave"];
    if mute {
        argv.insert(1, "-m");
    }
    let _ = fastpasta::config::CONFIG.set(fastpasta::config::Cfg::parse_from(argv));
}

/// Re-executes the schedule(s) of a stored violation without the explorer: each schedule twice (same observations),
/// then the stored condition is evaluated again. 1 = reproduced, 0 = not reproduced, 2 = cannot replay.
fn replay_file(path: &str) -> i32 {
    let Ok(txt) = std::fs::read_to_string(path) else {
        say!("REPLAY: cannot read {path}");
        return 2;
    };
    let v: serde_json::Value = serde_json::from_str(&txt).unwrap_or(serde_json::Value::Null);
    let sig = v["signature"].as_str().unwrap_or("").to_string();
    let r = &v["replay"];
    if let Some(shape) = r["shape_packets"].as_array() {
        let shape: Vec<usize> = shape.iter().filter_map(|x| x.as_u64().map(|n| n as usize)).collect();
        let mute = r["mute"].as_bool().unwrap_or(false);
        std::env::set_var("VERIF_REPLAY_SIG", &sig);
        let mut rep = Reporter::new("C05", Tier::Quick, "model_checking");
        let (n, distinct) = closure_shape_x(&mut rep, &shape, mute, r["its"].as_bool().unwrap_or(true));
        say!("REPLAY: {n} merges of shape {:?} (mute {mute}) give {distinct} distinct outputs", shape);
        return if distinct > 1 { 1 } else { 0 };
    }
    if r["pair"].is_string() {
        let mut rep = Reporter::new("C05", Tier::Quick, "model_checking");
        let (_, nc) = commutation(&mut rep);
        let hit = nc.iter().any(|p| Some(p.as_str()) == r["pair"].as_str());
        say!("REPLAY: message kinds {} {}", r["pair"], if hit { "do not commute" } else { "commute" });
        return if hit { 1 } else { 0 };
    }
    let label = r["scenario"].as_str().unwrap_or("");
    let found = [Tier::Quick, Tier::Thorough].into_iter().flat_map(scenarios).find(|(l, _, _)| l == label);
    let Some((label, scn, extra)) = found else {
        say!("REPLAY: no scenario with the label {label:?}");
        return 2;
    };
    set_process_config(scn.mute);
    let cfg = scenario::config(&scn);
    let schedules: Vec<Vec<usize>> = ["schedule", "schedule_a", "schedule_b"].iter().filter_map(|k| r[*k].as_array()).map(|a| a.iter().filter_map(|x| x.as_u64().map(|n| n as usize)).collect()).collect();
    if schedules.is_empty() {
        say!("REPLAY: the file holds no schedule");
        return 2;
    }
    let mut outcomes = Vec::new();
    let mut reproduced = false;
    for sch in &schedules {
        let descending = sch.first() == Some(&usize::MAX);
        let prefix: Vec<usize> = if descending { sch[1..].to_vec() } else { sch.clone() };
        let pol = Policy { prefix, descending, cap_override: extra.cap_override, ..base_policy() };
        let (r1, o1) = scenario::run(&scn, cfg, pol.clone());
        let (r2, o2) = scenario::run(&scn, cfg, pol);
        if r1.steps != r2.steps || o1 != o2 {
            say!("REPLAY: the same schedule gave different observations twice (uncontrolled nondeterminism) - not a valid replay");
            return 2;
        }
        let abnormal = r1.outcome != Outcome::Completed || !r1.panics.is_empty();
        let wrong_output = extra.expected_output.as_ref().map_or(false, |w| o1.output_file.as_ref() != Some(w));
        say!("REPLAY: [{label}] schedule {:?}{}: {:?}, {} steps, panics {:?}, statistics file {} bytes (fnv {:016x}), any-errors {}, output file {:?} bytes{}", if descending { &sch[1..] } else { &sch[..] }, if descending { " (descending base)" } else { "" }, r1.outcome, r1.steps.len(), r1.panics, o1.stats_file.as_ref().map_or(0, |f| f.len()), fp_model::util::fnv(o1.stats_file.as_deref().unwrap_or(b"")), o1.any_errors, o1.output_file.as_ref().map(|f| f.len()), if wrong_output { " - differs from the selected link's packets" } else { "" });
        reproduced |= abnormal || wrong_output;
        outcomes.push((o1.stats_file.clone(), o1.any_errors, o1.output_file.clone()));
    }
    if outcomes.len() == 2 && outcomes[0] != outcomes[1] {
        say!("REPLAY: the two schedules give different outcomes: {}", first_diff_line(outcomes[0].0.as_deref().unwrap_or(b""), outcomes[1].0.as_deref().unwrap_or(b"")));
        reproduced = true;
    }
    let _ = std::fs::remove_dir_all(scratch());
    if reproduced { 1 } else { 0 }
}

pub fn run(tier: Tier, replay: Option<String>, part: Option<usize>) -> i32 {
    if let Some(path) = replay {
        return replay_file(&path);
    }
    let mut rep = Reporter::new("C05", tier, "model_checking");
    let bound = if tier.is_thorough() { 2 } else { 1 };
    let mut total_exec = 0u64;
    let mut total_steps = 0u64;
    let mut abstract_states = 0usize;
    let mut arrival_orders = 0usize;
    let mut scen_json = Vec::new();
    // (a)
    let scenarios = scenarios(tier);
    let cap = if tier.is_thorough() { 400_000 } else { 6_000 };
    if let Some(k) = part {
        // worker process: one scenario
        let (label, scn, extra) = &scenarios[k];
        set_process_config(scn.mute);
        let so = explore_scenario(&mut rep, scn, extra, bound, cap, label);
        crate::parts::write_part(&rep.export_part(json!({"scenario": label, "executions": so.executions, "steps": so.steps, "abstract_states": so.abstract_states, "distinct_outputs": so.distinct_outputs, "distinct_arrival_orders": so.distinct_arrival_orders, "deviation_bound": bound, "capped": so.capped})));
        let _ = std::fs::remove_dir_all(scratch());
        return 0;
    }
    // the scenarios are explored by worker processes (the scheduler engine runs one controlled execution per process)
    for (k, r) in crate::parts::run_parts("C05", tier, scenarios.len()).into_iter().enumerate() {
        let label = &scenarios[k].0;
        match r {
            Err(e) => rep.machinery_error(format!("{label}: {e}")),
            Ok(v) => {
                let so = rep.import_part(&v);
                total_exec += so["executions"].as_u64().unwrap_or(0);
                total_steps += so["steps"].as_u64().unwrap_or(0);
                abstract_states += so["abstract_states"].as_u64().unwrap_or(0) as usize;
                arrival_orders += so["distinct_arrival_orders"].as_u64().unwrap_or(0) as usize;
                if so["distinct_arrival_orders"].as_u64().unwrap_or(0) < 2 && !label.starts_with("filtered writing") {
                    rep.machinery_error(format!("{label}: only one arrival order was produced (vacuous exploration)"));
                }
                scen_json.push(so);
            }
        }
    }
    // (b)
    let mut merges = 0u64;
    let mut shapes_json = Vec::new();
    let mut shapes: Vec<Vec<usize>> = Vec::new();
    for k in [1usize, 2, 5, 9, 10, 11, 15, 16, 17, 20, 24] {
        shapes.push(vec![k, 1]); // (2k, 2) errors
    }
    shapes.push(vec![8, 2]);
    shapes.push(vec![2, 2, 2]); // (4,4,4)
    if tier.is_thorough() {
        for k in [3usize, 4, 6, 7, 8, 12, 13, 14, 18, 19, 21, 22, 23] {
            shapes.push(vec![k, 1]);
        }
        shapes.extend([vec![10, 2], vec![16, 2], vec![17, 2], vec![15, 1, 1]]);
    }
    for sh in &shapes {
        for mute in [false, true] {
            let (n, distinct) = closure_shape(&mut rep, sh, mute);
            merges += n;
            shapes_json.push(json!({"packets_per_sender": sh, "mute": mute, "merges": n, "distinct_outputs": distinct}));
            // the same merges with the statistics of a detector other than ITS (small shapes)
            if sh.iter().sum::<usize>() <= 6 {
                let (n, distinct) = closure_shape_x(&mut rep, sh, mute, false);
                merges += n;
                shapes_json.push(json!({"packets_per_sender": sh, "mute": mute, "system": "MFT", "merges": n, "distinct_outputs": distinct}));
            }
        }
    }
    // (c)
    let (pairs, nc) = commutation(&mut rep);
    rep.cov("states", json!(abstract_states));
    rep.cov("transitions", json!(total_steps));
    rep.cov("traces_validated_against_impl", json!(total_exec + merges));
    rep.cov("schedules_executed", json!(total_exec));
    rep.cov("distinct_arrival_orders", json!(arrival_orders));
    rep.cov("deviation_bound", json!(bound));
    rep.cov("scenarios", json!(scen_json));
    rep.cov("merge_closure", json!(shapes_json));
    rep.cov("merges", json!(merges));
    rep.cov("commutation_pairs_checked", json!(pairs));
    rep.cov("order_dependent_pairs_same_sender_only", json!(nc));
    rep.sample(json!({"schedule": "list of indices into the canonical enabled set at each scheduling point; [] = default schedule; a leading 18446744073709551615 marks the descending base schedule", "example": [0, 0, 1]}));
    rep.cov("base_schedules", json!(["default policy prefers the running thread, then the oldest waiting thread", "... then the youngest waiting thread"]));
    rep.assume("one channel operation / flag access is one atomic step (crossbeam / flume operations are linearizable; shim semantics are bound to the real crates by the conformance run of C17)");
    rep.assume("complete only up to the stated deviation bound for the whole pipeline; the merge closure is complete for the listed shapes");
    let code = rep.finish_with(|line| say!("{line}"));
    let _ = std::fs::remove_dir_all(scratch());
    code
}
