//! Checks decided by the `sched` engine: `fp_sched_checks <ID> [--tier quick|thorough] [--replay file]`.
mod scenario;
mod c05;
mod c17;
mod conformance;
mod tla;
mod selftest;
mod streams;
mod parts;

use fp_harness::Tier;
use std::os::unix::io::FromRawFd;

/// The pipeline prints its report to stdout: park the real stdout on another descriptor for our own lines.
pub fn out() -> &'static std::sync::Mutex<std::fs::File> {
    static OUT: std::sync::OnceLock<std::sync::Mutex<std::fs::File>> = std::sync::OnceLock::new();
    OUT.get_or_init(|| unsafe {
        let saved = libc::dup(1);
        let devnull = libc::open(b"/dev/null\0".as_ptr() as *const libc::c_char, libc::O_WRONLY);
        libc::dup2(devnull, 1);
        if std::env::var("VERIF_SCHED_DEBUG").is_err() {
            libc::dup2(devnull, 2);
        }
        std::sync::Mutex::new(std::fs::File::from_raw_fd(saved))
    })
}

#[macro_export]
macro_rules! say {
    ($($arg:tt)*) => {{
        use std::io::Write;
        let mut f = $crate::out().lock().unwrap();
        let _ = writeln!(f, $($arg)*);
    }};
}

pub static QUIET: std::sync::atomic::AtomicBool = std::sync::atomic::AtomicBool::new(false);

fn main() {
    fp_harness::cli::ignore_sigpipe();
    let args: Vec<String> = std::env::args().collect();
    let id = args.get(1).map(|s| s.to_uppercase()).unwrap_or_default();
    let mut tier = match std::env::var("VERIF_TIER").as_deref() {
        Ok("thorough") => Tier::Thorough,
        _ => Tier::Quick,
    };
    let mut replay = None;
    let mut part: Option<usize> = None;
    let mut i = 2;
    while i < args.len() {
        match args[i].as_str() {
            "--tier" => {
                tier = if args.get(i + 1).map(|s| s.as_str()) == Some("thorough") { Tier::Thorough } else { Tier::Quick };
                i += 1;
            }
            "--replay" => {
                replay = args.get(i + 1).cloned();
                i += 1;
            }
            "--part" => {
                part = args.get(i + 1).and_then(|s| s.parse().ok());
                i += 1;
            }
            _ => {}
        }
        i += 1;
    }
    // quiet panic hook: panics of the code under test are recorded by the scheduler
    let _ = out();
    std::panic::set_hook(Box::new(|info| {
        // panics of the code under test (managed threads) are recorded by the scheduler; our own are printed
        if std::env::var("VERIF_SCHED_DEBUG").is_ok() {
            eprintln!("PANIC in {:?}: {info}\n{}", std::thread::current().name(), std::backtrace::Backtrace::force_capture());
        }
        if std::thread::current().name() == Some("main") && !QUIET.load(std::sync::atomic::Ordering::SeqCst) {
            say!("MACHINERY-ERROR: harness panic: {info}");
        }
    }));
    let code = match id.as_str() {
        "SELFTEST" => selftest::run(),
        "C05" => c05::run(tier, replay.clone(), part),
        "C17" => c17::run(tier, replay, part),
        _ => {
            say!("unknown property {id}");
            2
        }
    };
    std::process::exit(code);
}
