//! C04 — no input crashes or hangs the tool.
//!
//! Safety as reachability of a panic / abort / marker state:
//! 1. xs: arbitrary word sequences through a real `CdpRunningValidator` per mode (alphabet = every word class incl.
//!    identifiers just outside each valid range, stave-mode lane bytes from the ALPIDE byte classes, packet
//!    boundaries with RDH variants), key = full implementation fingerprint, BFS to the fixpoint or the depth bound.
//! 2. enum on the real CLI: every catalogue fault and every RDH field extreme at first / middle / last packet,
//!    pairs of faults on the smallest witness, every input of length 0..=8 over 4 byte values, x all command modes
//!    x option menu x {file, pipe}: exit status in {0, 1, configured}, no signal, no timeout.
use crate::c02::{self, witnesses};
use crate::faults::{self, Site};
use crate::val::{self, CfgKey, Mode};
use crate::xs::{self, StepOut, Sys, Viol};
use fastpasta::config::prelude::MockConfig;
use fp_harness::cli::{Run, Scratch};
use fp_harness::par::par_map;
use fp_harness::{Reporter, Tier, Violation};
use fp_model::alpide;
use fp_model::rdh::Rdh;
use fp_model::util::hex;
use fp_model::words;
use serde_json::json;

#[derive(Clone, Debug, PartialEq, Eq, Hash)]
pub enum Sym {
    W([u8; 10]),
    /// new packet: (stop bit, page counter, FEE id, data format)
    P(u8, u16, u16, u8),
}

fn lane_contents() -> Vec<[u8; 9]> {
    let mk = |b: &[u8]| {
        let mut d = [0u8; 9];
        d[..b.len()].copy_from_slice(b);
        d
    };
    vec![
        mk(&[]),                                       // nine zero bytes: padding only, no chip header
        mk(&[0xA0, 0x11, 0xB0]),                       // chip 0 header, bc, trailer
        mk(&[0xA1, 0x11, 0xC0, 0x40, 0x01, 0xB0]),     // chip 1 with region header + short hit
        mk(&[0xE0, 0x11]),                             // chip 0 empty frame
        mk(&[0xA0, 0x22, 0xB0]),                       // another bunch counter
        mk(&[0xA0, 0x11, 0xA0, 0x12, 0xB0]),           // bunch counter set twice for one chip
        mk(&[alpide::APE_STRIP_START, 0xA0, 0x11, 0xB0]),
        mk(&[alpide::APE_DET_TIMEOUT]),                // fatal APE
        mk(&[0xA0, 0x11, alpide::APE_FSM_ERROR]),      // fatal APE inside a chip frame
        [0xFF; 9],
        mk(&[0xB0]),                                   // trailer without header
        mk(&[0xF0, 0xF1, 0xA0, 0x11, 0x00, 0x00, 0x00, 0xB0]), // busy words, long hit of zeros
    ]
}

fn alphabet(stave: bool, tier: Tier) -> Vec<Sym> {
    let mut v = Vec::new();
    v.push(Sym::W(words::ihw(0x0FFF_FFFF)));
    v.push(Sym::W(words::ihw(0)));
    for nd in [false, true] {
        for cont in [false, true] {
            v.push(Sym::W(words::Tdh { trigger_type: 3, internal: true, no_data: nd, continuation: cont, bc: 5, orbit: 9 }.encode()));
        }
    }
    v.push(Sym::W(words::Tdt::done(false)));
    v.push(Sym::W(words::Tdt::done(true)));
    v.push(Sym::W(words::Ddw0::default().encode()));
    v.push(Sym::W(words::cdw(7, 0)));
    v.push(Sym::W(words::cdw(8, 1)));
    let ids: Vec<u8> = if stave {
        vec![0x20, 0x21, 0x22, 0x28, 0x29, 0x3F, 0x40, 0x46, 0x47, 0x5E, 0x5F, 0x60, 0x00, 0xFF]
    } else {
        vec![0x20, 0x28, 0x29, 0x3F, 0x40, 0x47, 0x5F, 0x60, 0x00, 0xFF]
    };
    let contents: Vec<[u8; 9]> = if stave { lane_contents() } else { vec![[0x11; 9]] };
    for id in &ids {
        for (ci, c) in contents.iter().enumerate() {
            // stave mode: full content menu for the three most used lanes, a reduced one for the other ids
            if stave && !matches!(*id, 0x20 | 0x21 | 0x40) && !matches!(ci, 0 | 1 | 7) {
                continue;
            }
            if stave && !tier.is_thorough() && (ci > 8 || (!matches!(*id, 0x20 | 0x40) && ci != 1 && !(ci == 7 && matches!(*id, 0x21 | 0x29 | 0x3F | 0x47))) || matches!(*id, 0x28 | 0x46 | 0x5E | 0x60)) {
                continue;
            }
            v.push(Sym::W(words::data_word(*id, *c)));
        }
    }
    // packet boundaries
    for (stop, page) in [(0u8, 0u16), (0, 1), (1, 1), (1, 0)] {
        for fee in [Rdh::its_fee_id(0, 1, 0), Rdh::its_fee_id(3, 1, 0), Rdh::its_fee_id(5, 1, 0), Rdh::its_fee_id(7, 1, 0)] {
            for fmt in [2u8, 0, 3, 255] {
                if (fmt != 2 && (stop, page) != (0, 0)) || (fee != Rdh::its_fee_id(0, 1, 0) && fmt != 2) {
                    continue;
                }
                v.push(Sym::P(stop, page, fee, fmt));
            }
        }
    }
    v
}

struct WordProduct {
    cfg: &'static MockConfig,
    alphabet: Vec<Sym>,
    first_fee: u16,
    /// the search starts from the state reached by this history (non-initial start states)
    prefix: Vec<Sym>,
}

fn rdh_of(stop: u8, page: u16, fee: u16, fmt: u8) -> Rdh {
    let mut r = Rdh::base();
    r.stop_bit = stop;
    r.pages_counter = page;
    r.fee_id = fee;
    r.data_format = fmt;
    r
}

impl Sys for WordProduct {
    type Sym = Sym;
    type Key = Vec<u8>;
    type Obs = usize;

    fn enabled(&self, _hist: &[Sym]) -> Vec<Sym> {
        self.alphabet.clone()
    }
    fn initial_key(&self) -> Vec<u8> {
        vec![0xEE]
    }
    fn run(&self, hist: &[Sym]) -> Result<StepOut<Vec<u8>, usize>, Viol> {
        let full: Vec<Sym> = self.prefix.iter().chain(hist.iter()).cloned().collect();
        let mk = |p: String| Viol { signature: format!("panic:{}", val::panic_site(&p)), description: format!("{p} after the word/packet sequence {}", describe(&full)) };
        let mut st = val::CdpStepper::new(self.cfg);
        // offsets start with a hexadecimal letter: every message must survive the collector's offset parser
        let mut pos = 0xA_0000u64;
        st.set_rdh(&rdh_of(0, 0, self.first_fee, 2).encode(), pos).map_err(mk)?;
        let mut nmsg = 0;
        let mut all_msgs: Vec<fastpasta::stats::StatType> = Vec::new();
        for s in self.prefix.iter().chain(hist.iter()) {
            match s {
                Sym::W(w) => {
                    let m = st.word(w).map_err(mk)?;
                    nmsg = m.len();
                    all_msgs.extend(m);
                }
                Sym::P(stop, page, fee, fmt) => {
                    pos += 0x1000;
                    st.set_rdh(&rdh_of(*stop, *page, *fee, *fmt).encode(), pos).map_err(mk)?;
                    nmsg = 0;
                }
            }
        }
        let fp = val::guarded(|| st.v.verif_fingerprint()).map_err(mk)?;
        // what the statistics thread does with these messages: collect, finalize (sort by offset, extract codes)
        if !all_msgs.is_empty() {
            val::guarded(|| {
                let mut c = fastpasta::stats::stats_collector::StatsCollector::with_alpide_stats();
                c.collect(fastpasta::stats::StatType::SystemId(fastpasta::stats::SystemId::ITS));
                // the analysis thread reports the layer/stave of every RDH before the packet reaches a validator
                c.collect(fastpasta::stats::StatType::LayerStaveSeen { layer: ((self.first_fee >> 12) & 7) as u8, stave: (self.first_fee & 0x3F) as u8 });
                for s in &full {
                    if let Sym::P(_, _, fee, _) = s {
                        c.collect(fastpasta::stats::StatType::LayerStaveSeen { layer: ((fee >> 12) & 7) as u8, stave: (fee & 0x3F) as u8 });
                    }
                }
                for m in all_msgs {
                    c.collect(m);
                }
                c.finalize(false);
            })
            .map_err(|p| Viol { signature: format!("panic:collector:{}", val::panic_site(&p)), description: format!("the statistics collector panicked on the messages of the sequence {}: {p}", describe(&full)) })?;
        }
        Ok(StepOut { key: fp, obs: nmsg })
    }
}

fn describe(h: &[Sym]) -> String {
    h.iter()
        .map(|s| match s {
            Sym::W(w) => hex(w),
            Sym::P(st, pg, fee, fmt) => format!("RDH(stop={st},page={pg},fee={fee:#x},fmt={fmt})"),
        })
        .collect::<Vec<_>>()
        .join(" ")
}

// ------------------------------------------------------------------------------------------ CLI tier

fn command_modes() -> Vec<Vec<&'static str>> {
    vec![
        vec!["check", "sanity"],
        vec!["check", "sanity", "its"],
        vec!["check", "all"],
        vec!["check", "all", "its"],
        vec!["check", "all", "its-stave"],
        vec!["view", "rdh"],
        vec!["view", "its-readout-frames"],
        vec!["view", "its-readout-frames-data"],
        vec!["-f", "0", "-o", "out.raw"],
    ]
}

fn option_menu(tier: Tier) -> Vec<Vec<&'static str>> {
    let mut v = vec![vec![], vec!["-m"], vec!["-E", "9"], vec!["-e", "1"]];
    if tier.is_thorough() {
        v.extend([vec!["--filter-link", "0"], vec!["--filter-its-stave", "L0_3"], vec!["-d"], vec!["-e", "3", "-m", "-E", "200"], vec!["--filter-fee", "3"]]);
    }
    v
}

fn cli_case(bytes: &[u8], mode: &[&str], opts: &[&str], stdin: bool, label: &str) -> Option<(String, String)> {
    // options that clash with the mode (e.g. a second filter with the writer mode) are skipped by the caller
    let scratch = Scratch::new("c04");
    let mut a: Vec<String> = Vec::new();
    if !stdin {
        a.push(scratch.file("in.raw", bytes).display().to_string());
    }
    a.extend(opts.iter().map(|s| s.to_string()));
    a.extend(mode.iter().map(|s| s.to_string()));
    let mut run = Run::new(&a).cwd(&scratch.path).timeout_s(10);
    if stdin {
        run = run.stdin(bytes);
    }
    let r = run.run();
    let configured: Option<i32> = opts.iter().position(|o| *o == "-E").map(|i| opts[i + 1].parse().unwrap());
    let err = r.stderr_str();
    let site = || {
        let line = err.lines().find(|l| l.contains("panicked at")).unwrap_or("");
        // "thread 'x' panicked at /repo/fastpasta/src/words/its.rs:94:18:" -> its.rs:94
        line.split("panicked at ").nth(1).map(|s| {
            let p = s.trim().trim_end_matches(':');
            let mut parts = p.rsplitn(3, ':');
            let _col = parts.next();
            let line = parts.next().unwrap_or("");
            let file = parts.next().unwrap_or("").rsplit('/').next().unwrap_or("");
            format!("{file}:{line}")
        })
        .unwrap_or_else(|| "unknown".into())
    };
    if r.timed_out {
        return Some(("hang".into(), format!("no exit within 10 s: `{}` [{label}]", a[if stdin { 0 } else { 1 }..].join(" "))));
    }
    if let Some(sig) = r.signal {
        return Some((format!("panic:{}", site()), format!("terminated by signal {sig}: `{}` [{label}] {}", a[if stdin { 0 } else { 1 }..].join(" "), err.lines().find(|l| l.contains("panicked at")).unwrap_or(""))));
    }
    match r.status {
        Some(0) | Some(1) => None,
        Some(c) if Some(c) == configured => None,
        Some(2) if err.contains("error:") || err.contains("Usage") => None, // argument parser rejection
        other => Some(("exit-status".into(), format!("exit status {:?} for `{}` [{label}]", other, a.join(" ")))),
    }
}

pub fn run(tier: Tier) -> i32 {
    val::init_process();
    let mut rep = Reporter::new("C04", tier, "model_checking");
    // ---- 1. word-sequence reachability
    let mut states = 0u64;
    let mut transitions = 0u64;
    let mut cfgs = Vec::new();
    let dw = |id: u8, c: usize| Sym::W(words::data_word(id, lane_contents()[c]));
    let ihw = Sym::W(words::ihw(0x0FFF_FFFF));
    let tdh = Sym::W(words::Tdh { trigger_type: 3, internal: true, no_data: false, continuation: false, bc: 5, orbit: 9 }.encode());
    let tdt = Sym::W(words::Tdt::done(true));
    // start states: initial; frame open; frame open with three good lanes; a processed good frame; a processed frame
    // in which lane 0 announced a fatal state
    let stave_prefixes: Vec<Vec<Sym>> = vec![
        vec![],
        vec![ihw.clone(), tdh.clone()],
        vec![ihw.clone(), tdh.clone(), dw(0x20, 1), dw(0x21, 2), dw(0x22, 1)],
        vec![ihw.clone(), tdh.clone(), dw(0x20, 1), dw(0x21, 2), dw(0x22, 1), tdt.clone()],
        vec![ihw.clone(), tdh.clone(), dw(0x20, 7), dw(0x21, 2), dw(0x22, 1), tdt.clone()],
    ];
    let mut plans: Vec<(Mode, bool, usize, u16, Vec<Sym>)> = Vec::new();
    let d_plain = if tier.is_thorough() { 6 } else { 5 };
    plans.push((Mode::SanityIts, false, d_plain, Rdh::its_fee_id(0, 1, 0), vec![]));
    plans.push((Mode::AllIts, false, d_plain, Rdh::its_fee_id(0, 1, 0), vec![]));
    for (pi, p) in stave_prefixes.iter().enumerate() {
        for fee in [Rdh::its_fee_id(0, 1, 0), Rdh::its_fee_id(5, 1, 0)] {
            if fee != Rdh::its_fee_id(0, 1, 0) && pi > 1 {
                continue; // the lane prefixes are inner-barrel lanes
            }
            plans.push((Mode::AllStave, true, if tier.is_thorough() { 4 } else { 3 }, fee, p.clone()));
        }
    }
    for (mode, stave, depth, first_fee, prefix) in plans {
        {
            let sys = WordProduct { cfg: val::cfg(&CfgKey { mode: Some(mode), ..Default::default() }), alphabet: alphabet(stave, tier), first_fee, prefix: prefix.clone() };
            let cap = if tier.is_thorough() { 300_000 } else { 400_000 };
            let xr = xs::bfs(&sys, depth, cap, false);
            states += xr.states;
            transitions += xr.transitions;
            cfgs.push(json!({"mode": mode.name(), "first_fee": first_fee, "start_state_prefix_len": prefix.len(), "alphabet": sys.alphabet.len(), "states": xr.states, "transitions": xr.transitions, "depth_completed": xr.depth, "fixpoint": xr.fixpoint}));
            for (h, v) in &xr.violations {
                rep.violation(Violation { signature: v.signature.clone(), description: format!("{} [{}]", v.description, mode.name()), replay: json!({"kind": "words", "mode": mode.name(), "first_fee": first_fee, "sequence": describe(h)}) });
            }
        }
    }
    // ---- 2. CLI enumeration
    let ws = witnesses();
    let cat = faults::catalogue();
    let mut inputs: Vec<(String, Vec<u8>)> = Vec::new();
    for w in ws.iter().filter(|w| if tier.is_thorough() { matches!(w.name, "ib-fmt2" | "ib-fmt2-frames" | "ml+ib-interleaved") } else { w.name == "ib-fmt2-frames" }) {
        for f in &cat {
            let all = c02::sites(w, f);
            if all.is_empty() {
                continue;
            }
            let chosen: Vec<_> = if tier.is_thorough() { vec![all[0], all[all.len() / 2], all[all.len() - 1]] } else { vec![all[all.len() / 2]] };
            for s in chosen {
                let m = c02::mutate(w, f, s);
                inputs.push((format!("{} / {}", w.name, m.desc), m.packets.iter().flat_map(|(_, p)| p.packet.bytes()).collect()));
            }
        }
    }
    // RDH framing extremes (offset to next / memory size / version / system id) at first / middle / last packet
    {
        let w = &ws[0];
        let clean: Vec<(u64, fp_model::grammar::PacketT)> = fp_model::grammar::interleave(&w.links, &w.order).packets;
        let n = clean.len();
        type Mut = (&'static str, fn(&mut Rdh));
        let muts: Vec<Mut> = vec![
            ("offset_next=0", |r| r.offset_next = 0),
            ("offset_next=63", |r| r.offset_next = 63),
            ("offset_next=65", |r| r.offset_next = 65),
            ("offset_next=10064", |r| r.offset_next = 10064),
            ("offset_next=10065", |r| r.offset_next = 10065),
            ("offset_next=0xFFFF", |r| r.offset_next = 0xFFFF),
            ("memory_size=0", |r| r.memory_size = 0),
            ("memory_size=63", |r| r.memory_size = 63),
            ("memory_size=64", |r| r.memory_size = 64),
            ("memory_size=0xFFFF", |r| r.memory_size = 0xFFFF),
            ("memory_size=offset+16", |r| r.memory_size = r.offset_next + 16),
            ("header_id=0", |r| r.header_id = 0),
            ("header_id=2", |r| r.header_id = 2),
            ("header_id=100", |r| r.header_id = 100),
            ("header_id=101", |r| r.header_id = 101),
            ("header_id=255", |r| r.header_id = 255),
            ("system_id=0", |r| r.system_id = 0),
            ("system_id=3 (TPC)", |r| r.system_id = 3),
            ("system_id=255", |r| r.system_id = 255),
            ("link_id=255", |r| r.link_id = 255),
            ("fee_id=0xFFFF", |r| r.fee_id = 0xFFFF),
            ("pages_counter=0xFFFF", |r| r.pages_counter = 0xFFFF),
        ];
        for (name, f) in &muts {
            for pos in [0usize, n / 2, n - 1] {
                let mut pk = clean.clone();
                f(&mut pk[pos].1.packet.rdh);
                inputs.push((format!("{name} at packet {pos}"), pk.iter().flat_map(|(_, p)| p.packet.bytes()).collect()));
            }
        }
        // pairs of catalogue faults on the smallest witness (first site each)
        let small = &ws[0];
        let firsts: Vec<(usize, (usize, usize, Option<usize>))> = cat.iter().enumerate().filter_map(|(i, f)| c02::sites(small, f).into_iter().nth(1).or_else(|| c02::sites(small, f).into_iter().next()).map(|s| (i, s))).collect();
        for (ai, (fa, sa)) in firsts.iter().enumerate() {
            for (fb, sb) in firsts.iter().skip(ai + 1) {
                if !tier.is_thorough() && (fa + fb) % 7 != 0 {
                    continue;
                }
                // apply b on top of a by mutating the bytes of a's result at b's site when both are RDH faults; otherwise
                // rebuild: mutate(a) then re-walk is not possible symbolically, so pairs are restricted to RDH x any
                if let (Site::Rdh { apply, .. }, _) = (&cat[*fa].site, &cat[*fb].site) {
                    let m = c02::mutate(small, &cat[*fb], *sb);
                    let mut pk = m.packets.clone();
                    // locate packet of site a in file order
                    let mut seen = vec![0usize; small.links.len()];
                    for (k, &l) in small.order.iter().enumerate() {
                        if l == sa.0 && seen[l] == sa.1 {
                            apply(&mut pk[k].1.packet.rdh);
                        }
                        seen[l] += 1;
                    }
                    inputs.push((format!("pair {} + {}", cat[*fa].name, cat[*fb].name), pk.iter().flat_map(|(_, p)| p.packet.bytes()).collect()));
                }
            }
        }
    }
    // well-framed packets with every small payload size 1..=40 bytes (not a multiple of a word or slot), two contents
    {
        let w = &ws[0];
        let clean: Vec<(u64, fp_model::grammar::PacketT)> = fp_model::grammar::interleave(&w.links, &w.order).packets;
        for k in 1..=40usize {
            for fill in [0x00u8, 0xE0] {
                let mut pk: Vec<fp_model::stream::Packet> = clean.iter().take(3).map(|(_, p)| p.packet.clone()).collect();
                let mut payload = vec![fill; k];
                if k >= 10 {
                    payload[9] = 0xE0; // looks like an IHW
                }
                pk[1] = fp_model::stream::Packet::framed(pk[1].rdh.clone(), payload);
                inputs.push((format!("memory_size = offset = 64 + {k} (payload of {k} bytes of {fill:#04x})"), pk.iter().flat_map(|p| p.bytes()).collect()));
            }
        }
    }
    // every input of length 0..=8 over {0x00, 0x07, 0x40, 0xFF} (thorough: all; quick: lengths 0..=4 + constant runs)
    let vals = [0x00u8, 0x07, 0x40, 0xFF];
    let maxlen = if tier.is_thorough() { 8 } else { 3 };
    for len in 0..=maxlen {
        let total = 4usize.pow(len as u32);
        for code in 0..total {
            let mut b = Vec::new();
            let mut c = code;
            for _ in 0..len {
                b.push(vals[c % 4]);
                c /= 4;
            }
            if len > 5 && code % 37 != 0 {
                continue;
            }
            inputs.push((format!("short input {}", hex(&b)), b));
        }
    }
    for len in 5..=70usize {
        inputs.push((format!("short input {} x 0x07", len), vec![7u8; len]));
    }
    let modes = command_modes();
    let opts = option_menu(tier);
    let mut jobs: Vec<(usize, usize, usize, bool)> = Vec::new();
    for (ii, (label, _)) in inputs.iter().enumerate() {
        for (mi, m) in modes.iter().enumerate() {
            for (oi, o) in opts.iter().enumerate() {
                // the option menu is crossed fully with the fault inputs of the first witness only; others get the
                // plain invocation and one option set in rotation
                let short = label.starts_with("short input");
                // quick: fault inputs get 3 of the 9 command modes in rotation, framing extremes and short inputs all
                let crashy = short || label.contains("_next=") || label.contains("memory_size") || label.contains("header_id") || label.contains("system_id");
                if !tier.is_thorough() && !crashy && (ii + mi) % 3 != 0 {
                    continue;
                }
                if !tier.is_thorough() && oi != 0 && !crashy {
                    continue;
                }
                if oi != 0 && oi != 1 + (ii + mi) % (opts.len() - 1) && !(tier.is_thorough() && ii % 5 == 0) {
                    continue;
                }
                if m[0] == "-f" && o.iter().any(|x| x.starts_with("--filter")) {
                    continue;
                }
                for stdin in [false, true] {
                    if stdin && !short && (ii + mi) % 3 != 0 && !tier.is_thorough() {
                        continue;
                    }
                    jobs.push((ii, mi, oi, stdin));
                }
            }
        }
    }
    let res = par_map(&jobs, |_, (ii, mi, oi, stdin)| cli_case(&inputs[*ii].1, &modes[*mi], &opts[*oi], *stdin, &inputs[*ii].0));
    for ((ii, mi, oi, stdin), r) in jobs.iter().zip(res.iter()) {
        if let Some((sig, d)) = r {
            rep.violation(Violation {
                signature: sig.clone(),
                description: d.clone(),
                replay: json!({"kind": "cli", "args_mode": modes[*mi], "args_opts": opts[*oi], "stdin": stdin, "input_hex": hex(&inputs[*ii].1)}),
            });
        }
    }
    // ---- 2b. framing extremes on packets that an input filter steps over: two links stored one after the other
    //      (so that non-matching packets follow each other), the damaged packet in the middle of the first link, the
    //      filter selecting the second link / an absent link / the second link's FEE id or stave
    let mut skip_jobs = 0u64;
    {
        let w = ws.iter().find(|w| w.name == "ml+ib-interleaved").expect("two-link witness");
        let a: Vec<fp_model::grammar::PacketT> = w.links[0].clone();
        let b: Vec<fp_model::grammar::PacketT> = w.links[1].clone();
        let lb = b[0].packet.rdh.link_id.to_string();
        let fb = b[0].packet.rdh.fee_id;
        let filters: Vec<Vec<String>> = vec![
            vec!["--filter-link".into(), lb.clone()],
            vec!["--filter-link".into(), "31".into()],
            vec!["--filter-fee".into(), fb.to_string()],
            vec!["--filter-its-stave".into(), format!("L{}_{}", (fb >> 12) & 7, fb & 0x3F)],
        ];
        type Mut = (&'static str, fn(&mut Rdh));
        let muts: Vec<Mut> = vec![
            ("offset_next=0", |r| r.offset_next = 0),
            ("offset_next=16", |r| r.offset_next = 16),
            ("offset_next=63", |r| r.offset_next = 63),
            ("offset_next=65", |r| r.offset_next = 65),
            ("offset_next=10065", |r| r.offset_next = 10065),
            ("offset_next=0xFFFF", |r| r.offset_next = 0xFFFF),
            ("memory_size=0", |r| r.memory_size = 0),
            ("header_id=0", |r| r.header_id = 0),
            ("system_id=0", |r| r.system_id = 0),
        ];
        let skip_modes: Vec<Vec<&'static str>> = vec![vec!["check", "sanity"], vec!["check", "all", "its"], vec!["view", "rdh"], vec!["view", "its-readout-frames"], vec!["-o", "out.raw"]];
        let mut sj: Vec<(Vec<u8>, Vec<&'static str>, Vec<String>, bool, String)> = Vec::new();
        for (name, f) in &muts {
            for pos in [1usize, a.len() / 2, a.len() - 1] {
                let mut pa = a.clone();
                f(&mut pa[pos].packet.rdh);
                let bytes: Vec<u8> = pa.iter().chain(b.iter()).flat_map(|p| p.packet.bytes()).collect();
                for (mi, m) in skip_modes.iter().enumerate() {
                    for (fi, fl) in filters.iter().enumerate() {
                        if !tier.is_thorough() && (mi + fi + pos) % 2 == 1 {
                            continue;
                        }
                        sj.push((bytes.clone(), m.clone(), fl.clone(), (mi + fi) % 3 == 0, format!("{name} at packet {pos} of the first link, filter {:?}", fl)));
                    }
                }
            }
        }
        let res = par_map(&sj, |_, (bytes, m, fl, stdin, label)| {
            let o: Vec<&str> = fl.iter().map(|x| x.as_str()).collect();
            cli_case(bytes, m, &o, *stdin, label)
        });
        for ((bytes, m, fl, stdin, _), r) in sj.iter().zip(res.iter()) {
            skip_jobs += 1;
            if let Some((sig, d)) = r {
                rep.violation(Violation { signature: format!("{sig}:stepped-over-packet"), description: d.clone(), replay: json!({"kind": "cli", "args_mode": m, "args_opts": fl, "stdin": stdin, "input_hex": hex(bytes)}) });
            }
        }
    }
    rep.cov("cli_runs_with_damaged_stepped_over_packets", json!(skip_jobs));
    // ---- resources under the control of the input: in stave mode one validator thread (with a pre-allocated queue)
    //      is created per distinct FEE ID. 1344 individually valid FEE IDs (84 KiB of header-only packets) under an
    //      address-space limit of 2 GiB (RLIMIT_AS, set for the child only); controls under the same limit: the same
    //      packets with one FEE ID, and the FEE IDs in every other mode
    {
        use std::os::unix::process::CommandExt;
        use std::os::unix::process::ExitStatusExt;
        let fees: Vec<u16> = (0..7u16).flat_map(|layer| (0..4u16).flat_map(move |link| (0..48u16).map(move |stave| (layer << 12) | (link << 8) | stave))).collect();
        let mk = |one: bool| -> Vec<u8> {
            let pk: Vec<fp_model::stream::Packet> = fees
                .iter()
                .enumerate()
                .map(|(i, f)| {
                    let mut r = fp_model::rdh::Rdh::base();
                    r.fee_id = if one { fees[0] } else { *f };
                    r.orbit = 1 + i as u32;
                    fp_model::stream::Packet::framed(r, Vec::new())
                })
                .collect();
            fp_model::stream::to_bytes(&pk)
        };
        let many = mk(false);
        let one = mk(true);
        let jobs: Vec<(&str, &Vec<u8>, Vec<&str>, bool)> = vec![
            ("one FEE ID, check all its-stave", &one, vec!["check", "all", "its-stave", "-m"], true),
            ("1344 FEE IDs, check all its", &many, vec!["check", "all", "its", "-m"], true),
            ("1344 FEE IDs, view rdh", &many, vec!["view", "rdh"], true),
            ("1344 FEE IDs, check all its-stave", &many, vec!["check", "all", "its-stave", "-m"], false),
        ];
        let res = par_map(&jobs, |_, (_, bytes, mode, _)| {
            let scratch = Scratch::new("c04r");
            let inp = scratch.file("in.raw", bytes);
            let mut cmd = std::process::Command::new(fp_harness::cli::cli_bin());
            cmd.arg(&inp).args(mode.iter()).current_dir(&scratch.path).env("MALLOC_ARENA_MAX", "1").env("RUST_BACKTRACE", "0").stdout(std::process::Stdio::null()).stderr(std::process::Stdio::piped());
            unsafe {
                cmd.pre_exec(|| {
                    let lim = libc::rlimit { rlim_cur: 2 << 30, rlim_max: 2 << 30 };
                    libc::setrlimit(libc::RLIMIT_AS, &lim);
                    Ok(())
                });
            }
            match cmd.output() {
                Ok(o) => (o.status.code(), o.status.signal(), String::from_utf8_lossy(&o.stderr).lines().find(|l| l.contains("panicked at") || l.contains("memory allocation")).unwrap_or("").to_string()),
                Err(e) => (None, None, format!("spawn: {e}")),
            }
        });
        for ((label, _, mode, control), (code, signal, note)) in jobs.iter().zip(res.iter()) {
            let ok = signal.is_none() && matches!(code, Some(0) | Some(1));
            if !ok {
                if *control {
                    rep.machinery_error(format!("control run under the 2 GiB address-space limit failed: {label}: exit {:?} signal {:?} {note}", code, signal));
                } else {
                    rep.violation(Violation {
                        signature: "cli:resource-exhaustion:one-validator-thread-per-fee-id".into(),
                        description: format!("exit {:?} signal {:?} under a 2 GiB address-space limit: {note} [{label}: 84 KiB of header-only packets with 1344 valid FEE IDs, `{}`]", code, signal, mode.join(" ")),
                        replay: json!({"kind": "rlimit", "mode": mode, "fee_ids": fees.len()}),
                    });
                }
            }
        }
        rep.cov("cli_runs_under_an_address_space_limit", json!(jobs.len()));
    }
    rep.cov("states", json!(states));
    rep.cov("transitions", json!(transitions + jobs.len() as u64));
    rep.cov("traces_validated_against_impl", json!(transitions + jobs.len() as u64));
    rep.cov("word_sequence_search", json!(cfgs));
    rep.cov("cli_runs", json!(jobs.len()));
    rep.cov("cli_inputs", json!(inputs.len()));
    rep.cov("exhaustive", json!(true));
    rep.sample(json!({"word_sequence": "e0.. (IHW) e8.. (TDH cont=1) 20.. (IB data)  -> panic readout_frame.rs:64 (known finding)"}));
    rep.sample(json!({"cli": inputs[inputs.len() / 2].0, "modes": modes.len(), "options": opts.len()}));
    rep.assume("'pure random bytes' and AddressSanitizer runs are outside this technique family (sampling / instrumented std): the structured spaces above stand in; memory safety outside the three marked unreachable_unchecked sites rests on the type system");
    rep.assume("the word-sequence search is bounded by depth (stave mode: lane bytes accumulate, no fixpoint exists); the bound reached is in the evidence");
    rep.finish()
}

pub fn replay(v: &serde_json::Value) -> i32 {
    let r = &v["replay"];
    if r["kind"] == "cli" {
        let bytes = fp_model::util::unhex(r["input_hex"].as_str().unwrap());
        let m: Vec<String> = r["args_mode"].as_array().unwrap().iter().map(|x| x.as_str().unwrap().to_string()).collect();
        let o: Vec<String> = r["args_opts"].as_array().unwrap().iter().map(|x| x.as_str().unwrap().to_string()).collect();
        let mr: Vec<&str> = m.iter().map(|s| s.as_str()).collect();
        let or: Vec<&str> = o.iter().map(|s| s.as_str()).collect();
        match cli_case(&bytes, &mr, &or, r["stdin"].as_bool().unwrap(), "replay") {
            Some((s, d)) => {
                println!("REPLAY: violation reproduced: {s}: {d}");
                1
            }
            None => {
                println!("REPLAY: no violation");
                0
            }
        }
    } else {
        println!("REPLAY: word sequence {} in {}: re-run ./check C04 (deterministic search)", r["sequence"], r["mode"]);
        2
    }
}
