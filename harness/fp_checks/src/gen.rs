//! Input generators shared by several checks (all deterministic, no randomness).
use fp_model::rdh::Rdh;
use fp_model::stream::Packet;
use fp_model::util::fnv;

/// FEE id used for link `l` in the framing tests: links 0 and 1 share layer/stave and differ in the fibre bits
/// (so FEE and layer/stave filters differ), link 2 is another stave.
pub fn fee_of_link(l: u8) -> u16 {
    match l {
        0 => Rdh::its_fee_id(0, 1, 0),
        1 => Rdh::its_fee_id(0, 1, 1),
        2 => Rdh::its_fee_id(3, 5, 0),
        x => Rdh::its_fee_id(6, x & 0x3F, 2),
    }
}

/// A well-framed packet whose non-framing header bytes and payload are arbitrary but deterministic in `salt`.
pub fn arbitrary_framed(link: u8, fee: u16, payload_len: usize, salt: u64) -> Packet {
    let mut hb = [0u8; 64];
    for (i, b) in hb.iter_mut().enumerate() {
        *b = (fnv(&[salt.to_le_bytes().as_slice(), &[i as u8]].concat()) >> 13) as u8;
    }
    let mut r = Rdh::decode(&hb);
    r.link_id = link;
    r.fee_id = fee;
    let payload: Vec<u8> = (0..payload_len)
        .map(|i| (fnv(&[salt.to_le_bytes().as_slice(), &(i as u32).to_le_bytes()].concat()) >> 7) as u8)
        .collect();
    Packet::framed(r, payload)
}

pub const SIZE_CYCLE: [usize; 5] = [0, 16, 48, 160, 32];

/// Stream following a link pattern; payload sizes cycle, contents are distinct per packet.
pub fn pattern_stream(pattern: &[u8], salt: u64) -> Vec<Packet> {
    pattern
        .iter()
        .enumerate()
        .map(|(i, &l)| {
            arbitrary_framed(l, fee_of_link(l), SIZE_CYCLE[(i + l as usize) % SIZE_CYCLE.len()], salt * 1000 + i as u64)
        })
        .collect()
}

/// All sequences over `alphabet` of length 0..=max_len, shortest first.
pub fn sequences(alphabet: &[u8], max_len: usize) -> Vec<Vec<u8>> {
    let mut out = vec![vec![]];
    let mut frontier = vec![vec![]];
    for _ in 0..max_len {
        let mut next = Vec::new();
        for s in &frontier {
            for &a in alphabet {
                let mut t: Vec<u8> = s.clone();
                t.push(a);
                next.push(t);
            }
        }
        out.extend(next.iter().cloned());
        frontier = next;
    }
    out
}

/// Like `arbitrary_framed` but RDH0 stays recognisable (header id 7, size 0x40, valid FEE id, priority and reserved
/// 0), so a file starting with such a packet is accepted by the CLI's start-up check.
pub fn recognisable_framed(link: u8, fee: u16, payload_len: usize, salt: u64) -> Packet {
    let mut p = arbitrary_framed(link, fee, payload_len, salt);
    p.rdh.header_id = 7;
    p.rdh.header_size = 0x40;
    p.rdh.priority = 0;
    p.rdh.rdh0_reserved = 0;
    p.rdh.system_id = 0x20;
    p
}

pub fn recognisable_pattern_stream(pattern: &[u8], salt: u64) -> Vec<Packet> {
    pattern
        .iter()
        .enumerate()
        .map(|(i, &l)| {
            recognisable_framed(l, fee_of_link(l), SIZE_CYCLE[(i + l as usize) % SIZE_CYCLE.len()], salt * 1000 + i as u64)
        })
        .collect()
}

/// The start-up check of the tool on the first 8 bytes (documented: RDH0 sanity + version range).
pub fn rdh0_recognisable(r: &Rdh) -> bool {
    (3..=100).contains(&r.header_id)
        && r.header_size == 0x40
        && r.priority == 0
        && r.rdh0_reserved == 0
        && (r.fee_id & 0x8CC0) == 0
        && (r.fee_id & 0x3F) <= 47
        && ((r.fee_id >> 12) & 7) <= 6
}
