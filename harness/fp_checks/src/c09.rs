//! C09 — ITS payload words are classified as the documented state machine says.
//!
//! xs: product of the real `ItsPayloadFsmContinuous` (state id through the verification hook; also driven inside a
//! real `CdpRunningValidator` for the error codes) and the diagram automaton of `fp_model::fsm`, which is bound to
//! `doc/ITS_payload_fsm_continuous_mode.puml` at start-up. BFS over the legal alphabet to the fixpoint, then for
//! every reachable product state one more step with every identifier byte x {no_data, packet_done} flag values
//! (so every (state, illegal word) pair is taken).
use crate::val::{self, Mode};
use crate::xs::{self, StepOut, Sys, Viol};
use fastpasta::analyze::validators::its::its_payload_fsm_cont::{AmbigiousError, ItsPayloadFsmContinuous};
use fastpasta::analyze::validators::its::lib::ItsPayloadWord;
use fastpasta::config::prelude::MockConfig;
use fp_harness::par::par_map;
use fp_harness::{Reporter, Tier, Violation};
use fp_model::fsm::{self, Class, Expect, Verdict};
use fp_model::rdh::Rdh;
use fp_model::rules;
use fp_model::util::hex;
use fp_model::words;
use serde_json::json;
use std::collections::{BTreeMap, BTreeSet};

#[derive(Clone, Copy, Debug, PartialEq, Eq, Hash, PartialOrd, Ord)]
pub enum Sym {
    Ihw,
    Tdh { nd: bool, cont: bool },
    /// flags: bit 0 transmission timeout, bit 1 lane starts violation (legal companions of packet_done in byte 8)
    Tdt { done: bool, flags: u8 },
    Ddw0,
    Cdw,
    IbData,
    ObData,
    Unknown,
    NewPacket,
}

pub fn all_syms() -> Vec<Sym> {
    let mut v = vec![Sym::Ihw];
    for nd in [false, true] {
        for cont in [false, true] {
            v.push(Sym::Tdh { nd, cont });
        }
    }
    for flags in 0..4u8 {
        v.extend([Sym::Tdt { done: false, flags }, Sym::Tdt { done: true, flags }]);
    }
    v.extend([Sym::Ddw0, Sym::Cdw, Sym::IbData, Sym::ObData, Sym::Unknown, Sym::NewPacket]);
    v
}

pub fn word_of(s: Sym) -> Option<[u8; 10]> {
    Some(match s {
        Sym::Ihw => words::ihw(0x0FFF_FFFF),
        Sym::Tdh { nd, cont } => words::Tdh { trigger_type: 0x003, internal: true, no_data: nd, continuation: cont, bc: 0x10, orbit: 0xAB }.encode(),
        Sym::Tdt { done, flags } => words::Tdt { packet_done: done, transmission_timeout: flags & 1 != 0, lane_starts_violation: flags & 2 != 0, ..Default::default() }.encode(),
        Sym::Ddw0 => words::Ddw0::default().encode(),
        Sym::Cdw => words::cdw(0x1111, 0),
        Sym::IbData => words::data_word(0x20, [0x11; 9]),
        Sym::ObData => words::data_word(0x45, [0x22; 9]),
        Sym::Unknown => words::data_word(0x3D, [0x33; 9]),
        Sym::NewPacket => return None,
    })
}

fn impl_class(r: &Result<ItsPayloadWord, AmbigiousError>) -> Result<Class, &'static str> {
    match r {
        Ok(ItsPayloadWord::IHW) => Ok(Class::Ihw),
        Ok(ItsPayloadWord::IHW_continuation) => Ok(Class::IhwCont),
        Ok(ItsPayloadWord::TDH) => Ok(Class::Tdh),
        Ok(ItsPayloadWord::TDH_continuation) => Ok(Class::TdhCont),
        Ok(ItsPayloadWord::TDH_after_packet_done) => Ok(Class::TdhAfter),
        Ok(ItsPayloadWord::TDT) => Ok(Class::Tdt),
        Ok(ItsPayloadWord::CDW) => Ok(Class::Cdw),
        Ok(ItsPayloadWord::DataWord) => Ok(Class::Data),
        Ok(ItsPayloadWord::DDW0) => Ok(Class::Ddw0),
        Err(AmbigiousError::TDH_or_DDW0) => Err("E990"),
        Err(AmbigiousError::DW_or_TDT_CDW) => Err("E991"),
        Err(AmbigiousError::DDW0_or_TDH_IHW) => Err("E992"),
    }
}

/// The sanity code of a classified word and whether the documented predicate rejects the word.
fn sanity_expectation(class: Class, w: &[u8]) -> Option<(&'static str, bool)> {
    match class {
        Class::Ihw | Class::IhwCont => Some(("E30", !rules::ihw_sane(w))),
        Class::Tdh | Class::TdhAfter | Class::TdhCont => Some(("E40", !rules::tdh_sane(w))),
        Class::Tdt => Some(("E50", !rules::tdt_sane(w))),
        Class::Ddw0 => Some(("E60", !rules::ddw0_sane(w))),
        Class::Data => Some(("E70", !words::is_valid_data_id(w[9]))),
        Class::Cdw => None,
    }
}

struct Live {
    fsm: ItsPayloadFsmContinuous,
    st: val::CdpStepper,
    model: Expect,
    word_idx: u64,
    pkt: u64,
    /// running (stateful) rules are active in this configuration
    running: bool,
    /// a data word or CDW was already seen in this packet (the tool takes 0xF8 for a CDW only before that)
    data_started: bool,
}

impl Live {
    fn new(cfg: &'static MockConfig) -> Result<Self, String> {
        let mut st = val::CdpStepper::new(cfg);
        st.set_rdh(&Rdh::base().encode(), 0)?;
        let running = cfg.check.as_ref().map_or(false, |c| matches!(c, fastpasta::config::check::CheckCommands::All(_)));
        Ok(Live { fsm: ItsPayloadFsmContinuous::default(), st, model: Expect::Ihw, word_idx: 0, pkt: 0, running, data_started: false })
    }
    fn word_offset(&self) -> u64 {
        self.pkt * 0x10000 + 64 + 10 * self.word_idx
    }
    fn new_packet(&mut self) -> Result<(), String> {
        self.pkt += 1;
        self.word_idx = 0;
        self.data_started = false;
        // the next page of the same HBF: the page counter follows the packet number
        let mut r = Rdh::base();
        r.pages_counter = self.pkt as u16;
        self.st.set_rdh(&r.encode(), self.pkt * 0x10000)
    }
    /// One word through model, bare FSM and validator; checks the C09 invariants for this step.
    fn step(&mut self, w: &[u8; 10]) -> Result<(u8, Expect, Vec<String>), Viol> {
        let mk = |sig: &str, d: String| Viol { signature: sig.to_string(), description: d };
        let verdict = fsm::step(self.model, w);
        let off = self.word_offset();
        let got = val::guarded(|| self.fsm.advance(w)).map_err(|p| mk(&format!("panic:{}", val::panic_site(&p)), p))?;
        let msgs = val::error_texts(&self.st.word(w).map_err(|p| mk(&format!("panic:{}", val::panic_site(&p)), p))?);
        self.word_idx += 1;
        let mut codes: Vec<String> = Vec::new();
        for m in &msgs {
            match rules::parse_error_message(m) {
                Some((o, c)) if o == off => codes.extend(c),
                _ => return Err(mk("fsm:report-not-at-word", format!("message not at the word's offset {off:#x}: {m}"))),
            }
        }
        let state_desc = format!("{:?}", self.model);
        let cls = impl_class(&got);
        let has = |c: &str| codes.iter().any(|x| x == c);
        let any_e99 = codes.iter().any(|x| x.starts_with("E99"));
        let next_model;
        match verdict {
            Verdict::Legal { class, next, abstain_report } => {
                if cls != Ok(class) {
                    return Err(mk("fsm:classification", format!("in {state_desc} the word {} is a {:?} per the diagram, implementation says {:?}", hex(w), class, cls)));
                }
                if !abstain_report {
                    if any_e99 {
                        return Err(mk("fsm:legal-word-reported", format!("legal {:?} in {state_desc} reported as unrecognised: {:?}", class, msgs)));
                    }
                    let mut rejected_by_rule = false;
                    if let Some((code, rejected)) = sanity_expectation(class, w) {
                        if has(code) != rejected {
                            return Err(mk("fsm:sanity-code", format!("{:?} {} in {state_desc}: documented predicate rejects={rejected}, {code} reported={}", class, hex(w), has(code))));
                        }
                        rejected_by_rule = rejected;
                    }
                    // a legal word that passes its own sanity rule is not reported at all (the word-level modes used here
                    // have no running rules that could apply)
                    // (a CDW is a CDW only at the start of a packet's data - the stream grammar places it there; a
                    // 0xF8 word later in the data is outside the documented cases and not judged here)
                    let judged = class != Class::Cdw || !self.data_started;
                    if judged && !rejected_by_rule && !codes.is_empty() && !self.running {
                        return Err(mk("fsm:legal-word-reported", format!("legal {:?} {} in {state_desc} (packet {}, word {}) reported with {:?}", class, hex(w), self.pkt, self.word_idx - 1, codes)));
                    }
                }
                next_model = next;
            }
            Verdict::Forced { class, next, id_ok } => {
                if cls != Ok(class) {
                    return Err(mk("fsm:classification", format!("in {state_desc} any word is taken as {:?}, implementation says {:?}", class, cls)));
                }
                let (code, rejected) = sanity_expectation(class, w).unwrap();
                if !id_ok && !has(code) {
                    return Err(mk("fsm:illegal-id-silently-accepted", format!("id {:#04x} in {state_desc} must be reported with {code}: {:?}", w[9], msgs)));
                }
                if has(code) != rejected {
                    return Err(mk("fsm:sanity-code", format!("{:?} {} in {state_desc}: predicate rejects={rejected}, {code} reported={}", class, hex(w), has(code))));
                }
                next_model = next;
            }
            Verdict::Illegal { code } => {
                if cls != Err(code) || !has(code) {
                    return Err(mk("fsm:illegal-id-silently-accepted", format!("id {:#04x} is illegal in {state_desc}: expected {code} at the word, implementation classified {:?} and reported {:?}", w[9], cls, msgs)));
                }
                // the diagram defines no successor after an illegal word: the path ends here
                next_model = self.model;
            }
        }
        let bare = self.fsm.verif_state_id();
        let inside = self.st.v.verif_fsm_state_id();
        if bare != inside {
            return Err(mk("fsm:composition", format!("FSM inside the validator is in state {inside}, the bare FSM in {bare}")));
        }
        match cls {
            Ok(Class::Data) | Ok(Class::Cdw) => self.data_started = true,
            _ => {}
        }
        self.model = next_model;
        Ok((bare, next_model, codes))
    }
}

struct FsmProduct {
    cfg: &'static MockConfig,
}

impl Sys for FsmProduct {
    type Sym = Sym;
    type Key = (Expect, u8);
    type Obs = (u8, Vec<String>);

    fn enabled(&self, hist: &[Sym]) -> Vec<Sym> {
        // legal symbols in the model state reached by `hist`
        let mut m = Expect::Ihw;
        for s in hist {
            if let Some(w) = word_of(*s) {
                match fsm::step(m, &w) {
                    Verdict::Legal { next, .. } | Verdict::Forced { next, .. } => m = next,
                    Verdict::Illegal { .. } => return vec![],
                }
            }
        }
        all_syms()
            .into_iter()
            .filter(|s| match word_of(*s) {
                None => true,
                Some(w) => match fsm::step(m, &w) {
                    Verdict::Legal { .. } => true,
                    Verdict::Forced { id_ok, .. } => id_ok,
                    Verdict::Illegal { .. } => false,
                },
            })
            .collect()
    }

    fn initial_key(&self) -> Self::Key {
        (Expect::Ihw, 0)
    }

    fn run(&self, hist: &[Sym]) -> Result<StepOut<Self::Key, Self::Obs>, Viol> {
        let mut live = Live::new(self.cfg).map_err(|p| Viol { signature: format!("panic:{}", val::panic_site(&p)), description: p })?;
        let mut last = (0u8, vec![]);
        for s in hist {
            match word_of(*s) {
                None => {
                    live.new_packet().map_err(|p| Viol { signature: format!("panic:{}", val::panic_site(&p)), description: p })?;
                    last = (live.fsm.verif_state_id(), vec![]);
                }
                Some(w) => {
                    let (id, _, codes) = live.step(&w).map_err(|mut v| {
                        v.description = format!("{} [history {:?}]", v.description, hist);
                        v
                    })?;
                    last = (id, codes);
                }
            }
        }
        // the key also tells the first page of an HBF from later pages (per-packet flags may depend on the page counter)
        // and whether the validator still regards the next word as the start of the packet's data (CDW position)
        let start_of_data = live.st.v.verif_fingerprint().get(1).copied().unwrap_or(0) & 1;
        Ok(StepOut { key: (live.model, live.fsm.verif_state_id() | (start_of_data << 6) | (((live.pkt > 0) as u8) << 7)), obs: last })
    }
}

pub fn run(tier: Tier) -> i32 {
    val::init_process();
    let mut rep = Reporter::new("C09", tier, "model_checking");
    // bind the model to the document
    let puml = std::fs::read_to_string("/repo/doc/ITS_payload_fsm_continuous_mode.puml").unwrap_or_default();
    match fsm::check_binding(&puml) {
        Ok(n) => rep.cov("diagram_edges_bound", json!(n)),
        Err(e) => {
            rep.violation(Violation {
                signature: "fsm:diagram-changed".into(),
                description: format!("doc/ITS_payload_fsm_continuous_mode.puml no longer matches the encoded automaton: {e}"),
                replay: json!({"kind": "binding"}),
            });
        }
    }
    let sys = FsmProduct { cfg: val::mode_cfg(Mode::SanityIts) };
    let xr = xs::bfs(&sys, 30, 100_000, true);
    for (h, v) in &xr.violations {
        rep.violation(Violation { signature: v.signature.clone(), description: v.description.clone(), replay: json!({"kind": "history", "symbols": format!("{:?}", h), "words_hex": h.iter().map(|s| word_of(*s).map(|w| hex(&w)).unwrap_or("NEWPACKET".into())).collect::<Vec<_>>()}) });
    }
    for f in &xr.abstraction_failures {
        rep.machinery_error(format!("abstraction check failed: {f}"));
    }
    if !xr.fixpoint {
        rep.machinery_error("FSM product did not reach its fixpoint".into());
    }
    // functional relation implementation state -> diagram state class, all variants reachable
    let mut rel: BTreeMap<u8, BTreeSet<u8>> = BTreeMap::new();
    for (_, _, (m, i)) in &xr.transition_log {
        rel.entry(*i).or_default().insert(m.class());
    }
    rel.entry(0).or_default().insert(Expect::Ihw.class());
    for (i, ms) in &rel {
        if ms.len() != 1 {
            rep.violation(Violation {
                signature: "fsm:successor-relation-not-functional".into(),
                description: format!("implementation state {i} corresponds to diagram state classes {:?}: some successor differs from the diagram's", ms),
                replay: json!({"kind": "relation", "impl_state": i}),
            });
        }
    }
    let unreachable: Vec<u8> = (0..11u8).filter(|i| !rel.contains_key(i)).collect();
    if !unreachable.is_empty() {
        rep.violation(Violation {
            signature: "fsm:unreachable-variant".into(),
            description: format!("implementation states {:?} are never reached by any legal word sequence", unreachable),
            replay: json!({"kind": "relation", "unreachable": unreachable}),
        });
    }
    // one more step from every reachable product state with every id byte x flag bits
    let reps: Vec<Vec<Sym>> = xr.representatives.clone();
    let mut extra: Vec<(usize, [u8; 10])> = Vec::new();
    for (ri, _) in reps.iter().enumerate() {
        for id in 0..=255u8 {
            for nd in [false, true] {
                for done in [false, true] {
                    let mut w = [0u8; 10];
                    w[1] = 0x10 | if nd { 0x20 } else { 0 }; // internal trigger bit set, no_data as chosen
                    w[8] = done as u8;
                    w[9] = id;
                    extra.push((ri, w));
                }
            }
        }
    }
    let cfg = val::mode_cfg(Mode::SanityIts);
    let ex = par_map(&extra, |_, (ri, w)| {
        let mut live = match Live::new(cfg) {
            Ok(l) => l,
            Err(p) => return (Some(Viol { signature: "panic".into(), description: p }), false),
        };
        for s in &reps[*ri] {
            match word_of(*s) {
                None => {
                    let _ = live.new_packet();
                }
                Some(pw) => {
                    if live.step(&pw).is_err() {
                        return (None, false); // already reported by the BFS
                    }
                }
            }
        }
        let illegal = matches!(fsm::step(live.model, w), Verdict::Illegal { .. } | Verdict::Forced { id_ok: false, .. });
        match live.step(w) {
            Ok(_) => (None, illegal),
            Err(mut v) => {
                v.description = format!("{} [after {:?}]", v.description, reps[*ri]);
                (Some(v), illegal)
            }
        }
    });
    let mut illegal_pairs = 0u64;
    for ((ri, w), (v, illegal)) in extra.iter().zip(ex.into_iter()) {
        if illegal {
            illegal_pairs += 1;
        }
        if let Some(v) = v {
            rep.violation(Violation { signature: v.signature, description: v.description, replay: json!({"kind": "history+word", "symbols": format!("{:?}", reps[*ri]), "word_hex": hex(w)}) });
        }
    }
    // coverage table: (diagram state class, symbol) cells taken by the BFS
    let mut cells: BTreeSet<(u8, String)> = BTreeSet::new();
    for ((m, _), s, _) in &xr.transition_log {
        cells.insert((m.class(), format!("{:?}", s)));
    }
    rep.cov("states", json!(xr.states));
    rep.cov("transitions", json!(xr.transitions + extra.len() as u64));
    rep.cov("bfs_transitions", json!(xr.transitions));
    rep.cov("extra_step_words", json!(extra.len()));
    rep.cov("illegal_state_word_pairs", json!(illegal_pairs));
    rep.cov("traces_validated_against_impl", json!(xr.transitions + extra.len() as u64));
    rep.cov("fixpoint", json!(xr.fixpoint));
    rep.cov("depth", json!(xr.depth));
    rep.cov("impl_states_reached", json!(rel.keys().collect::<Vec<_>>()));
    rep.cov("state_symbol_cells", json!(cells.len()));
    rep.cov("merged_histories_checked", json!(xr.merges_checked));
    rep.cov("exhaustive", json!(true));
    for r in reps.iter().filter(|r| r.len() >= 5).take(2) {
        rep.sample(json!({"history": format!("{:?}", r)}));
    }
    rep.assume("after an illegal word the diagram defines no successor: such paths end (the fallback parse of the tool is not judged)");
    rep.assume("a TDT directly after a TDH with no_data=0 is classified as TDT; whether it is reported is not judged (diagram vs check list disagree)");
    rep.finish()
}

pub fn replay(v: &serde_json::Value) -> i32 {
    println!("REPLAY: C09 replays are histories of words; re-running the deterministic search reproduces them: {}", v["replay"]);
    run(Tier::Quick)
}
