//! C13 — stave-level ALPIDE frame checks are exact and ignore hit content.
//!
//! Frames from the independent ALPIDE encoder, fed as packets to a real `LinkValidator` in `check all its-stave`:
//! barrel x lane sets (IB: every subset of lanes 0..8 of size <= 4; ML/OL: legal set, one missing, one extra) x
//! chip lists (id = lane / != lane, 2 chips; OB 7 chips in configured order, 6, 8, permuted, with and without
//! custom checks) x bunch counters (equal / one chip differs / one lane differs) x hit contents (every sequence of
//! length <= 2 (3 thorough) over a 11-symbol hit alphabet with adversarial bytes) x splits of the frame over pages;
//! and every sequence of up to 3 frames in which each lane is normal / announces a fatal state / is absent
//! (fatal-lane memory). Oracle: the documented rules, at the frame start offset.
use crate::val::{self, CfgKey, Mode};
use fastpasta::stats::StatType;
use fp_harness::par::par_map;
use fp_harness::{Reporter, Tier, Violation};
use fp_model::alpide::{self, Chip, Hit};
use fp_model::grammar::{Ev, LinkCfg, LinkRenderer, PageShape, WKind};
use fp_model::rules;
use fp_model::words::{self, Word};
use serde_json::json;
use std::collections::BTreeSet;

#[derive(Clone, Debug)]
struct LaneSpec {
    id: u8,
    chips: Vec<Chip>,
    /// raw bytes placed before the chips (e.g. a fatal APE)
    prefix: Vec<u8>,
}

#[derive(Clone, Debug)]
struct FrameSpec {
    lanes: Vec<LaneSpec>,
    /// a no-data TDH precedes the frame's TDH in the same page
    nodata_before: bool,
    /// split the frame's data words after this many words and continue on the next page
    split: Option<usize>,
}

fn frame_words(f: &FrameSpec) -> Vec<Word> {
    let lanes: Vec<Vec<Word>> = f
        .lanes
        .iter()
        .map(|l| {
            let mut b = l.prefix.clone();
            b.extend(alpide::lane_bytes(&l.chips));
            alpide::lane_words(l.id, &b)
        })
        .collect();
    alpide::interleave_lanes(&lanes)
}

struct Built {
    packets: Vec<val::RawPacket>,
    /// offset of the TDH that starts each frame
    starts: Vec<u64>,
}

fn build(cfg: &LinkCfg, frames: &[FrameSpec]) -> Built {
    let mut r = LinkRenderer::new(cfg);
    let mut out = Vec::new();
    let mut starts = Vec::new();
    let mut off = 0u64;
    let mut push = |p: fp_model::grammar::PacketT, starts: &mut Vec<u64>, expect_start: bool, off: &mut u64| {
        if expect_start {
            // the frame's TDH = the last non-continuation TDH with no_data = 0 in this packet
            let idx = p.words.iter().rposition(|w| matches!(w.kind, WKind::Tdh | WKind::TdhAfter) && !fp_model::fsm::tdh_no_data(&w.bytes)).expect("frame TDH");
            starts.push(*off + p.word_rel_offset(idx) as u64);
        }
        out.push((p.packet.rdh.encode().to_vec(), p.packet.payload.clone(), *off));
        *off += p.packet.len() as u64;
    };
    for f in frames {
        let w = frame_words(f);
        let mut evs = Vec::new();
        if f.nodata_before {
            evs.push(Ev::NoData);
        }
        match f.split {
            Some(k) if k > 0 && k < w.len() => {
                evs.push(Ev::Data { words: w[..k].to_vec(), cdw: false, done: false });
                let p = r.next_page(&PageShape { cont: None, evs });
                push(p, &mut starts, true, &mut off);
                let p2 = r.next_page(&PageShape { cont: Some((w[k..].to_vec(), true)), evs: vec![] });
                push(p2, &mut starts, false, &mut off);
            }
            _ => {
                evs.push(Ev::Data { words: w, cdw: false, done: true });
                let p = r.next_page(&PageShape { cont: None, evs });
                push(p, &mut starts, true, &mut off);
            }
        }
        let s = r.stop_page();
        push(s, &mut starts, false, &mut off);
    }
    Built { packets: out, starts }
}

#[derive(Clone, Debug, Default, PartialEq)]
struct Observed {
    /// (frame index by start offset, code)
    frame_codes: BTreeSet<(usize, String)>,
    other: Vec<String>,
    alpide_stats: String,
    panic: Option<String>,
}

fn observe(cfg_key: &CfgKey, b: &Built) -> Observed {
    let o = val::validate_link(val::cfg(cfg_key), &b.packets);
    let mut obs = Observed { panic: o.panic.clone(), ..Default::default() };
    let mut stats = Vec::new();
    for m in &o.msgs {
        match m {
            StatType::Error(e) => {
                let e = e.to_string();
                match rules::parse_error_message(&e) {
                    Some((off, codes)) => match b.starts.iter().position(|s| *s == off) {
                        Some(fi) if codes.iter().any(|c| matches!(c.as_str(), "E72" | "E73" | "E74" | "E75" | "E701")) => {
                            for c in codes.iter().filter(|c| matches!(c.as_str(), "E72" | "E73" | "E74" | "E75" | "E701")) {
                                obs.frame_codes.insert((fi, c.clone()));
                            }
                        }
                        _ => obs.other.push(e.lines().next().unwrap_or("").to_string()),
                    },
                    None => obs.other.push(e),
                }
            }
            StatType::AlpideStats(s) => stats.push(format!("{:?}", s)),
            _ => {}
        }
    }
    obs.alpide_stats = stats.join("|");
    obs
}

/// Documented verdict for one frame: the set of codes that must be reported at the frame start.
fn expected_codes(frame: &FrameSpec, fatal_before: &BTreeSet<u8>, custom: &CfgKey) -> BTreeSet<String> {
    let mut out = BTreeSet::new();
    let ib = words::is_ib_id(frame.lanes[0].id);
    let layer_ml = !ib && frame.lanes.iter().all(|l| words::ml_ids(false).contains(&l.id) || words::ml_ids(true).contains(&l.id)) && frame.lanes.len() <= 9;
    let _ = layer_ml;
    // lane count / grouping
    let present: BTreeSet<u8> = frame.lanes.iter().map(|l| if ib { words::ib_lane(l.id) } else { words::ob_lane(l.id) }).collect();
    if ib {
        let groups: [[u8; 3]; 3] = [[0, 1, 2], [3, 4, 5], [6, 7, 8]];
        let ok = groups.iter().any(|g| {
            let gs: BTreeSet<u8> = g.iter().copied().collect();
            present.is_subset(&gs) && gs.difference(&present).all(|m| fatal_before.contains(m))
        });
        if !ok {
            out.insert("E72".to_string());
        }
    }
    // per lane and across lanes: bunch counters, chip ids
    let mut lane_bcs: Vec<u8> = Vec::new();
    let mut lane_error = false;
    for l in &frame.lanes {
        if l.prefix.iter().any(|b| alpide::FATAL_APES.contains(b)) {
            continue; // a lane that announces a fatal state is not judged
        }
        let bcs: BTreeSet<u8> = l.chips.iter().map(|c| c.bc).collect();
        if bcs.len() > 1 {
            lane_error = true;
        }
        if ib {
            if l.chips.len() != 1 || l.chips[0].id != words::ib_lane(l.id) {
                lane_error = true;
            }
        } else {
            if let Some(n) = custom.chip_count_ob {
                if l.chips.len() != n as usize {
                    lane_error = true;
                }
            }
            if let Some(orders) = &custom.chip_orders_ob {
                let ids: Vec<u8> = l.chips.iter().map(|c| c.id).collect();
                let count_ok = custom.chip_count_ob.map_or(true, |n| l.chips.len() == n as usize);
                if count_ok && !orders.contains(&ids) {
                    lane_error = true;
                }
            }
        }
        if bcs.len() == 1 {
            lane_bcs.push(*bcs.iter().next().unwrap());
        }
    }
    let distinct: BTreeSet<u8> = lane_bcs.iter().copied().collect();
    if lane_error || distinct.len() > 1 {
        out.insert(if ib { "E74" } else { "E75" }.to_string());
    }
    out
}

fn ob_expected_lane_count_codes(frame: &FrameSpec, layer: u8) -> bool {
    // ML (layers 3,4): 8 lanes, OL (5,6): 14 lanes
    let want = if layer <= 4 { 8 } else { 14 };
    frame.lanes.len() != want
}

fn ib_lane(id_lane: u8, bc: u8, hits: &[Hit], chip_id: Option<u8>) -> LaneSpec {
    LaneSpec { id: words::ib_id(id_lane), chips: vec![Chip { id: chip_id.unwrap_or(id_lane), bc, empty: hits.is_empty(), hits: hits.to_vec(), flags: 0, pad_before: 0 }], prefix: vec![] }
}

fn ob_lane(id: u8, bc: u8, hits: &[Hit], ids: &[u8]) -> LaneSpec {
    LaneSpec { id, chips: ids.iter().map(|c| Chip { id: *c, bc, empty: false, hits: hits.to_vec(), flags: 0, pad_before: 0 }).collect(), prefix: vec![] }
}

struct Case {
    label: String,
    cfg: LinkCfg,
    key: CfgKey,
    frames: Vec<FrameSpec>,
    /// codes each frame must produce (None = abstain on that frame)
    want: Vec<Option<BTreeSet<String>>>,
}

fn subsets(n: u8, max: usize) -> Vec<Vec<u8>> {
    let mut out = vec![vec![]];
    for i in 0..n {
        let mut add = Vec::new();
        for s in &out {
            if s.len() < max {
                let mut t: Vec<u8> = s.clone();
                t.push(i);
                add.push(t);
            }
        }
        out.extend(add);
    }
    out.into_iter().filter(|s| !s.is_empty()).collect()
}

fn stave_key() -> CfgKey {
    CfgKey { mode: Some(Mode::AllStave), ..Default::default() }
}

fn ib_cfg() -> LinkCfg {
    let mut c = LinkCfg::ib(0, 7);
    c.lanes = (0..9).map(words::ib_id).collect(); // every inner lane active in the IHW
    c
}

/// The case list; every second case is rendered with all TDT status flags set (transmission timeout, lane starts
/// violation, the three timeouts): they are no protocol violations and must not change where a frame ends.
fn cases(tier: Tier) -> Vec<Case> {
    let mut v = cases_plain(tier);
    for (i, c) in v.iter_mut().enumerate() {
        if i % 2 == 1 {
            c.cfg.tdt_status = 0b1_1111;
            c.label = format!("[TDT status flags set] {}", c.label);
        }
    }
    v
}

fn cases_plain(tier: Tier) -> Vec<Case> {
    let mut v = Vec::new();
    let none = BTreeSet::new();
    let ha = alpide::hit_alphabet();
    // ---- IB lane sets
    for s in subsets(9, 4) {
        let f = FrameSpec { lanes: s.iter().map(|l| ib_lane(*l, 0x31, &[ha[0], ha[2]], None)).collect(), nodata_before: false, split: None };
        let want = expected_codes(&f, &none, &stave_key());
        v.push(Case { label: format!("IB lanes {:?}", s), cfg: ib_cfg(), key: stave_key(), frames: vec![f], want: vec![Some(want)] });
    }
    // ---- IB stave, lanes carried by data words with an OUTER-barrel identifier (0x40 | n): the low five bits imitate an
    //      inner lane number, but such words are not data of an inner lane - the frame does not carry "3 inner lanes
    //      forming one of the fixed groups"; all three, or one of the three, in every group
    for base in [0u8, 3, 6] {
        for which in [0b111u8, 0b001, 0b010, 0b100] {
            let lanes: Vec<LaneSpec> = (0..3u8)
                .map(|i| {
                    let lane = base + i;
                    let mut l = ib_lane(lane, 0x31, &[ha[0]], None);
                    if which & (1 << i) != 0 {
                        l.id = 0x40 | lane;
                    }
                    l
                })
                .collect();
            let f = FrameSpec { lanes, nodata_before: false, split: None };
            let want: BTreeSet<String> = ["E72".to_string()].into_iter().collect();
            v.push(Case { label: format!("IB stave, lanes {}..{} of which {:03b} carry an outer-barrel identifier", base, base + 2, which), cfg: ib_cfg(), key: stave_key(), frames: vec![f], want: vec![Some(want)] });
        }
    }
    // ---- IB chips / bunch counters
    for (label, mutate) in [
        ("chip id != lane", 0u8),
        ("two chips in one lane", 1),
        ("one lane with another bunch counter", 2),
        ("all fine, empty chip frames", 3),
        ("chip id != lane and wrong group", 4),
    ] {
        let mut lanes: Vec<LaneSpec> = [3u8, 4, 5].iter().map(|l| ib_lane(*l, 0x44, &[ha[1]], None)).collect();
        match mutate {
            0 => lanes[1].chips[0].id = 7,
            1 => {
                let extra = Chip { id: 4, bc: 0x44, empty: true, hits: vec![], flags: 0, pad_before: 0 };
                lanes[1].chips[0].id = 3;
                lanes[1].chips.push(extra);
            }
            2 => lanes[2].chips[0].bc = 0x45,
            3 => {
                for l in lanes.iter_mut() {
                    l.chips[0].empty = true;
                    l.chips[0].hits.clear();
                }
            }
            _ => {
                lanes[0] = ib_lane(0, 0x44, &[ha[1]], Some(5));
            }
        }
        let f = FrameSpec { lanes, nodata_before: false, split: None };
        let want = expected_codes(&f, &none, &stave_key());
        v.push(Case { label: format!("IB {label}"), cfg: ib_cfg(), key: stave_key(), frames: vec![f], want: vec![Some(want)] });
    }
    // ---- IB chip lists: every list of length 1..2 over chip ids {lane, lane+1} x {empty frame, header+hit+trailer} x
    //      bunch counter {frame's, another}: accepted iff exactly one chip, id = lane, frame's bunch counter
    {
        let mut singles: Vec<Chip> = Vec::new();
        for id in [4u8, 5] {
            for empty in [true, false] {
                for bc in [0x44u8, 0x45] {
                    singles.push(Chip { id, bc, empty, hits: if empty { vec![] } else { vec![ha[1]] }, flags: 0, pad_before: 0 });
                }
            }
        }
        let mut lists: Vec<Vec<Chip>> = singles.iter().map(|c| vec![c.clone()]).collect();
        for a in &singles {
            for b in &singles {
                lists.push(vec![a.clone(), b.clone()]);
            }
        }
        for list in lists {
            let mut lanes: Vec<LaneSpec> = [3u8, 4, 5].iter().map(|l| ib_lane(*l, 0x44, &[ha[1]], None)).collect();
            lanes[1].chips = list.clone();
            let f = FrameSpec { lanes, nodata_before: false, split: None };
            let want = expected_codes(&f, &none, &stave_key());
            let desc: Vec<String> = list.iter().map(|c| format!("(id {} bc {:#x} {})", c.id, c.bc, if c.empty { "empty" } else { "hits" })).collect();
            v.push(Case { label: format!("IB lane 4 chip list {}", desc.join(" ")), cfg: ib_cfg(), key: stave_key(), frames: vec![f], want: vec![Some(want)] });
        }
    }
    // ---- hit content invariance: valid IB frame and an invalid one (lane BC differs) x all hit sequences
    let maxlen = if tier.is_thorough() { 3 } else { 2 };
    let mut seqs: Vec<Vec<Hit>> = vec![vec![]];
    let mut frontier: Vec<Vec<Hit>> = vec![vec![]];
    for _ in 0..maxlen {
        let mut next = Vec::new();
        for s in &frontier {
            for h in &ha {
                let mut t = s.clone();
                t.push(*h);
                next.push(t);
            }
        }
        seqs.extend(next.iter().cloned());
        frontier = next;
    }
    for (si, hs) in seqs.iter().enumerate() {
        for bad in [false, true] {
            let mut lanes: Vec<LaneSpec> = [6u8, 7, 8].iter().map(|l| ib_lane(*l, 0x10, hs, None)).collect();
            // the chips are never "empty frames" here: header, hits, trailer (the trailer count must not vary with hits)
            for l in lanes.iter_mut() {
                l.chips[0].empty = false;
            }
            if bad {
                lanes[0].chips[0].bc = 0x11;
            }
            let split = if si % 3 == 1 { Some(1 + si % 2) } else { None };
            let f = FrameSpec { lanes, nodata_before: si % 5 == 4, split };
            let want = expected_codes(&f, &none, &stave_key());
            v.push(Case { label: format!("IB hits {:?}{}", hs, if bad { " (lane BC differs)" } else { "" }), cfg: ib_cfg(), key: stave_key(), frames: vec![f], want: vec![Some(want)] });
        }
    }
    // ---- OB: lane sets, chip lists, with and without custom checks
    for (layer, upper) in [(3u8, false), (4, true), (5, false), (6, true)] {
        let mut cfg = if layer <= 4 { LinkCfg::ml(1, 5, upper) } else { LinkCfg::ol(1, 5, upper) };
        cfg.fee_id = fp_model::rdh::Rdh::its_fee_id(layer, 5, upper as u8);
        // activate every OB lane in the IHW so that an "extra" lane is judged by the frame check, not the word check
        let legal = cfg.lanes.clone();
        cfg.lanes = (0..4u8).flat_map(|c| (0..7u8).map(move |i| words::ob_id(c, i))).collect();
        let chip_ids = |id: u8| -> Vec<u8> { if (id >> 3) & 1 == 0 { (0..7).collect() } else { (8..15).collect() } };
        let orders = vec![(0..7).collect::<Vec<u8>>(), (8..15).collect::<Vec<u8>>()];
        let custom = CfgKey { mode: Some(Mode::AllStave), chip_count_ob: Some(7), chip_orders_ob: Some(orders), ..Default::default() };
        for (label, variant) in [("legal", 0u8), ("one lane missing", 1), ("one extra lane", 2), ("6 chips in a lane", 3), ("8 chips in a lane", 4), ("chip order permuted", 5), ("one chip BC differs", 6), ("one lane BC differs", 7)] {
            let mut lanes: Vec<LaneSpec> = legal.iter().map(|id| ob_lane(*id, 0x22, &[ha[0], ha[3]], &chip_ids(*id))).collect();
            match variant {
                1 => {
                    lanes.remove(2);
                }
                2 => {
                    let extra = cfg.lanes.iter().copied().find(|x| !legal.contains(x)).unwrap();
                    lanes.push(ob_lane(extra, 0x22, &[], &chip_ids(extra)));
                }
                3 => {
                    lanes[1].chips.pop();
                }
                4 => {
                    let c = lanes[1].chips[0].clone();
                    lanes[1].chips.push(Chip { id: 7, ..c });
                }
                5 => lanes[1].chips.swap(0, 1),
                6 => lanes[3].chips[2].bc = 0x23,
                7 => {
                    for c in lanes[4].chips.iter_mut() {
                        c.bc = 0x29;
                    }
                }
                _ => {}
            }
            // custom checks: none / count and orders / orders alone (a lane with fewer or more chips must then fail
            // the order check: a strict prefix or an extension of a configured order is not that order) / count alone
            let orders_only = CfgKey { chip_count_ob: None, ..custom.clone() };
            let count_only = CfgKey { chip_orders_ob: None, ..custom.clone() };
            for key in [stave_key(), custom.clone(), orders_only, count_only] {
                let f = FrameSpec { lanes: lanes.clone(), nodata_before: false, split: if variant == 0 { Some(5) } else { None } };
                let mut want = expected_codes(&f, &none, &key);
                if ob_expected_lane_count_codes(&f, layer) {
                    want.insert("E73".to_string());
                }
                v.push(Case { label: format!("layer {layer} {label}{}", if key.chip_count_ob.is_some() { " (custom checks)" } else { "" }), cfg: cfg.clone(), key, frames: vec![f], want: vec![Some(want)] });
            }
        }
    }
    // ---- OB fatal-lane memory: each lane X of the legal set announces a fatal state in frame 0 (abstain), then
    //      frame 1 = {all but X: clean | all but X and one more: lane count error | all incl. X: abstain},
    //      frame 2 = all but X again (the memory persists)
    for (layer, upper) in [(3u8, false), (4, true), (5, true), (6, false)] {
        let mut cfg = if layer <= 4 { LinkCfg::ml(1, 5, upper) } else { LinkCfg::ol(1, 5, upper) };
        cfg.fee_id = fp_model::rdh::Rdh::its_fee_id(layer, 5, upper as u8);
        cfg.bc_step = 0x10;
        let legal = cfg.lanes.clone();
        let chip_ids = |id: u8| -> Vec<u8> { if (id >> 3) & 1 == 0 { (0..7).collect() } else { (8..15).collect() } };
        for (xi, x) in legal.iter().enumerate() {
            for second in 0..3u8 {
                let normal = |skip: &[u8]| -> Vec<LaneSpec> { legal.iter().filter(|id| !skip.contains(id)).map(|id| ob_lane(*id, 0x22, &[ha[0]], &chip_ids(*id))).collect() };
                let mut f0 = normal(&[]);
                f0[xi] = LaneSpec { id: *x, chips: vec![], prefix: vec![alpide::APE_DET_TIMEOUT] };
                let other = legal[(xi + 3) % legal.len()];
                // second == 2: the lane that announced the fatal state is back with ordinary data and ANOTHER lane, which
                // never announced anything, is missing: fewer lanes than documented, and not "only by lanes that
                // announced a fatal state" - whatever a returning lane counts for, the missing one is not excused
                let f1 = match second {
                    0 => normal(&[*x]),
                    1 => normal(&[*x, other]),
                    _ => normal(&[other]),
                };
                let f2 = normal(&[*x]);
                let mk = |lanes: Vec<LaneSpec>| FrameSpec { lanes, nodata_before: false, split: None };
                let mut w1 = BTreeSet::new();
                if second >= 1 {
                    w1.insert("E73".to_string());
                }
                v.push(Case {
                    label: if second == 2 {
                        format!("{EXCUSED_MARK} layer {layer} lane {x:#04x} fatal in frame 0, frame 1 with it again but without lane {other:#04x}")
                    } else {
                        format!("layer {layer} lane {x:#04x} fatal in frame 0, frame 1 without it{}", if second == 1 { " and without another lane" } else { "" })
                    },
                    cfg: cfg.clone(),
                    key: stave_key(),
                    frames: vec![mk(f0), mk(f1), mk(f2)],
                    want: vec![None, Some(w1), Some(BTreeSet::new())],
                });
            }
        }
    }
    // ---- OB lane forms: every mix of empty-frame / header+trailer chips in one lane x padding bytes in front of one
    //      chip, once conforming and once with a deviating bunch counter on the last chip (must be seen: E75)
    {
        let mut cfg = LinkCfg::ol(1, 6, false);
        let legal = cfg.lanes.clone();
        cfg.lanes = (0..4u8).flat_map(|c| (0..7u8).map(move |i| words::ob_id(c, i))).collect();
        let forms: Vec<u32> = (0..128).collect();
        for form in forms {
            // padding of 1..3 bytes before chip j; for a quarter of the forms also a BUSY ON / BUSY OFF word in front of
            // 0..3 padding bytes (busy words between chip frames are legal and carry no data)
            let busy: Vec<(usize, u8)> = if form % 4 == 1 { (1..7usize).flat_map(|j| [0x40u8, 0x80].into_iter().flat_map(move |b| (0..=3u8).map(move |k| (j, b | k)))).collect() } else { vec![] };
            for (pad_chip, pad) in std::iter::once((0usize, 0u8)).chain((1..7usize).flat_map(|j| (1..=3u8).map(move |k| (j, k)))).chain(busy.into_iter()) {
                for bad in [false, true] {
                    let mut lanes: Vec<LaneSpec> = legal.iter().map(|id| ob_lane(*id, 0x33, &[ha[0]], &(0..7).collect::<Vec<u8>>())).collect();
                    for (j, c) in lanes[2].chips.iter_mut().enumerate() {
                        if form & (1 << j) != 0 {
                            c.empty = true;
                            c.hits.clear();
                        }
                        if j == pad_chip {
                            c.pad_before = pad;
                        }
                    }
                    if bad {
                        lanes[2].chips[6].bc = 0x34;
                    }
                    let f = FrameSpec { lanes, nodata_before: false, split: None };
                    let want = expected_codes(&f, &none, &stave_key());
                    v.push(Case { label: format!("OL lane form {form:#09b} pad {pad} before chip {pad_chip}{}", if bad { " (last chip BC differs)" } else { "" }), cfg: cfg.clone(), key: stave_key(), frames: vec![f], want: vec![Some(want)] });
                }
            }
        }
    }
    // ---- every bunch-counter value (a byte that may look like an ALPIDE control word) x chip forms
    for bc in 0..=255u8 {
        for form in 0..3u8 {
            // 0: all chip-empty frames, 1: all header + one hit + trailer, 2: lane 3 empty, lanes 4,5 with hits
            let lanes: Vec<LaneSpec> = [3u8, 4, 5]
                .iter()
                .map(|l| {
                    let hits: &[Hit] = if form == 0 || (form == 2 && *l == 3) { &[] } else { &ha[0..1] };
                    ib_lane(*l, bc, hits, None)
                })
                .collect();
            let f = FrameSpec { lanes, nodata_before: false, split: None };
            let want = expected_codes(&f, &none, &stave_key());
            v.push(Case { label: format!("IB bunch counter {bc:#04x}, chip form {form}"), cfg: ib_cfg(), key: stave_key(), frames: vec![f], want: vec![Some(want)] });
        }
    }
    // ---- fatal-lane memory: sequences of frames, each lane normal (N) / fatal (F) / absent (A)
    // quick: every sequence of up to 2 frames, and the sequences of 3 and 4 frames in which at most one lane changes
    // its role per step is not enough for "A fatal, B fatal, A fatal again, then the rest alone": depth 3 complete in
    // quick plus the 4-frame family below; thorough: depth 4 complete
    let depth = if tier.is_thorough() { 4 } else { 3 };
    let mut fseqs: Vec<Vec<[u8; 3]>> = vec![vec![]];
    for _ in 0..depth {
        let mut next = Vec::new();
        for s in &fseqs {
            if s.len() + 1 > depth {
                continue;
            }
            for code in 0..27u8 {
                let st = [code % 3, (code / 3) % 3, code / 9];
                if st.iter().all(|x| *x == 2) {
                    continue; // a frame without any lane is the E701 case (below)
                }
                let mut t = s.clone();
                t.push(st);
                next.push(t);
            }
        }
        fseqs.extend(next);
        fseqs.retain(|s| !s.is_empty() || true);
    }
    fseqs.retain(|s| !s.is_empty());
    if !tier.is_thorough() {
        // 4-frame family: three frames in which lanes announce fatal states in every order with repetition (each frame:
        // one lane fatal, the others as they are), then every possible fourth frame
        for a in 0..3usize {
            for b2 in 0..3usize {
                for c in 0..3usize {
                    let mut frames: Vec<[u8; 3]> = Vec::new();
                    let mut gone = [false; 3];
                    for f in [a, b2, c] {
                        let mut st = [0u8; 3];
                        for l in 0..3 {
                            st[l] = if l == f { 1 } else if gone[l] { 2 } else { 0 };
                        }
                        gone[f] = true;
                        frames.push(st);
                    }
                    for code in 0..27u8 {
                        let st = [code % 3, (code / 3) % 3, code / 9];
                        if st.iter().all(|x| *x == 2) {
                            continue;
                        }
                        let mut t = frames.clone();
                        t.push(st);
                        fseqs.push(t);
                    }
                }
            }
        }
    }
    fseqs.sort();
    fseqs.dedup();
    for (s, base) in fseqs.iter().flat_map(|s| [0u8, 3, 6].into_iter().map(move |b| (s.clone(), b))) {
        let mut frames = Vec::new();
        let mut want = Vec::new();
        let mut fatal_before: BTreeSet<u8> = BTreeSet::new();
        for st in &s {
            let mut lanes = Vec::new();
            for (l, x) in st.iter().enumerate() {
                match x {
                    0 => lanes.push(ib_lane(base + l as u8, 0x50, &[ha[0]], None)),
                    1 => lanes.push(LaneSpec { id: words::ib_id(base + l as u8), chips: vec![], prefix: vec![alpide::APE_DET_TIMEOUT] }),
                    _ => {}
                }
            }
            let f = FrameSpec { lanes, nodata_before: false, split: None };
            // a lane that announced a fatal state earlier and is present again, or announces it in this very frame
            // while all lanes are present: the documents do not say how such a frame is counted -> abstain
            let fatal_now: BTreeSet<u8> = st.iter().enumerate().filter(|(_, x)| **x == 1).map(|(l, _)| base + l as u8).collect();
            let present: BTreeSet<u8> = st.iter().enumerate().filter(|(_, x)| **x != 2).map(|(l, _)| base + l as u8).collect();
            let reappears = present.iter().any(|l| fatal_before.contains(l));
            if reappears || !fatal_now.is_empty() {
                want.push(None);
            } else {
                want.push(Some(expected_codes(&f, &fatal_before, &stave_key())));
            }
            fatal_before.extend(fatal_now);
            frames.push(f);
        }
        let mut cfg = ib_cfg();
        cfg.bc_step = 0x10;
        v.push(Case { label: format!("fatal-lane sequence {:?} (0 normal, 1 fatal APE, 2 absent per lane; lanes {}..{})", s, base, base + 2), cfg, key: stave_key(), frames, want });
    }
    // ---- protocol-extension words that are warnings, not fatal states (0xF2 strip start, 0xFD and 0xFE data missing),
    //      in front of the chip data of one lane, followed by an ordinary frame: the lane stays what it is
    for ape in [alpide::APE_STRIP_START, alpide::APE_PE_DATA_MISSING, alpide::APE_OOT_DATA_MISSING] {
        for lane_ix in 0..3usize {
            for twice in [false, true] {
                let mk = |with: bool| -> FrameSpec {
                    let mut lanes: Vec<LaneSpec> = [3u8, 4, 5].iter().map(|l| ib_lane(*l, 0x52, &[ha[0]], None)).collect();
                    if with {
                        lanes[lane_ix].prefix = if twice { vec![ape, ape] } else { vec![ape] };
                    }
                    FrameSpec { lanes, nodata_before: false, split: None }
                };
                let f0 = mk(true);
                let f1 = mk(false);
                let want = vec![Some(expected_codes(&f0, &none, &stave_key())), Some(expected_codes(&f1, &none, &stave_key()))];
                let mut cfg = ib_cfg();
                cfg.bc_step = 0x10;
                v.push(Case { label: format!("IB lane {} with the warning word {ape:#04x}{} in front of its chip data, then an ordinary frame", 3 + lane_ix, if twice { " twice" } else { "" }), cfg, key: stave_key(), frames: vec![f0, f1], want });
            }
        }
    }
    // ---- fatal-lane memory across groups: a lane of group G announces a fatal state; afterwards a frame of two lanes
    //      that belong to ANOTHER group (right count - one lane is excused -, but the excused lane is not of their
    //      group: invalid grouping), framed by legal frames of G without the fatal lane
    for g in 0..3u8 {
        for fl in 0..3u8 {
            for g2 in (0..3u8).filter(|x| *x != g) {
                for skip in 0..3u8 {
                    let base = g * 3;
                    let fatal = base + fl;
                    let normal = |l: u8| ib_lane(l, 0x50, &[ha[0]], None);
                    let f0 = FrameSpec { lanes: (0..3).map(|l| normal(base + l)).collect(), nodata_before: false, split: None };
                    let f1 = FrameSpec { lanes: (0..3).map(|l| if base + l == fatal { LaneSpec { id: words::ib_id(fatal), chips: vec![], prefix: vec![alpide::APE_DET_TIMEOUT] } } else { normal(base + l) }).collect(), nodata_before: false, split: None };
                    let rest = FrameSpec { lanes: (0..3).filter(|l| base + l != fatal).map(|l| normal(base + l)).collect(), nodata_before: false, split: None };
                    let other = FrameSpec { lanes: (0..3).filter(|l| *l != skip).map(|l| normal(g2 * 3 + l)).collect(), nodata_before: false, split: None };
                    let none: BTreeSet<u8> = BTreeSet::new();
                    let fb: BTreeSet<u8> = [fatal].into_iter().collect();
                    let want = vec![Some(expected_codes(&f0, &none, &stave_key())), None, Some(expected_codes(&rest, &fb, &stave_key())), Some(expected_codes(&other, &fb, &stave_key())), Some(expected_codes(&rest, &fb, &stave_key()))];
                    let mut cfg = ib_cfg();
                    cfg.bc_step = 0x10;
                    v.push(Case { label: format!("fatal lane {fatal}, then lanes of group {g2} without its lane {} (two lanes of another group)", g2 * 3 + skip), cfg, key: stave_key(), frames: vec![f0, f1, rest.clone(), other, rest], want });
                }
            }
        }
    }
    v
}

/// Marks the middle/outer-barrel cases in which a lane that never announced a fatal state is missing while a lane that
/// did announce one is present (their own signature: known finding F20).
const EXCUSED_MARK: &str = "[missing lane beside a returned fatal lane]";

fn run_case(c: &Case) -> Vec<(String, String)> {
    let b = build(&c.cfg, &c.frames);
    let o = observe(&c.key, &b);
    let mut out = Vec::new();
    if let Some(p) = &o.panic {
        out.push((format!("panic:{}", val::panic_site(p)), format!("{p} [{}]", c.label)));
        return out;
    }
    for (fi, w) in c.want.iter().enumerate() {
        let Some(w) = w else { continue };
        let got: BTreeSet<String> = o.frame_codes.iter().filter(|(i, _)| *i == fi).map(|(_, c)| c.clone()).collect();
        if &got != w {
            let missed: Vec<&String> = w.difference(&got).collect();
            let extra: Vec<&String> = got.difference(w).collect();
            let kind = if !missed.is_empty() { format!("missed:{}", missed[0]) } else { format!("false-alarm:{}", extra[0]) };
            let kind = if c.label.contains(EXCUSED_MARK) && kind == "missed:E73" { "missed:E73:missing-lane-excused-by-the-fatal-state-of-another-lane".to_string() } else { kind };
            out.push((format!("frame:{kind}"), format!("frame {fi} at {:#x}: documented rules give {:?}, reported at the frame start {:?}; other messages {:?} [{}]", b.starts[fi], w, got, o.other.iter().take(2).collect::<Vec<_>>(), c.label)));
        }
    }
    // frame-level messages must sit at a frame start: anything with those codes elsewhere is in `other`
    for m in &o.other {
        if ["[E72] FEE", "[E73] FEE", "[E74]", "[E75]", "[E701]"].iter().any(|t| m.contains(t)) {
            let code = rules::parse_error_message(m).and_then(|x| x.1.first().cloned()).unwrap_or_default();
            out.push((format!("frame:offset-not-frame-start:{code}"), format!("frame-level message not at the frame's start offset (frame TDHs at {:x?}): {m} [{}]", b.starts, c.label)));
        }
    }
    out
}

pub fn run(tier: Tier) -> i32 {
    val::init_process();
    let mut rep = Reporter::new("C13", tier, "model_checking");
    let cs = cases(tier);
    let res = par_map(&cs, |_, c| run_case(c));
    let mut flagged = 0u64;
    let mut frames_total = 0u64;
    for (c, r) in cs.iter().zip(res.iter()) {
        frames_total += c.frames.len() as u64;
        if c.want.iter().any(|w| w.as_ref().map_or(false, |s| !s.is_empty())) {
            flagged += 1;
        }
        for (sig, d) in r {
            rep.violation(Violation { signature: sig.clone(), description: d.clone(), replay: json!({"label": c.label}) });
        }
    }
    // hit-content invariance of the readout-flag counters and of the verdict: group the hit cases
    let hit_cases: Vec<&Case> = cs.iter().filter(|c| c.label.trim_start_matches("[TDT status flags set] ").starts_with("IB hits")).collect();
    let stats = par_map(&hit_cases, |_, c| {
        let b = build(&c.cfg, &c.frames);
        let o = observe(&c.key, &b);
        (c.label.ends_with("(lane BC differs)"), o.alpide_stats, o.frame_codes.iter().map(|x| x.1.clone()).collect::<BTreeSet<String>>())
    });
    for bad in [false, true] {
        let group: Vec<&(bool, String, BTreeSet<String>)> = stats.iter().filter(|s| s.0 == bad).collect();
        let distinct_stats: BTreeSet<&String> = group.iter().map(|s| &s.1).collect();
        let distinct_verdicts: BTreeSet<&BTreeSet<String>> = group.iter().map(|s| &s.2).collect();
        if distinct_stats.len() > 1 {
            rep.violation(Violation { signature: "frame:readout-flags-depend-on-hit-content".into(), description: format!("{} distinct ALPIDE statistics over {} hit contents of the same frame: {:?}", distinct_stats.len(), group.len(), distinct_stats.iter().take(2).collect::<Vec<_>>()), replay: json!({"group": bad}) });
        }
        if distinct_verdicts.len() > 1 {
            rep.violation(Violation { signature: "frame:verdict-depends-on-hit-content".into(), description: format!("{} distinct verdicts over {} hit contents of the same frame", distinct_verdicts.len(), group.len()), replay: json!({"group": bad}) });
        }
    }
    // ---- the same verdicts from the real multi-threaded binary, shown and muted (muting changes the display only):
    //      every 7th single-frame case without custom checks (all of the IB chip / bunch-counter variants)
    let cli_cases: Vec<&Case> = cs
        .iter()
        .enumerate()
        .filter(|(i, c)| c.frames.len() == 1 && c.key == stave_key() && c.want[0].is_some() && (i % 7 == 0 || { let l = c.label.trim_start_matches("[TDT status flags set] "); l.starts_with("IB one lane") || l.starts_with("IB chip id") || l.starts_with("layer") }))
        .map(|(_, c)| c)
        .collect();
    let cli_res = par_map(&cli_cases, |_, c| {
        let b = build(&c.cfg, &c.frames);
        let bytes: Vec<u8> = b.packets.iter().flat_map(|(h, p, _)| h.iter().chain(p.iter()).copied().collect::<Vec<u8>>()).collect();
        let mut out = Vec::new();
        for mute in [false, true] {
            let scratch = fp_harness::cli::Scratch::new("c13");
            let st = scratch.join("st.json");
            let mut a = vec![scratch.file("in.raw", &bytes).display().to_string(), "check".into(), "all".into(), "its-stave".into(), "-S".into(), st.display().to_string(), "-D".into(), "json".into()];
            if mute {
                a.push("-m".into());
            }
            let r = fp_harness::cli::Run::new(&a).cwd(&scratch.path).run();
            let v: Option<serde_json::Value> = std::fs::read_to_string(&st).ok().and_then(|t| serde_json::from_str(&t).ok());
            let codes: BTreeSet<String> = v
                .as_ref()
                .and_then(|v| v["error_stats"]["reported_errors"].as_array().cloned())
                .unwrap_or_default()
                .iter()
                .filter_map(|m| m.as_str().and_then(rules::parse_error_message))
                .filter(|(off, _)| *off == b.starts[0])
                .flat_map(|(_, cs)| cs.into_iter().filter(|c| matches!(c.as_str(), "E72" | "E73" | "E74" | "E75")))
                .collect();
            out.push((r.crashed(), v.is_some(), codes));
        }
        out
    });
    for (c, r) in cli_cases.iter().zip(cli_res.iter()) {
        let want = c.want[0].as_ref().unwrap();
        for (mi, (crashed, have, codes)) in r.iter().enumerate() {
            let what = if mi == 1 { "muted" } else { "shown" };
            if *crashed || !*have {
                rep.violation(Violation { signature: format!("frame:cli-run-failed:{what}"), description: format!("no statistics from the CLI run [{}]", c.label), replay: json!({"label": c.label}) });
            } else if codes != want {
                let kind = if want.difference(codes).next().is_some() { format!("missed:{}", want.difference(codes).next().unwrap()) } else { format!("false-alarm:{}", codes.difference(want).next().unwrap()) };
                rep.violation(Violation { signature: format!("frame:cli-{what}:{kind}"), description: format!("real binary ({what}): frame codes at the frame start {:?}, documented rules give {:?} [{}]", codes, want, c.label), replay: json!({"label": c.label, "muted": mi == 1}) });
            }
        }
    }
    rep.cov("cli_frame_cases_shown_and_muted", json!(cli_cases.len()));
    rep.cov("states", json!(frames_total));
    rep.cov("transitions", json!(frames_total));
    rep.cov("traces_validated_against_impl", json!(cs.len()));
    rep.cov("evaluations", json!(cs.len()));
    rep.cov("distinct_nontrivial", json!(flagged));
    rep.cov("hit_content_cases", json!(hit_cases.len()));
    rep.cov("exhaustive", json!(true));
    rep.cov("rule", json!("IB: all 255 lane subsets of size <= 4; chip id / count / bunch-counter variants; every hit sequence of length <= 2 (3 thorough) over a 11-symbol alphabet on a valid and on an invalid frame, with splits over pages and a preceding no-data TDH in rotation; ML/OL layers 3..6: legal, one lane missing, one extra, 6/8 chips, permuted order, chip / lane bunch counter differs, with and without custom chip count/order; every sequence of <= 2 (3 thorough) IB frames with each lane normal / fatal / absent"));
    rep.sample(json!({"case": cs[300.min(cs.len() - 1)].label}));
    rep.sample(json!({"case": cs[cs.len() - 1].label}));
    rep.assume("abstained (documents do not settle it): frames in which a lane that announced a fatal state is itself present (in the announcing frame or later)");
    rep.assume("hit values come from a finite alphabet chosen so that hit bytes look like chip headers, trailers, empty frames and APEs");
    rep.finish()
}

pub fn replay(v: &serde_json::Value) -> i32 {
    val::init_process();
    let label = v["replay"]["label"].as_str().unwrap_or("");
    for tier in [Tier::Quick, Tier::Thorough] {
        if let Some(c) = cases(tier).into_iter().find(|c| c.label == label) {
            let r = run_case(&c);
            for (s, d) in &r {
                println!("REPLAY: {s}: {d}");
            }
            return if r.is_empty() { 0 } else { 1 };
        }
    }
    2
}
