//! C16 — exit status and error accounting follow the documented contract.
//!
//! CLI enumeration: input classes {clean, k errors, fatal framing error at every packet index, non-ALICE bytes,
//! missing file, empty, < 8 bytes} x option menu {-E n, -m, -w code lists incl. prefixes of other codes, -e N around
//! the true count, each invalid combination named by the property} against the contract table; and the display
//! filter in-process on all (filter, message code) pairs.
use crate::c02::{self, split_cli_errors, strip_ansi, witnesses};
use crate::faults;
use fastpasta::stats::err_printer::ErrPrinter;
use fp_harness::cli::{Run, Scratch};
use fp_harness::par::par_map;
use fp_harness::{Reporter, Tier, Violation};
use fp_model::grammar;
use fp_model::rules;
use fp_model::stream;
use fp_model::util::hex;
use serde_json::{json, Value};

#[derive(Clone, Debug)]
enum Input {
    Bytes(Vec<u8>),
    Missing,
}

#[derive(Clone, Debug)]
struct Case {
    label: String,
    input: Input,
    args: Vec<String>,
    /// expected exit status class
    exit: Exit,
    /// expected total errors (report + statistics file), if defined
    total: Option<u64>,
    /// expected number of ERROR lines that carry an error code (None = not judged)
    shown: Option<Shown>,
    /// files (relative to the scratch directory) that must NOT exist afterwards
    must_not_exist: Vec<&'static str>,
}

#[derive(Clone, Debug, PartialEq)]
enum Exit {
    Code(i32),
    NonZero,
    /// the configured code iff the run reported an error (an ERROR line on stderr), otherwise 0 - whatever the mode
    IffReported(i32),
}

#[derive(Clone, Debug, PartialEq)]
enum Shown {
    Exactly(u64),
    AtMost(u64),
    /// exactly the messages whose code is in the list
    Codes(Vec<String>),
    /// exactly N, unless the invocation was rejected as invalid (exit 2 from the argument parser, nothing analysed)
    ExactlyIfAccepted(u64),
}

fn run_case(c: &Case) -> Option<(String, String)> {
    let scratch = Scratch::new("c16");
    let mut a: Vec<String> = Vec::new();
    match &c.input {
        Input::Bytes(b) => a.push(scratch.file("in.raw", b).display().to_string()),
        Input::Missing => a.push(scratch.join("does-not-exist.raw").display().to_string()),
    }
    let statp = scratch.join("st.json");
    for x in &c.args {
        if let Some(t) = x.strip_prefix("@TOMLTEXT:") {
            a.push(scratch.file("checks.toml", t.replace(';', "\n").as_bytes()).display().to_string());
        } else {
            a.push(x.replace("@STATS", &statp.display().to_string()));
        }
    }
    let r = Run::new(&a).cwd(&scratch.path).run();
    if r.crashed() {
        return Some(("crash".into(), format!("signal {:?} timeout {}: {}", r.signal, r.timed_out, r.stderr_str().lines().find(|l| l.contains("panicked")).unwrap_or(""))));
    }
    // a spelling that the argument parser refuses (usage error, nothing analysed, nothing printed) is no finding
    if matches!(c.shown, Some(Shown::ExactlyIfAccepted(_))) && r.status == Some(2) && r.stdout.is_empty() {
        return None;
    }
    // "reported": an ERROR line on stderr, or (modes that display no errors, e.g. views) the statistics file
    let stats_reported = std::fs::read_to_string(&statp).ok().and_then(|t| serde_json::from_str::<Value>(&t).ok()).map_or(false, |st| {
        st["error_stats"]["total_errors"].as_u64().unwrap_or(0) > 0 || !st["error_stats"]["fatal_error"].is_null()
    });
    let reported = stats_reported || r.stderr_str().lines().any(|l| strip_ansi(l).trim_start().starts_with("ERROR"));
    match (&c.exit, r.status) {
        (Exit::IffReported(n), Some(s)) if s == if reported { *n } else { 0 } => {}
        (Exit::IffReported(n), got) => return Some(("exit-status:errors-reported-vs-exit".into(), format!("exit status {:?} although an error was{} reported and -E {n} is set", got, if reported { "" } else { " not" }))),
        (Exit::Code(n), Some(s)) if *n == s => {}
        (Exit::NonZero, Some(s)) if s != 0 => {}
        (want, got) => return Some(("exit-status".into(), format!("exit status {:?}, contract says {:?}", got, want))),
    }
    for f in &c.must_not_exist {
        if scratch.join(f).exists() {
            return Some(("output-written-by-rejected-invocation".into(), format!("{f} exists although the invocation was rejected")));
        }
    }
    let msgs = split_cli_errors(&r.stderr_str());
    // messages that carry an error code (custom-check messages have a code but no offset)
    let coded: Vec<(u64, Vec<String>)> = msgs
        .iter()
        .filter_map(|m| match rules::parse_error_message(m) {
            Some(x) if !x.1.is_empty() => Some(x),
            _ => {
                let i = m.find("[E")?;
                let j = m[i..].find(']')?;
                let c = &m[i + 1..i + j];
                if c.len() >= 3 && c[1..].chars().all(|ch| ch.is_ascii_digit()) {
                    Some((0, vec![c.to_string()]))
                } else {
                    None
                }
            }
        })
        .collect();
    if let Some(t) = c.total {
        let out = strip_ansi(&r.stdout_str());
        let row = out.lines().find(|l| l.contains("Total Errors")).map(|l| l.split("Total Errors").nth(1).unwrap_or("").split_whitespace().next().unwrap_or("").to_string());
        if row.as_deref() != Some(&t.to_string()) {
            return Some(("report-total".into(), format!("report shows Total Errors {:?}, {} messages exist", row, t)));
        }
        if let Ok(txt) = std::fs::read_to_string(&statp) {
            let st: Value = serde_json::from_str(&txt).unwrap_or(Value::Null);
            if st["error_stats"]["total_errors"].as_u64() != Some(t) {
                return Some(("stats-total".into(), format!("statistics total_errors = {}, expected {t}", st["error_stats"]["total_errors"])));
            }
        }
    }
    match &c.shown {
        None => {}
        Some(Shown::Exactly(n)) | Some(Shown::ExactlyIfAccepted(n)) => {
            if coded.len() as u64 != *n {
                return Some(("shown-count".into(), format!("{} error messages shown, expected {n}", coded.len())));
            }
        }
        Some(Shown::AtMost(n)) => {
            if coded.len() as u64 > *n {
                return Some(("cap-exceeded".into(), format!("{} error messages shown with an error cap of {n}", coded.len())));
            }
        }
        Some(Shown::Codes(list)) => {
            // every shown message has a listed code; the count equals the number of produced messages with a listed code
            for (_, codes) in &coded {
                if !list.contains(&codes[0][1..].to_string()) {
                    return Some(("code-filter:unlisted-code-shown".into(), format!("message with code {} shown although the filter is {:?}", codes[0], list)));
                }
            }
        }
    }
    None
}

fn s(v: &[&str]) -> Vec<String> {
    v.iter().map(|x| x.to_string()).collect()
}

pub fn run(tier: Tier) -> i32 {
    let mut rep = Reporter::new("C16", tier, "exploration");
    let ws = witnesses();
    let w = &ws[0];
    let clean = grammar::interleave(&w.links, &w.order);
    let clean_bytes = clean.bytes();
    let cat = faults::catalogue();
    let mut cases: Vec<Case> = Vec::new();
    let stats_args = s(&["-S", "@STATS", "-D", "json"]);
    // ---- clean input: exit 0 whatever -E says
    for e in ["", "1", "2", "127", "255"] {
        for mode in [s(&["check", "sanity"]), s(&["check", "all", "its"]), s(&["view", "rdh"])] {
            let mut a = mode.clone();
            if !e.is_empty() {
                a.extend(s(&["-E", e]));
            }
            cases.push(Case { label: format!("clean -E {e}"), input: Input::Bytes(clean_bytes.clone()), args: a, exit: Exit::Code(0), total: None, shown: Some(Shown::Exactly(0)), must_not_exist: vec![] });
        }
    }
    // ---- k errors (each fault = exactly one message in check sanity)
    for k in [1usize, 2, 21] {
        let mut pk = clean.packets.clone();
        let step = ((pk.len() - 1) / k).max(1);
        let npk = pk.len();
        for j in 0..k {
            pk[1 + (j * step) % (npk - 1)].1.packet.rdh.rdh3_reserved = 0x0101;
        }
        // distinct RDHs: recount
        let faulty = pk.iter().filter(|(_, p)| p.packet.rdh.rdh3_reserved != 0).count() as u64;
        let b: Vec<u8> = pk.iter().flat_map(|(_, p)| p.packet.bytes()).collect();
        for e in [None, Some(1), Some(2), Some(127), Some(255)] {
            for disp in ["none", "mute", "cap-below", "cap-equal", "cap-above", "codes-match", "codes-nomatch"] {
                let mut a = s(&["check", "sanity"]);
                a.extend(stats_args.clone());
                if let Some(n) = e {
                    a.extend(s(&["-E", &n.to_string()]));
                }
                let mut total = Some(faulty);
                let shown = match disp {
                    "none" => Some(Shown::Exactly(faulty)),
                    "mute" => {
                        a.push("-m".into());
                        Some(Shown::Exactly(0))
                    }
                    "cap-below" => {
                        if faulty < 2 {
                            continue;
                        }
                        a.extend(s(&["-e", &(faulty - 1).to_string()]));
                        total = None; // processing stops at the cap
                        Some(Shown::AtMost(faulty - 1))
                    }
                    "cap-equal" => {
                        a.extend(s(&["-e", &faulty.to_string()]));
                        total = None;
                        Some(Shown::AtMost(faulty))
                    }
                    "cap-above" => {
                        a.extend(s(&["-e", &(faulty + 1).to_string()]));
                        Some(Shown::Exactly(faulty))
                    }
                    "codes-match" => {
                        a.extend(s(&["-w", "10"]));
                        Some(Shown::Exactly(faulty))
                    }
                    _ => {
                        a.extend(s(&["-w", "1", "100", "11"]));
                        Some(Shown::Exactly(0))
                    }
                };
                let exit = match e {
                    Some(n) => Exit::Code(n),
                    None => Exit::Code(0),
                };
                cases.push(Case { label: format!("{faulty} errors, display {disp}, -E {:?}", e), input: Input::Bytes(b.clone()), args: a, exit, total, shown, must_not_exist: vec![] });
            }
        }
    }
    // ---- thorough: every -E value 1..=255 x {clean, one error, muted error, fatal framing error}
    if tier.is_thorough() {
        let mut pk = clean.packets.clone();
        pk[1].1.packet.rdh.rdh3_reserved = 0x0101;
        let one: Vec<u8> = pk.iter().flat_map(|(_, p)| p.packet.bytes()).collect();
        let (walked, _) = stream::walk(&clean_bytes);
        let mut fatal = clean_bytes.clone();
        fatal[walked[2].offset as usize + 8] = 16;
        fatal[walked[2].offset as usize + 9] = 0;
        for n in 1..=255u32 {
            let e = n.to_string();
            cases.push(Case { label: format!("every -E: clean -E {n}"), input: Input::Bytes(clean_bytes.clone()), args: s(&["check", "all", "its", "-E", &e]), exit: Exit::Code(0), total: None, shown: Some(Shown::Exactly(0)), must_not_exist: vec![] });
            cases.push(Case { label: format!("every -E: one error -E {n}"), input: Input::Bytes(one.clone()), args: s(&["check", "sanity", "-E", &e]), exit: Exit::Code(n as i32), total: None, shown: Some(Shown::Exactly(1)), must_not_exist: vec![] });
            cases.push(Case { label: format!("every -E: one muted error -E {n}"), input: Input::Bytes(one.clone()), args: s(&["check", "sanity", "-m", "-E", &e]), exit: Exit::Code(n as i32), total: None, shown: Some(Shown::Exactly(0)), must_not_exist: vec![] });
            cases.push(Case { label: format!("every -E: fatal framing error -E {n}"), input: Input::Bytes(fatal.clone()), args: s(&["check", "all", "its", "-E", &e]), exit: Exit::Code(n as i32), total: None, shown: None, must_not_exist: vec![] });
        }
        for bad in ["0", "256", "-1", "1000"] {
            cases.push(Case { label: format!("invalid: -E {bad}"), input: Input::Bytes(clean_bytes.clone()), args: s(&["check", "all", "-E", bad, "-S", "st.json", "-D", "json"]), exit: Exit::NonZero, total: None, shown: Some(Shown::Exactly(0)), must_not_exist: vec!["st.json"] });
        }
    }
    // ---- mixed codes incl. codes that are prefixes of other codes: E44 / E444 / E445 / E40 / E41
    let mut mixed_stream: Vec<u8> = Vec::new();
    {
        let mut names = vec!["tdh.trigger type != RDH trigger on page 0", "tdh.orbit != RDH orbit", "tdh.bc != RDH bc on page 0", "tdh.reserved bit 15", "tdh.continuation clear on continuation page", "rdh.bc=0xdec", "running.page counter +4"];
        if !tier.is_thorough() {
            names.truncate(7);
        }
        // apply all of them at different sites of the witness
        let mut cur = c02::Witness { name: w.name, links: w.links.clone(), order: w.order.clone(), stave: false };
        for (i, n) in names.iter().enumerate() {
            let f = cat.iter().find(|f| f.name == *n).unwrap();
            let sites = c02::sites(&cur, f);
            if sites.is_empty() {
                continue;
            }
            let site = sites[(i * 3) % sites.len()];
            let m = c02::mutate(&cur, f, site);
            // rebuild the witness links from the mutated packets (same order)
            let mut links: Vec<Vec<grammar::PacketT>> = vec![Vec::new(); cur.links.len()];
            for (k, (_, p)) in m.packets.iter().enumerate() {
                links[cur.order[k]].push(p.clone());
            }
            cur = c02::Witness { name: w.name, links, order: cur.order.clone(), stave: false };
        }
        let b = grammar::interleave(&cur.links, &cur.order).bytes();
        mixed_stream = b.clone();
        // reference run: which codes are produced, how many of each
        let scratch = Scratch::new("c16r");
        let r = Run::new(&[scratch.file("in.raw", &b).display().to_string(), "check".into(), "all".into(), "its".into()]).cwd(&scratch.path).run();
        let all: Vec<(u64, Vec<String>)> = split_cli_errors(&r.stderr_str()).iter().filter_map(|m| rules::parse_error_message(m)).filter(|x| !x.1.is_empty()).collect();
        let produced: Vec<String> = all.iter().map(|x| x.1[0][1..].to_string()).collect();
        let mut distinct = produced.clone();
        distinct.sort();
        distinct.dedup();
        let mut lists: Vec<Vec<String>> = vec![];
        for c in &distinct {
            lists.push(vec![c.clone()]);
        }
        for l in [vec!["4"], vec!["44"], vec!["444"], vec!["4", "44"], vec!["44", "10"], vec!["1"], vec!["0"], vec!["445", "41", "11"]] {
            lists.push(l.iter().map(|x| x.to_string()).collect());
        }
        // the same lists written otherwise: a code repeated in front, the list reversed, one `-w` per code
        let mut respelt: Vec<(Vec<String>, Vec<String>)> = Vec::new(); // (meaning, arguments after the mode)
        for l in lists.iter().filter(|l| l.len() >= 2) {
            let mut rep_front = vec![l[0].clone()];
            rep_front.extend(l.iter().cloned());
            respelt.push((l.clone(), std::iter::once("-w".to_string()).chain(rep_front).collect()));
            respelt.push((l.clone(), std::iter::once("-w".to_string()).chain(l.iter().rev().cloned()).collect()));
            respelt.push((l.clone(), l.iter().flat_map(|c| ["-w".to_string(), c.clone()]).collect()));
            respelt.push((l.clone(), vec![format!("--error-codes={}", l[0]), "-w".to_string(), l[1].clone()].into_iter().chain(l.iter().skip(2).flat_map(|c| ["-w".to_string(), c.clone()])).collect()));
        }
        if let Some(two) = distinct.get(0..2) {
            let l: Vec<String> = two.to_vec();
            let mut a3 = vec!["-w".to_string(), l[0].clone(), l[0].clone(), l[1].clone()];
            respelt.push((l.clone(), a3.clone()));
            a3.swap(1, 3);
            respelt.push((l.clone(), a3));
        }
        for (meaning, args) in respelt {
            let n = produced.iter().filter(|c| meaning.contains(c)).count() as u64;
            let mut a = s(&["check", "all", "its", "-E", "9"]);
            a.extend(args.iter().cloned());
            // a spelling the tool does not accept is no finding; an accepted one must mean the same list
            cases.push(Case { label: format!("mixed codes, filter {:?} spelt {:?}", meaning, args), input: Input::Bytes(b.clone()), args: a, exit: Exit::Code(9), total: None, shown: Some(Shown::ExactlyIfAccepted(n)), must_not_exist: vec![] });
        }
        for l in lists {
            let n = produced.iter().filter(|c| l.contains(c)).count() as u64;
            let mut a = s(&["check", "all", "its", "-E", "9", "-w"]);
            a.extend(l.iter().cloned());
            cases.push(Case { label: format!("mixed codes {:?}, filter {:?}", distinct, l), input: Input::Bytes(b.clone()), args: a.clone(), exit: Exit::Code(9), total: Some(produced.len() as u64), shown: Some(Shown::Codes(l.clone())), must_not_exist: vec![] });
            cases.push(Case { label: format!("mixed codes, filter {:?} count", l), input: Input::Bytes(b.clone()), args: a, exit: Exit::Code(9), total: None, shown: Some(Shown::Exactly(n)), must_not_exist: vec![] });
        }
    }
    // ---- a detector other than ITS (system id 3): the code filter works on its errors too
    {
        let mut b = clean_bytes.clone();
        let (walked, _) = stream::walk(&b);
        for w in &walked {
            b[w.offset as usize + 5] = 3;
        }
        {
            // reserved bits of RDH3 in the third RDH: [E10]
            let o = walked[2].offset as usize;
            let mut r = fp_model::rdh::Rdh::decode(&b[o..o + 64]);
            r.rdh3_reserved = 0x0101;
            b[o..o + 64].copy_from_slice(&r.encode());
        }
        for (codes, n) in [(vec!["10"], 1u64), (vec!["11"], 0), (vec!["10", "11"], 1), (vec!["1"], 0)] {
            for mode in [s(&["check", "sanity"]), s(&["check", "all"])] {
                let mut a = mode.clone();
                a.extend(s(&["-E", "9", "-w"]));
                a.extend(codes.iter().map(|c| c.to_string()));
                cases.push(Case { label: format!("non-ITS data with one E10, filter {:?}", codes), input: Input::Bytes(b.clone()), args: a, exit: Exit::Code(9), total: Some(1), shown: Some(Shown::Exactly(n)), must_not_exist: vec![] });
            }
        }
    }
    // ---- an error cap does not switch off the end-of-run custom checks: a `cdps` value no stream can have fails whether
    //      the run was cut short by the cap or not, is shown with `-w 9001` and sets the exit status
    for cap in ["1", "2", "4", "1000"] {
        let a = s(&["check", "all", "its", "-E", "9", "-e", cap, "-c", "@TOMLTEXT:cdps = 1000000", "-w", "9001"]);
        cases.push(Case { label: format!("custom-check failure with an error cap of {cap}"), input: Input::Bytes(mixed_stream.clone()), args: a, exit: Exit::Code(9), total: None, shown: Some(Shown::Exactly(1)), must_not_exist: vec![] });
        let a = s(&["check", "sanity", "-E", "9", "-e", cap, "-c", "@TOMLTEXT:cdps = 1000000", "-w", "9001"]);
        cases.push(Case { label: format!("custom-check failure on clean data with an error cap of {cap}"), input: Input::Bytes(clean_bytes.clone()), args: a, exit: Exit::Code(9), total: None, shown: Some(Shown::Exactly(1)), must_not_exist: vec![] });
    }
    // ---- four-digit codes: custom-check failures (E9001 / E9002) with code filters incl. their prefixes
    {
        let npk = clean.packets.len();
        let scratch_toml = |cdps: usize, pht: Option<usize>| {
            let mut t = format!("cdps = {cdps}\n");
            if let Some(p) = pht {
                t.push_str(&format!("triggers_pht = {p}\n"));
            }
            t
        };
        for (toml, ncustom) in [(scratch_toml(npk + 1, None), 1u64), (scratch_toml(npk + 1, Some(77)), 2), (scratch_toml(npk, None), 0)] {
            for (filter, shown) in [
                (vec![], ncustom),
                (vec!["9001"], ncustom.min(1)),
                (vec!["9002"], ncustom.saturating_sub(1)),
                (vec!["900"], 0),
                (vec!["90"], 0),
                (vec!["9001", "10"], ncustom.min(1)),
                (vec!["9002", "9001"], ncustom),
            ] {
                // check mode and, in rotation, the modes that print no report
                let mode_sel = [vec!["check", "sanity"], vec!["view", "rdh"], vec!["check", "all", "its"], vec!["view", "its-readout-frames"]][(ncustom as usize + filter.len()) % 4].clone();
                let in_view = mode_sel[0] == "view";
                let mut a = s(&mode_sel);
                a.extend(s(&["-E", "9", "-c", "@TOML"]));
                a.extend(stats_args.clone());
                if !filter.is_empty() {
                    a.push("-w".into());
                    a.extend(filter.iter().map(|x| x.to_string()));
                }
                cases.push(Case {
                    label: format!("custom-check failures {ncustom}, filter {:?}", filter),
                    input: Input::Bytes(clean_bytes.clone()),
                    args: a.iter().map(|x| x.replace("@TOML", &format!("@TOMLTEXT:{}", toml.replace('\n', ";")))).collect(),
                    exit: if ncustom > 0 { Exit::Code(9) } else { Exit::Code(0) },
                    total: if in_view { None } else { Some(ncustom) },
                    shown: if in_view { None } else { Some(Shown::Exactly(shown)) },
                    must_not_exist: vec![],
                });
            }
        }
    }
    // ---- fatal framing error at every packet index
    {
        let (walked, _) = stream::walk(&clean_bytes);
        for (i, wk) in walked.iter().enumerate() {
            if i == 0 {
                continue; // at packet 0 nothing at all can be processed: judged as unrecognisable input below
            }
            let mut b = clean_bytes.clone();
            b[wk.offset as usize + 8] = 16;
            b[wk.offset as usize + 9] = 0;
            for (e, exit) in [(None, Exit::Code(0)), (Some("9"), Exit::Code(9)), (Some("255"), Exit::Code(255))] {
                let mut a = s(&["check", "all", "its"]);
                if let Some(n) = e {
                    a.extend(s(&["-E", n]));
                }
                cases.push(Case { label: format!("fatal framing error at packet {i}, -E {:?}", e), input: Input::Bytes(b.clone()), args: a, exit, total: None, shown: None, must_not_exist: vec![] });
            }
        }
    }
    // ---- modes that print no report (views, data to stdout): the exit status follows the reported errors all the same
    {
        let (walked, _) = stream::walk(&clean_bytes);
        let mut fatal = clean_bytes.clone();
        fatal[walked[2].offset as usize + 8] = 16;
        fatal[walked[2].offset as usize + 9] = 0;
        let truncated = clean_bytes[..clean_bytes.len() - 9].to_vec();
        let mut sanity = clean.packets.clone();
        sanity[1].1.packet.rdh.rdh3_reserved = 0x0101;
        let sanity: Vec<u8> = sanity.iter().flat_map(|(_, p)| p.packet.bytes()).collect();
        let link = walked[0].rdh.link_id.to_string();
        for (label, b) in [("fatal framing error", &fatal), ("truncated last payload", &truncated), ("one RDH sanity fault", &sanity), ("clean", &clean_bytes)] {
            for mode in [s(&["view", "rdh"]), s(&["view", "its-readout-frames"]), s(&["view", "its-readout-frames-data"]), s(&["-f", &link, "-o", "stdout"]), s(&["-f", &link, "-o", "out.raw"]), s(&["check", "sanity"]), s(&["check", "all", "its"])] {
                for n in [7, 42] {
                    let mut a = mode.clone();
                    a.extend(s(&["-E", &n.to_string()]));
                    a.extend(stats_args.clone());
                    cases.push(Case { label: format!("no-report modes: {label}"), input: Input::Bytes(b.clone()), args: a, exit: Exit::IffReported(n), total: None, shown: None, must_not_exist: vec![] });
                }
            }
        }
    }
    // ---- stave mode, two FEE ids (staves 3 and 35 of layer 5) on one link id, delivered unit after unit and
    //      alternating per HBF; a lane bunch-counter mismatch on the first / the second / both FEEs: exit = N
    {
        let mk = |which: u8, alternate: bool| -> Vec<u8> {
            let mut units: Vec<Vec<grammar::PacketT>> = Vec::new();
            for (u, stave_no) in [(0u8, 3u8), (1, 35)] {
                let mut cfg = grammar::LinkCfg::ol(1 + u, stave_no, false);
                cfg.link_id = 1;
                cfg.bc_step = 0x40;
                let shapes: Vec<grammar::HbfShape> = grammar::stave_hbf_shapes(&cfg).into_iter().map(|s| s.1).collect();
                let mut pk = grammar::render_link(&cfg, &[shapes[0].clone(), shapes[2].clone(), shapes[0].clone()]);
                if which & (1 << u) != 0 {
                    'f: for p in pk.iter_mut() {
                        if let Some(wi) = p.words.iter().position(|w| w.kind == grammar::WKind::Data) {
                            let off = p.word_rel_offset(wi) as usize - 64;
                            p.packet.payload[off + 1] ^= 0x01;
                            break 'f;
                        }
                    }
                }
                units.push(pk);
            }
            let mut out = Vec::new();
            if alternate {
                // HBF-wise alternation: cut each unit at its stop packets
                let mut cur = [0usize; 2];
                while cur[0] < units[0].len() || cur[1] < units[1].len() {
                    for u in 0..2 {
                        while cur[u] < units[u].len() {
                            let p = &units[u][cur[u]];
                            out.extend(p.packet.bytes());
                            cur[u] += 1;
                            if p.packet.rdh.stop_bit == 1 {
                                break;
                            }
                        }
                    }
                }
            } else {
                for u in &units {
                    for p in u {
                        out.extend(p.packet.bytes());
                    }
                }
            }
            out
        };
        for alternate in [false, true] {
            for which in 0u8..4 {
                for (e, n) in [(None, 0), (Some("7"), 7)] {
                    let mut a = s(&["check", "all", "its-stave"]);
                    if let Some(x) = e {
                        a.extend(s(&["-E", x]));
                    }
                    let exit = if which == 0 { Exit::Code(0) } else { Exit::Code(n) };
                    cases.push(Case { label: format!("two FEE ids on one link (stave mode), lane fault on FEEs {which:#04b}, alternating {alternate}, -E {:?}", e), input: Input::Bytes(mk(which, alternate)), args: a, exit, total: None, shown: None, must_not_exist: vec![] });
                }
            }
        }
    }
    // ---- stave mode with a filter on a stream of mixed detectors: the first RDH (ITS, another link) is skipped by the
    //      filter, the selected link's packets carry another known system id (3 or 33) and an ALPIDE frame error: the
    //      error is reported and the exit status is N (the statistics thread used to panic here: F18)
    {
        for sys in [3u8, 33, 32] {
            let mut cfg = grammar::LinkCfg::ol(1, 3, false);
            cfg.bc_step = 0x40;
            let shapes: Vec<grammar::HbfShape> = grammar::stave_hbf_shapes(&cfg).into_iter().map(|s| s.1).collect();
            let mut pk = grammar::render_link(&cfg, &[shapes[0].clone(), shapes[2].clone()]);
            'f: for p in pk.iter_mut() {
                if let Some(wi) = p.words.iter().position(|w| w.kind == grammar::WKind::Data) {
                    let off = p.word_rel_offset(wi) as usize - 64;
                    p.packet.payload[off + 1] ^= 0x01;
                    break 'f;
                }
            }
            let mut first = fp_model::rdh::Rdh::base();
            first.link_id = 0;
            first.memory_size = 64;
            first.offset_next = 64;
            let mut bytes = first.encode().to_vec();
            for p in &pk {
                let mut b = p.packet.bytes();
                b[5] = sys;
                bytes.extend(b);
            }
            for filter in [s(&["--filter-link", "1"]), s(&["--filter-fee", &cfg.fee_id.to_string()])] {
                let mut a = s(&["check", "all", "its-stave"]);
                a.extend(filter);
                a.extend(s(&["-E", "7"]));
                cases.push(Case { label: format!("stave mode, filter skips the first (ITS) RDH, selected link has system id {sys}"), input: Input::Bytes(bytes.clone()), args: a, exit: Exit::Code(7), total: None, shown: None, must_not_exist: vec![] });
            }
        }
    }
    // ---- unreadable / unrecognisable input
    let text: Vec<u8> = b"hello world, this is not ALICE data, but it is longer than sixty-four bytes for sure......".to_vec();
    for (label, input) in [
        ("non-ALICE text", Input::Bytes(text)),
        ("missing file", Input::Missing),
        ("empty file", Input::Bytes(vec![])),
        ("3 bytes", Input::Bytes(vec![7, 0x40, 0])),
        ("RDH version 255", Input::Bytes({ let mut b = clean_bytes.clone(); b[0] = 255; b })),
    ] {
        for mode in [s(&["check", "sanity"]), s(&["view", "rdh"]), s(&["check", "all", "its", "-E", "9"])] {
            cases.push(Case { label: label.into(), input: input.clone(), args: mode, exit: Exit::NonZero, total: None, shown: None, must_not_exist: vec![] });
        }
    }
    // ---- invalid option combinations: rejected before any output is written
    let invalid: Vec<(&str, Vec<String>)> = vec![
        ("check sanity its-stave", s(&["check", "sanity", "its-stave", "-S", "st.json", "-D", "json"])),
        ("trigger period without stave filter", s(&["check", "all", "its-stave", "-p", "10", "-S", "st.json", "-D", "json"])),
        ("trigger period with its target", s(&["check", "all", "its", "-s", "L0_3", "-p", "10", "-S", "st.json", "-D", "json"])),
        ("trigger period without a check", s(&["view", "rdh", "-s", "L0_3", "-p", "10", "-S", "st.json", "-D", "json"])),
        ("-E 0", s(&["check", "all", "-E", "0", "-S", "st.json", "-D", "json"])),
        ("stats file with wrong extension", s(&["check", "all", "-i", "in.raw", "-S", "st.json", "-D", "json"])),
        ("stats file missing", s(&["check", "all", "-i", "nothing.json", "-S", "st.json", "-D", "json"])),
        ("stats output without format", s(&["check", "all", "-S", "st.json"])),
        ("output without filter", s(&["-o", "out.raw"])),
        ("two filters", s(&["-f", "0", "-F", "3", "-o", "out.raw"])),
    ];
    for (label, a) in invalid {
        cases.push(Case { label: format!("invalid: {label}"), input: Input::Bytes(clean_bytes.clone()), args: a, exit: Exit::NonZero, total: None, shown: Some(Shown::Exactly(0)), must_not_exist: vec!["st.json", "out.raw"] });
    }
    let res = par_map(&cases, |_, c| run_case(c));
    for (c, r) in cases.iter().zip(res.iter()) {
        if let Some((sig, d)) = r {
            let class = c.label.split(',').next().unwrap_or("").split(" -E").next().unwrap_or("").trim().replace(' ', "-");
            rep.violation(Violation {
                signature: format!("contract:{sig}:{}", class.chars().take(40).collect::<String>()),
                description: format!("{d} [{} | args {:?}]", c.label, c.args),
                replay: json!({"args": c.args, "input_hex": match &c.input { Input::Bytes(b) => hex(b), Input::Missing => "MISSING".into() }}),
            });
        }
    }
    // ---- option pairs: every subset of size <= 2 of an option menu x 2 check modes x {mixed-code stream, clean},
    //      judged against the reference run (same mode / filter / custom checks, no display option) by generic rules
    // a stave-mode stream with ALPIDE frames in which one lane carries another bunch counter than the others (E74),
    // one TDT reserved bit and one RDH sanity fault
    let stave_faulty: Vec<u8> = {
        let wsf = ws.iter().find(|x| x.name == "ib-fmt2-frames").expect("stave witness");
        let mut s = grammar::interleave(&wsf.links, &wsf.order);
        let mut done = 0;
        for (_, p) in s.packets.iter_mut() {
            if let Some(wi) = p.words.iter().position(|w| w.kind == grammar::WKind::Data) {
                if done == 0 || done == 3 {
                    let off = p.word_rel_offset(wi) as usize - 64;
                    p.packet.payload[off + 1] ^= 0x01; // bunch counter byte of the first chip of that lane
                }
                done += 1;
            }
        }
        s.packets[2].1.packet.rdh.rdh3_reserved = 0x0101;
        s.packets.iter().flat_map(|(_, p)| p.packet.bytes()).collect()
    };
    let pair_runs = option_pairs(&mut rep, &mixed_stream, &clean_bytes, &stave_faulty, clean.packets.len());
    rep.cov("option_pair_runs", json!(pair_runs));
    // ---- display filter in-process: all (filter code, message code) pairs
    let codes: Vec<&str> = vec!["10", "11", "12", "30", "40", "41", "42", "44", "440", "441", "442", "443", "444", "445", "45", "50", "59", "60", "70", "71", "72", "73", "74", "75", "81", "100", "101", "110", "111", "701", "990", "991", "992", "9001", "9002", "9003", "9004", "9005", "1", "4", "9", "99", "900"];
    let mut pairs = 0u64;
    let hook_guard = std::sync::Mutex::new(());
    let _g = hook_guard.lock();
    for f in &codes {
        for m in &codes {
            let msg: Box<str> = format!("0x40: [E{m}] something happened [00 01]").into();
            let msgs = vec![msg];
            let filter = vec![f.to_string()];
            let unique = vec![m.to_string()];
            // ErrPrinter prints through the logger; count via its pure helper by reproducing the same decision: the
            // message is shown iff the filter code survives minification and matches exactly
            let shown = printer_shows(&filter, &unique, &msgs);
            pairs += 1;
            if shown != (f == m) {
                rep.violation(Violation {
                    signature: format!("code-filter:{}", if shown { "prefix-matches" } else { "exact-code-hidden" }),
                    description: format!("filter code {f} vs message code E{m}: shown = {shown}"),
                    replay: json!({"filter": f, "code": m}),
                });
            }
        }
    }
    // ---- display filter and display cap together (real ErrPrinter, in-process): every message sequence of length
    //      <= 4 over the codes {10, 11, 44, 444} x every non-empty filter subset of {10, 11, 44, 444, 4} x caps
    //      {none, 1, 2, 3, 5}: shown = the first `cap` messages whose code is listed, in order
    let mut combos = 0u64;
    {
        let alphabet = ["10", "11", "44", "444"];
        let fcodes = ["10", "11", "44", "444", "4"];
        let seqs = crate::gen::sequences(&[0u8, 1, 2, 3], 4);
        'outer: for sq in seqs.iter().filter(|s| !s.is_empty()) {
            let msgs: Vec<Box<str>> = sq.iter().enumerate().map(|(i, c)| format!("{:#X}: [E{}] something happened [00 01]", 0x40 * (i + 1), alphabet[*c as usize]).into_boxed_str()).collect();
            let mut unique: Vec<String> = sq.iter().map(|c| alphabet[*c as usize].to_string()).collect();
            unique.sort();
            unique.dedup();
            for fm in 1u32..(1 << fcodes.len()) {
                let filter: Vec<String> = fcodes.iter().enumerate().filter(|(i, _)| fm & (1 << i) != 0).map(|(_, c)| c.to_string()).collect();
                // the list as given, and with its first code repeated in front (`-w 30 30 40`): same meaning
                for (cap, repeat) in [(None, false), (Some(1u32), false), (Some(2), false), (Some(3), false), (Some(5), false), (None, true), (Some(2), true)] {
                    let filter: Vec<String> = if repeat { std::iter::once(filter[0].clone()).chain(filter.iter().cloned()).collect() } else { filter.clone() };
                    capture::install();
                    capture::reset();
                    ErrPrinter::new(cap, Some(&filter)).print(msgs.iter(), &unique);
                    let shown: Vec<String> = capture::texts().iter().map(|t| strip_ansi(t)).collect();
                    let want: Vec<String> = msgs.iter().filter(|m| filter.iter().any(|f| m.contains(&format!("[E{f}]")))).take(cap.unwrap_or(u32::MAX) as usize).map(|m| m.to_string()).collect();
                    combos += 1;
                    if shown != want {
                        rep.violation(Violation {
                            signature: format!("code-filter+cap:{}", if shown.len() < want.len() { "listed-message-hidden" } else { "wrong-messages-shown" }),
                            description: format!("messages {:?}, filter {:?}, cap {:?}: shown {:?}, expected the first {} listed ones {:?}", msgs, filter, cap, shown, want.len(), want),
                            replay: json!({"filter": filter, "cap": cap, "codes": sq}),
                        });
                        break 'outer;
                    }
                }
            }
        }
    }
    // ---- the same invocation spelt otherwise: every option of `--help` in its short form, long form, with `=`, with
    //      each documented alias, and placed behind the sub-command; an accepted spelling behaves like the long form, a
    //      documented alias is accepted
    let spelling_runs = spelling_equivalence(&mut rep, &mixed_stream);
    rep.cov("spelling_runs", json!(spelling_runs));
    rep.cov("filter_cap_combinations", json!(combos));
    rep.cov("evaluations", json!(cases.len() as u64 + pairs + combos));
    rep.cov("cli_cases", json!(cases.len()));
    rep.cov("code_pairs", json!(pairs));
    rep.cov("distinct_nontrivial", json!(cases.iter().filter(|c| c.exit != Exit::Code(0)).count()));
    rep.cov("exhaustive", json!(true));
    rep.cov("rule", json!("contract table over: clean x 5 -E values x 3 modes; 1/2/21 errors x 5 -E values x 7 display options; a stream with mixed codes (E10, E11, E40, E41, E44, E444, E445, ...) x code lists incl. prefixes; a fatal framing error at every packet index x 3 -E values; {fatal framing error, truncated last payload, RDH sanity fault, clean} x 7 modes incl. the three views and data to stdout x 2 -E values with the oracle: exit = N iff an error was reported (ERROR line on stderr or errors / fatal error in the statistics file); 5 unreadable / unrecognisable inputs x 3 modes; 10 invalid option combinations (must not write st.json / out.raw); every subset of size <= 2 of an 11-atom option menu (-m, two -w lists, -e 2, -e 1000, -E 7, -S, -v 0, -f, -f -o, -c) x 2 check modes x {mixed-code stream, clean stream} and x check all its-stave on a stream with an ALPIDE lane bunch-counter mismatch, against its reference run (shown messages, exit status, statistics total); a matching / a mismatching earlier statistics file (-i) x 7 display option sets x -E 7 (exit status); all ordered pairs of 43 codes through the display filter; every message sequence of length <= 4 over 4 codes x 31 code-filter subsets x 5 display caps through the real ErrPrinter (shown = the first N listed messages); thorough: every -E value 1..=255 x {clean, one error, one muted error, fatal framing error} and -E 0 / 256 / -1 / 1000 rejected. non-trivial = the contract demands a non-zero exit"));
    rep.sample(json!({"case": cases[cases.len() / 2].label, "args": cases[cases.len() / 2].args}));
    rep.assume("with an error cap the run stops early: only 'at most N shown' and the exit status are judged, not the totals");
    rep.finish()
}

/// Options as the help text documents them: (short, long, takes a value, aliases).
fn documented_options() -> Vec<(Option<String>, String, bool, Vec<String>)> {
    let r = Run::new(&["--help"]).run();
    let help = strip_ansi(&r.stdout_str());
    let mut out: Vec<(Option<String>, String, bool, Vec<String>)> = Vec::new();
    for line in help.lines() {
        let t = line.trim_start();
        if t.starts_with('-') && line.starts_with("  ") && !line.starts_with("    ") || line.starts_with("      --") {
            let mut short = None;
            let mut long = None;
            let mut value = false;
            for tok in t.split([' ', ',']).filter(|x| !x.is_empty()) {
                if let Some(l) = tok.strip_prefix("--") {
                    long = Some(l.to_string());
                } else if tok.starts_with('-') && tok.len() == 2 {
                    short = Some(tok.to_string());
                } else if tok.starts_with('<') {
                    value = true;
                }
            }
            if let Some(l) = long {
                out.push((short, l, value, vec![]));
            }
        } else if let Some(i) = t.find("[aliases: ") {
            let list = &t[i + 10..t.rfind(']').unwrap_or(t.len())];
            if let Some(last) = out.last_mut() {
                last.3 = list.split(',').map(|x| x.trim().to_string()).filter(|x| !x.is_empty()).collect();
            }
        }
    }
    out
}

fn spelling_equivalence(rep: &mut Reporter, mixed: &[u8]) -> u64 {
    let opts = documented_options();
    if opts.len() < 10 {
        rep.machinery_error(format!("only {} options found in the help text", opts.len()));
        return 0;
    }
    let (walked, _) = stream::walk(mixed);
    let link = walked[0].rdh.link_id;
    let fee = walked[0].rdh.fee_id;
    // per option: (value, base arguments before, sub-command, extra options the option needs)
    let table = |long: &str| -> Option<(Option<String>, Vec<String>, Vec<String>)> {
        let chk = s(&["check", "all", "its"]);
        Some(match long {
            "verbosity" => (Some("0".into()), chk, vec![]),
            "max-tolerate-errors" => (Some("2".into()), chk, vec![]),
            "any-errors-exit-code" => (Some("7".into()), chk, vec![]),
            "filter-link" => (Some(link.to_string()), chk, vec![]),
            "filter-fee" => (Some(fee.to_string()), chk, vec![]),
            "filter-its-stave" => (Some(format!("L{}_{}", (fee >> 12) & 7, fee & 0x3F)), chk, vec![]),
            "output" => (Some("out.raw".into()), vec![], s(&["--filter-link", &link.to_string()])),
            "mute-errors" => (None, chk, vec![]),
            "checks-toml" => (Some("checks.toml".into()), chk, vec![]),
            "output-stats" => (Some("st.json".into()), chk, s(&["--stats-format", "json"])),
            "stats-format" => (Some("toml".into()), chk, s(&["--output-stats", "st.toml"])),
            "input-stats-file" => (Some("ref.json".into()), chk, s(&["--any-errors-exit-code", "7"])),
            "show-only-errors-with-codes" => (Some("10".into()), chk, vec![]),
            "disable-styled-views" => (None, s(&["view", "rdh"]), vec![]),
            _ => return None, // help, version, generators, the trigger period (needs a stave filter)
        })
    };
    struct Obs {
        status: Option<i32>,
        out: String,
        errs: Vec<String>,
        files: Vec<(String, Option<Vec<u8>>)>,
        parser_rejected: bool,
    }
    let observe = |args: &[String]| -> Obs {
        let scratch = Scratch::new("c16sp");
        let _ = scratch.file("checks.toml", b"cdps = 1\n");
        // a reference statistics file for -i (of the same check, so that it matches)
        let refrun = Run::new(&[scratch.file("in.raw", mixed).display().to_string(), "check".into(), "all".into(), "its".into(), "--output-stats".into(), "ref.json".into(), "--stats-format".into(), "json".into()]).cwd(&scratch.path).run();
        let _ = refrun;
        let mut a = vec!["in.raw".to_string()];
        a.extend(args.iter().cloned());
        let r = Run::new(&a).cwd(&scratch.path).run();
        let out = strip_ansi(&r.stdout_str()).lines().filter(|l| !l.contains("Processed in")).collect::<Vec<_>>().join("\n");
        let errs = first_lines(&split_cli_errors(&r.stderr_str()));
        let files = ["out.raw", "st.json", "st.toml"].iter().map(|f| (f.to_string(), std::fs::read(scratch.join(f)).ok())).collect();
        Obs { status: r.status, parser_rejected: r.status == Some(2) && r.stdout.is_empty(), out, errs, files }
    };
    let mut jobs: Vec<(String, String, Vec<String>, Vec<String>, bool)> = Vec::new(); // (option, spelling label, reference args, variant args, must be accepted)
    for (short, long, takes, aliases) in &opts {
        let Some((value, sub, extra)) = table(long) else { continue };
        if value.is_some() != *takes {
            rep.machinery_error(format!("option --{long}: the help text and the spelling table disagree on whether it takes a value"));
            continue;
        }
        let with = |name: &str, eq: bool, after: bool| -> Vec<String> {
            let mut o: Vec<String> = Vec::new();
            match (&value, eq) {
                (Some(v), true) => o.push(format!("{name}={v}")),
                (Some(v), false) => o.extend([name.to_string(), v.clone()]),
                (None, _) => o.push(name.to_string()),
            }
            let mut a = extra.clone();
            if after {
                a.extend(sub.iter().cloned());
                a.extend(o);
            } else {
                a.extend(o);
                a.extend(sub.iter().cloned());
            }
            a
        };
        // an option that takes a list of values swallows the words that follow it: it goes behind the sub-command
        let tail = long == "show-only-errors-with-codes";
        let reference = with(&format!("--{long}"), false, tail);
        if value.is_some() {
            jobs.push((long.clone(), format!("--{long}=<value>"), reference.clone(), with(&format!("--{long}"), true, false), true));
        }
        if !sub.is_empty() && !tail {
            jobs.push((long.clone(), format!("--{long} behind the sub-command"), reference.clone(), with(&format!("--{long}"), false, true), false));
        }
        if let Some(sh) = short {
            jobs.push((long.clone(), format!("{sh}"), reference.clone(), with(sh, false, tail), true));
            if let (Some(v), false) = (&value, tail) {
                let mut a = extra.clone();
                a.push(format!("{sh}{v}"));
                a.extend(sub.iter().cloned());
                jobs.push((long.clone(), format!("{sh}<value> attached"), reference.clone(), a, false));
            }
        }
        for al in aliases {
            jobs.push((long.clone(), format!("alias --{al}"), reference.clone(), with(&format!("--{al}"), false, tail), true));
            if value.is_some() {
                jobs.push((long.clone(), format!("alias --{al}=<value>"), reference.clone(), with(&format!("--{al}"), true, false), true));
            }
        }
    }
    let res = par_map(&jobs, |_, (_, _, reference, variant, must)| -> Option<(String, String)> {
        let r = observe(reference);
        let v = observe(variant);
        if r.parser_rejected {
            return Some(("__machinery".into(), format!("the reference spelling {:?} was rejected", reference)));
        }
        if v.parser_rejected {
            return if *must { Some(("documented-spelling-rejected".into(), format!("{:?} is rejected by the argument parser", variant))) } else { None };
        }
        if v.status != r.status {
            return Some(("exit-status".into(), format!("exit {:?} instead of {:?}", v.status, r.status)));
        }
        if v.errs != r.errs {
            return Some(("messages".into(), format!("{} messages instead of {}", v.errs.len(), r.errs.len())));
        }
        if v.out != r.out {
            return Some(("stdout".into(), "the report / view differs".into()));
        }
        for ((n, a), (_, b)) in v.files.iter().zip(r.files.iter()) {
            if a != b {
                return Some(("files".into(), format!("{n}: {:?} bytes instead of {:?}", a.as_ref().map(|x| x.len()), b.as_ref().map(|x| x.len()))));
            }
        }
        None
    });
    let mut n = 0u64;
    for ((opt, label, _, variant, _), r) in jobs.iter().zip(res.iter()) {
        n += 2;
        match r {
            Some((sig, d)) if sig == "__machinery" => rep.machinery_error(d.clone()),
            Some((sig, d)) => rep.violation(Violation { signature: format!("spelling:{sig}:{opt}"), description: format!("{d} [option --{opt} written as {label}: {:?}]", variant), replay: json!({"args": variant}) }),
            None => {}
        }
    }
    n
}

fn first_lines(msgs: &[String]) -> Vec<String> {
    let mut v: Vec<String> = msgs.iter().map(|m| strip_ansi(m.lines().next().unwrap_or("")).trim().to_string()).collect();
    v.sort();
    v
}

fn code_of(line: &str) -> Option<String> {
    let i = line.find("[E")?;
    let j = line[i..].find(']')?;
    Some(line[i + 2..i + j].to_string())
}

/// Option atoms; `semantic` atoms change what is analysed (they are part of the reference run), the others only
/// what is displayed / returned.
fn option_pairs(rep: &mut Reporter, mixed: &[u8], clean: &[u8], stave_faulty: &[u8], n_packets: usize) -> u64 {
    #[derive(Clone)]
    struct Atom {
        name: &'static str,
        args: Vec<String>,
        flag: &'static str,
        semantic: bool,
    }
    let (walked, _) = stream::walk(clean);
    let link = walked[0].rdh.link_id.to_string();
    let toml = format!("@TOMLTEXT:cdps = {}", n_packets + 1);
    let atoms: Vec<Atom> = vec![
        Atom { name: "-m", args: s(&["-m"]), flag: "m", semantic: false },
        Atom { name: "-w 10", args: s(&["-w", "10"]), flag: "w", semantic: false },
        Atom { name: "-w 44 444 4", args: s(&["-w", "44", "444", "4"]), flag: "w", semantic: false },
        Atom { name: "-e 2", args: s(&["-e", "2"]), flag: "e", semantic: false },
        Atom { name: "-e 1000", args: s(&["-e", "1000"]), flag: "e", semantic: false },
        Atom { name: "-E 7", args: s(&["-E", "7"]), flag: "E", semantic: false },
        Atom { name: "-S json", args: s(&["-S", "@STATS", "-D", "json"]), flag: "S", semantic: false },
        Atom { name: "-v 0", args: s(&["-v", "0"]), flag: "v", semantic: false },
        Atom { name: "-f link", args: s(&["-f", &link]), flag: "f", semantic: true },
        Atom { name: "-f link -o file", args: s(&["-f", &link, "-o", "out.raw"]), flag: "f", semantic: true },
        Atom { name: "-c cdps+1", args: s(&["-c", &toml]), flag: "c", semantic: true },
    ];
    let mut subsets: Vec<Vec<usize>> = vec![vec![]];
    for i in 0..atoms.len() {
        subsets.push(vec![i]);
        for j in (i + 1)..atoms.len() {
            if atoms[i].flag != atoms[j].flag {
                subsets.push(vec![i, j]);
            }
        }
    }
    struct PCase {
        input: usize,
        mode: Vec<String>,
        set: Vec<usize>,
    }
    let inputs: [&[u8]; 3] = [mixed, clean, stave_faulty];
    let modes = [s(&["check", "sanity"]), s(&["check", "all", "its"])];
    let mut cases: Vec<PCase> = Vec::new();
    for input in 0..2 {
        for mode in &modes {
            for set in &subsets {
                cases.push(PCase { input, mode: mode.clone(), set: set.clone() });
            }
        }
    }
    for set in &subsets {
        cases.push(PCase { input: 2, mode: s(&["check", "all", "its-stave"]), set: set.clone() });
    }
    let run = |input: &[u8], mode: &[String], opts: &[String]| -> (fp_harness::cli::RunResult, Option<Value>) {
        let scratch = Scratch::new("c16p");
        let statp = scratch.join("st.json");
        // the mode first: a -w list takes every following bare word
        let mut a = vec![scratch.file("in.raw", input).display().to_string()];
        a.extend(mode.iter().cloned());
        for x in opts {
            if let Some(t) = x.strip_prefix("@TOMLTEXT:") {
                a.push(scratch.file("checks.toml", t.as_bytes()).display().to_string());
            } else {
                a.push(x.replace("@STATS", &statp.display().to_string()));
            }
        }
        let r = Run::new(&a).cwd(&scratch.path).run();
        let st = std::fs::read_to_string(&statp).ok().and_then(|t| serde_json::from_str::<Value>(&t).ok());
        (r, st)
    };
    // a filter that selects the only link of the stream, stdin instead of a file, and -v 0 change nothing that is found
    for (ii, input) in inputs.iter().enumerate() {
        let ms: Vec<Vec<String>> = if ii == 2 { vec![s(&["check", "all", "its-stave"])] } else { modes.to_vec() };
        for mode in &ms {
            let (base, _) = run(input, mode, &[]);
            let base_msgs = first_lines(&split_cli_errors(&base.stderr_str()).into_iter().filter(|m| m.contains("[E")).collect::<Vec<_>>());
            let (fr, _) = run(input, mode, &s(&["-f", &link]));
            let f_msgs = first_lines(&split_cli_errors(&fr.stderr_str()).into_iter().filter(|m| m.contains("[E")).collect::<Vec<_>>());
            if f_msgs != base_msgs {
                rep.violation(Violation {
                    signature: "option-pairs:filter-on-the-only-link-changes-findings".into(),
                    description: format!("`{}`: {} messages without a filter, {} with --filter-link {link} on a stream that has only that link", mode.join(" "), base_msgs.len(), f_msgs.len()),
                    replay: json!({"mode": mode, "input": ii}),
                });
            }
            // the same input on stdin
            let scratch = Scratch::new("c16s");
            let mut a: Vec<String> = mode.clone();
            a.extend(s(&["-E", "7"]));
            let sr = Run::new(&a).cwd(&scratch.path).stdin(input).run();
            let s_msgs = first_lines(&split_cli_errors(&sr.stderr_str()).into_iter().filter(|m| m.contains("[E")).collect::<Vec<_>>());
            if s_msgs != base_msgs || sr.status != Some(if base_msgs.is_empty() { 0 } else { 7 }) {
                rep.violation(Violation {
                    signature: "option-pairs:stdin-changes-findings".into(),
                    description: format!("`{}`: {} messages from a file, {} from stdin (exit {:?})", mode.join(" "), base_msgs.len(), s_msgs.len(), sr.status),
                    replay: json!({"mode": mode, "input": ii}),
                });
            }
        }
    }
    // comparison with an earlier statistics file (-i) crossed with the display / exit options: a matching file changes
    // nothing, a file that differs in one counter makes the run fail with the configured exit status, muted or not
    {
        let display: Vec<Vec<String>> = vec![vec![], s(&["-m"]), s(&["-w", "10"]), s(&["-e", "1000"]), s(&["-v", "0"]), s(&["-m", "-w", "10"]), s(&["-m", "-v", "0"])];
        let mut jobs: Vec<(usize, Vec<String>, Vec<String>, bool)> = Vec::new();
        for ii in 0..2usize {
            for mode in &modes {
                for d in &display {
                    for mismatch in [false, true] {
                        jobs.push((ii, mode.clone(), d.clone(), mismatch));
                    }
                }
            }
        }
        let jres = par_map(&jobs, |_, (ii, mode, d, mismatch)| {
            let scratch = Scratch::new("c16i");
            let input = scratch.file("in.raw", inputs[*ii]);
            let refp = scratch.join("ref.json");
            let mut a = vec![input.display().to_string()];
            a.extend(mode.iter().cloned());
            a.extend(s(&["-S", &refp.display().to_string(), "-D", "json"]));
            let r0 = Run::new(&a).cwd(&scratch.path).run();
            let Ok(txt) = std::fs::read_to_string(&refp) else { return Some(("no-reference-stats".to_string(), r0.stderr_str())) };
            let mut v: Value = serde_json::from_str(&txt).unwrap_or(Value::Null);
            if *mismatch {
                let n = v["rdh_stats"]["rdhs_seen"].as_u64().unwrap_or(0);
                v["rdh_stats"]["rdhs_seen"] = json!(n + 1);
            }
            let inp = scratch.file("cmp.json", serde_json::to_string_pretty(&v).unwrap().as_bytes());
            let base_errors = split_cli_errors(&r0.stderr_str()).iter().any(|m| m.contains("[E"));
            let mut b = vec![input.display().to_string()];
            b.extend(mode.iter().cloned());
            b.extend(d.iter().cloned());
            b.extend(s(&["-i", &inp.display().to_string(), "-E", "7"]));
            let r = Run::new(&b).cwd(&scratch.path).run();
            if r.crashed() {
                return Some(("crash".to_string(), format!("signal {:?}", r.signal)));
            }
            let want = if *mismatch || base_errors { 7 } else { 0 };
            if r.status != Some(want) {
                return Some((format!("stats-file-{}", if *mismatch { "mismatch-not-failing" } else { "match-failing" }), format!("exit status {:?}, expected {want} (the statistics file {}; the data itself {} errors)", r.status, if *mismatch { "differs in rdhs_seen" } else { "matches" }, if base_errors { "has" } else { "has no" })));
            }
            None
        });
        for ((ii, mode, d, _), r) in jobs.iter().zip(jres.iter()) {
            if let Some((sig, desc)) = r {
                rep.violation(Violation { signature: format!("option-pairs:{sig}:{}", d.join("").replace(' ', "")), description: format!("{desc} [`{}` {:?} -i <file> -E 7 on input {ii}]", mode.join(" "), d), replay: json!({"mode": mode, "display": d, "input": ii}) });
            }
        }
    }
    // the earlier statistics file under other spellings of its name: whatever the tool makes of the extension, the run
    // is either rejected before any output (non-zero exit, nothing on stdout) or treated like the plainly named
    // file (same exit status, no panic) - nothing in between
    {
        let names = ["cmp.JSON", "cmp.Json", "cmp.TOML", "cmp.Toml", "cmp.jsonx", "cmp.json.bak", "cmp.", "cmp", "JSON", ".json", "cmp.raw", "dir.json/", "dir.toml/"];
        let mut jobs: Vec<(usize, Vec<String>, &str)> = Vec::new();
        for ii in 0..2usize {
            for mode in &modes {
                for n in names {
                    jobs.push((ii, mode.clone(), n));
                }
            }
        }
        let jres = par_map(&jobs, |_, (ii, mode, name)| {
            let scratch = Scratch::new("c16x");
            let input = scratch.file("in.raw", inputs[*ii]);
            let toml = name.to_ascii_lowercase().contains("toml");
            let refp = scratch.join(if toml { "ref.toml" } else { "ref.json" });
            let mut a = vec![input.display().to_string()];
            a.extend(mode.iter().cloned());
            a.extend(s(&["-S", &refp.display().to_string(), "-D", if toml { "toml" } else { "json" }]));
            let r0 = Run::new(&a).cwd(&scratch.path).run();
            let Ok(txt) = std::fs::read(&refp) else { return Some(("no-reference-stats".to_string(), r0.stderr_str())) };
            let base_errors = split_cli_errors(&r0.stderr_str()).iter().any(|m| m.contains("[E"));
            // "<name>/" : a DIRECTORY of that name (an existing path with the right extension that is no file)
            let inp = if let Some(d) = name.strip_suffix('/') {
                let p = scratch.join(d);
                let _ = std::fs::create_dir_all(&p);
                let _ = std::fs::write(p.join("inner.json"), &txt);
                p
            } else {
                scratch.file(name, &txt)
            };
            let mut b = vec![input.display().to_string()];
            b.extend(mode.iter().cloned());
            b.extend(s(&["-i", &inp.display().to_string(), "-E", "7"]));
            let r = Run::new(&b).cwd(&scratch.path).run();
            if r.crashed() {
                return Some(("crash".to_string(), format!("signal {:?}", r.signal)));
            }
            let panicked = r.stderr_str().contains("panicked at");
            let rejected = r.status != Some(0) && r.stdout.is_empty() && !panicked;
            let accepted = r.status == Some(if base_errors { 7 } else { 0 }) && !panicked;
            if !rejected && !accepted {
                return Some(("neither-rejected-nor-processed".to_string(), format!("exit status {:?}, {} bytes on stdout, panic text {}: {}", r.status, r.stdout.len(), panicked, r.stderr_str().lines().find(|l| l.contains("panicked") || l.contains("ERROR")).unwrap_or(""))));
            }
            None
        });
        for ((ii, mode, name), r) in jobs.iter().zip(jres.iter()) {
            if let Some((sig, desc)) = r {
                rep.violation(Violation { signature: format!("stats-file-name:{sig}"), description: format!("{desc} [`{}` -i {name} -E 7 on input {ii}]", mode.join(" ")), replay: json!({"mode": mode, "name": name, "input": ii}) });
            }
        }
    }
    let res = par_map(&cases, |_, c| {
        let sem: Vec<String> = c.set.iter().filter(|i| atoms[**i].semantic).flat_map(|i| atoms[*i].args.clone()).collect();
        let all: Vec<String> = c.set.iter().flat_map(|i| atoms[*i].args.clone()).collect();
        let (rf, _) = run(inputs[c.input], &c.mode, &sem);
        let (rr, st) = run(inputs[c.input], &c.mode, &all);
        (rf, rr, st)
    });
    for (c, (rf, rr, st)) in cases.iter().zip(res.iter()) {
        let names: Vec<&str> = c.set.iter().map(|i| atoms[*i].name).collect();
        let has = |f: &str| c.set.iter().any(|i| atoms[*i].name.starts_with(f));
        let label = format!("{} | options {:?} | {}", c.mode.join(" "), names, ["mixed-code stream", "clean stream", "stave stream with a lane bunch-counter mismatch"][c.input]);
        let mut bad: Option<(String, String)> = None;
        let reference = first_lines(&split_cli_errors(&rf.stderr_str()).into_iter().filter(|m| m.contains("[E")).collect::<Vec<_>>());
        let shown = first_lines(&split_cli_errors(&rr.stderr_str()).into_iter().filter(|m| m.contains("[E")).collect::<Vec<_>>());
        if rf.crashed() || rr.crashed() {
            bad = Some(("crash".into(), format!("signal {:?} / {:?}", rf.signal, rr.signal)));
        } else {
            let cap = has("-e 2");
            let listed: Option<Vec<&str>> = if has("-w 10") { Some(vec!["10"]) } else if has("-w 44") { Some(vec!["44", "444", "4"]) } else { None };
            let mut want: Vec<String> = reference.clone();
            if let Some(l) = &listed {
                want.retain(|m| code_of(m).map_or(false, |c| l.contains(&c.as_str())));
            }
            if has("-m") {
                want.clear();
            }
            if cap && !has("-m") {
                // the run stops early: at most 2 shown, each one a message of the reference run with a listed code
                if shown.len() > 2 || shown.iter().any(|m| !want.contains(m)) {
                    bad = Some(("shown-with-cap".into(), format!("{} messages shown: {:?}", shown.len(), shown.first())));
                }
            } else if shown != want {
                let missing = want.iter().find(|m| !shown.contains(m));
                let extra = shown.iter().find(|m| !want.contains(m));
                bad = Some(("shown".into(), format!("{} messages shown, {} expected (reference run has {}); missing {:?}, extra {:?}", shown.len(), want.len(), reference.len(), missing, extra)));
            }
            if bad.is_none() {
                let want_exit = if has("-E 7") && !reference.is_empty() { 7 } else { 0 };
                if rr.status != Some(want_exit) {
                    bad = Some(("exit-status".into(), format!("exit status {:?}, expected {want_exit} ({} errors in the reference run)", rr.status, reference.len())));
                }
            }
            if bad.is_none() && has("-S") && !cap {
                let t = st.as_ref().and_then(|v| v["error_stats"]["total_errors"].as_u64());
                if t != Some(reference.len() as u64) {
                    bad = Some(("stats-total".into(), format!("statistics total_errors {:?}, the reference run shows {} messages", t, reference.len())));
                }
            }
        }
        if let Some((sig, d)) = bad {
            rep.violation(Violation { signature: format!("option-pairs:{sig}:{}", names.join("+").replace(' ', "")), description: format!("{d} [{label}]"), replay: json!({"mode": c.mode, "options": names, "input": c.input}) });
        }
    }
    cases.len() as u64
}

/// Drives the real `ErrPrinter` and observes what it displays by capturing the logger output is not possible
/// in-process (stderr logger); instead the decision procedure of `ErrPrinter::print` is exercised through a
/// capturing logger installed once.
fn printer_shows(filter: &[String], unique: &[String], msgs: &[Box<str>]) -> bool {
    capture::install();
    capture::reset();
    ErrPrinter::new(None, Some(filter)).print(msgs.iter(), unique);
    capture::count() > 0
}

mod capture {
    use std::sync::atomic::{AtomicUsize, Ordering};
    use std::sync::Once;
    static N: AtomicUsize = AtomicUsize::new(0);
    static ONCE: Once = Once::new();
    pub static TEXTS: std::sync::Mutex<Vec<String>> = std::sync::Mutex::new(Vec::new());
    struct L;
    impl log::Log for L {
        fn enabled(&self, _: &log::Metadata) -> bool {
            true
        }
        fn log(&self, r: &log::Record) {
            if r.level() == log::Level::Error {
                N.fetch_add(1, Ordering::SeqCst);
                TEXTS.lock().unwrap().push(format!("{}", r.args()));
            }
        }
        fn flush(&self) {}
    }
    static LOGGER: L = L;
    pub fn install() {
        ONCE.call_once(|| {
            let _ = log::set_logger(&LOGGER);
            log::set_max_level(log::LevelFilter::Error);
        });
    }
    pub fn reset() {
        N.store(0, Ordering::SeqCst);
        TEXTS.lock().unwrap().clear();
    }
    pub fn texts() -> Vec<String> {
        TEXTS.lock().unwrap().clone()
    }
    pub fn count() -> usize {
        N.load(Ordering::SeqCst)
    }
}

pub fn replay(v: &Value) -> i32 {
    // the cases of this check are enumerated, not stored: re-run the deterministic enumeration for the signature
    fp_harness::report::replay_by_rerun(v, &|tier| run(tier))
}
