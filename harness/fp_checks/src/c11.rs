//! C11 — word-level sanity predicates are exact for all 80-bit values (within the stated bit-pattern bound).
//!
//! Complete enumeration: per status word type all 256 identifier bytes x {zero, every single bit, every pair of
//! bits, all ones} over the other 72 bits, run through the real public sanity checkers AND through the real
//! `CdpRunningValidator` (which error code appears at the word); data words: all 256 ids x lane masks
//! {none, each single lane, all-but-one, all}. Oracle: `fp_model::rules`.
use crate::val::{self, CfgKey, Mode};
use fastpasta::analyze::validators::its::status_word::StatusWordSanityChecker;
use fastpasta::words::its::status_words::{ddw::Ddw0, ihw::Ihw, tdh::Tdh, tdt::Tdt, StatusWord};
use fp_harness::par::par_map;
use fp_harness::{Reporter, Tier, Violation};
use fp_model::rdh::Rdh;
use fp_model::rules;
use fp_model::util::hex;
use fp_model::words;
use serde_json::json;

#[derive(Clone, Copy, Debug, PartialEq, Eq)]
pub enum Wt {
    Ihw,
    Tdh,
    Tdt,
    Ddw0,
}
impl Wt {
    fn name(&self) -> &'static str {
        match self {
            Wt::Ihw => "IHW",
            Wt::Tdh => "TDH",
            Wt::Tdt => "TDT",
            Wt::Ddw0 => "DDW0",
        }
    }
    fn code(&self) -> &'static str {
        match self {
            Wt::Ihw => "E30",
            Wt::Tdh => "E40",
            Wt::Tdt => "E50",
            Wt::Ddw0 => "E60",
        }
    }
    fn model_sane(&self, w: &[u8]) -> bool {
        match self {
            Wt::Ihw => rules::ihw_sane(w),
            Wt::Tdh => rules::tdh_sane(w),
            Wt::Tdt => rules::tdt_sane(w),
            Wt::Ddw0 => rules::ddw0_sane(w),
        }
    }
    fn impl_sane(&self, w: &[u8]) -> bool {
        let mut s: &[u8] = w;
        match self {
            Wt::Ihw => StatusWordSanityChecker::check_ihw(&Ihw::load(&mut s).unwrap()).is_ok(),
            Wt::Tdh => StatusWordSanityChecker::check_tdh(&Tdh::load(&mut s).unwrap()).is_ok(),
            Wt::Tdt => StatusWordSanityChecker::check_tdt(&Tdt::load(&mut s).unwrap()).is_ok(),
            Wt::Ddw0 => StatusWordSanityChecker::check_ddw0(&Ddw0::load(&mut s).unwrap()).is_ok(),
        }
    }
}

/// The 72 non-identifier bits: zero, singles, pairs (thorough + quick), all ones.
fn body_patterns() -> Vec<[u8; 9]> {
    let mut v = vec![[0u8; 9], [0xFFu8; 9]];
    for i in 0..72 {
        let mut b = [0u8; 9];
        b[i / 8] |= 1 << (i % 8);
        v.push(b);
        for j in (i + 1)..72 {
            let mut c = b;
            c[j / 8] |= 1 << (j % 8);
            v.push(c);
        }
    }
    v
}

fn check_predicates(wt: Wt, ids: &[u8], bodies: &[[u8; 9]]) -> (u64, u64, Option<(Vec<u8>, bool, bool)>) {
    let mut n = 0u64;
    let mut rejected = 0u64;
    let mut first = None;
    for &id in ids {
        for b in bodies {
            let mut w = [0u8; 10];
            w[..9].copy_from_slice(b);
            w[9] = id;
            let m = wt.model_sane(&w);
            let i = wt.impl_sane(&w);
            n += 1;
            if !m {
                rejected += 1;
            }
            if m != i && first.is_none() {
                first = Some((w.to_vec(), m, i));
            }
        }
    }
    (n, rejected, first)
}

/// Through the real CdpRunningValidator: the word is placed where the FSM expects exactly that type, and the
/// documented code must appear at the word's offset iff the model rejects the word.
fn through_validator(wt: Wt, w: &[u8; 10], mode: Mode) -> Result<Option<String>, String> {
    let cfg = val::mode_cfg(mode);
    let mut st = val::CdpStepper::new(cfg);
    let mut r = Rdh::base();
    // DDW0 belongs on a stop page with page counter > 0, an IHW on a non-stop page
    let lead: Vec<[u8; 10]> = match wt {
        Wt::Ihw => vec![],
        Wt::Tdh => vec![words::ihw(0x7)],
        Wt::Tdt => vec![
            words::ihw(0x7),
            words::Tdh { trigger_type: (r.trigger_type & 0xFFF) as u16, internal: true, no_data: false, continuation: false, bc: 0, orbit: r.orbit }.encode(),
            words::data_word(0x20, [0; 9]),
        ],
        Wt::Ddw0 => vec![
            words::ihw(0x7),
            words::Tdh { trigger_type: (r.trigger_type & 0xFFF) as u16, internal: true, no_data: true, continuation: false, bc: 0, orbit: r.orbit }.encode(),
        ],
    };
    st.set_rdh(&r.encode(), 0)?;
    for l in &lead {
        let m = st.word(l)?;
        if !val::error_texts(&m).is_empty() {
            return Err(format!("lead-in word produced errors: {:?}", val::error_texts(&m)));
        }
    }
    let mut idx = lead.len();
    if wt == Wt::Ddw0 {
        r.stop_bit = 1;
        r.pages_counter = 1;
        st.set_rdh(&r.encode(), 0x1000)?;
        idx = 0;
    }
    let base = if wt == Wt::Ddw0 { 0x1000u64 } else { 0 };
    let msgs = val::error_texts(&st.word(w)?);
    let want_off = base + 64 + 10 * idx as u64;
    let mut has_code = false;
    for m in &msgs {
        let Some((off, codes)) = rules::parse_error_message(m) else {
            return Ok(Some(format!("unparsable message {m:?}")));
        };
        if off != want_off {
            return Ok(Some(format!("message at {off:#x}, word is at {want_off:#x}: {m}")));
        }
        if codes.iter().any(|c| c == wt.code()) {
            has_code = true;
        }
    }
    let model_sane = wt.model_sane(w);
    // in choice states a wrong identifier is reported as E99x instead (C09); here only single-successor states
    // (IHW, TDH) and identifier-correct words are placed in choice states
    if !model_sane && !has_code {
        let choice_state_id_error = w[9] != match wt {
            Wt::Ihw => words::ID_IHW,
            Wt::Tdh => words::ID_TDH,
            Wt::Tdt => words::ID_TDT,
            Wt::Ddw0 => words::ID_DDW0,
        } && matches!(wt, Wt::Tdt | Wt::Ddw0);
        if !choice_state_id_error {
            return Ok(Some(format!("{} violating its sanity rule is not reported with {}: {:?}", wt.name(), wt.code(), msgs)));
        }
    }
    if model_sane && has_code {
        return Ok(Some(format!("conforming {} reported with {}: {:?}", wt.name(), wt.code(), msgs)));
    }
    Ok(None)
}

fn data_word_case(id: u8, active: u32, mode: Mode) -> Result<Option<String>, String> {
    data_word_case_h(id, active, mode, 0)
}

/// `history`: 0 = the packet under test is the first of the link; 1 = a complete packet whose IHW announced the
/// complementary lane mask comes first (the mask of the packet's own IHW governs its data words); 2 = as 1, and the
/// IHW of the packet under test also has a reserved bit set (it is reported, and still is this packet's IHW); 3 = first
/// packet of the link, but the data-position word before the word under test has itself an unrecognised identifier
/// (0x29: reported, parsed as a data word) - the word under test is still a word after the start of the data; 4 = the
/// packet under test is a continuation page: the page before announced the complementary mask and left its event open
/// (TDT with packet_done = 0); the continuation page's own IHW governs its data words.
fn data_word_case_h(id: u8, active: u32, mode: Mode, history: u8) -> Result<Option<String>, String> {
    let cfg = val::mode_cfg(mode);
    let mut st = val::CdpStepper::new(cfg);
    let mut r = Rdh::base();
    let mut base = 0u64;
    if history == 1 || history == 2 {
        st.set_rdh(&r.encode(), 0)?;
        let other = !active & 0x0FFF_FFFF;
        for w in [
            words::ihw(other),
            words::Tdh { trigger_type: (r.trigger_type & 0xFFF) as u16, internal: true, no_data: true, continuation: false, bc: 0, orbit: r.orbit }.encode(),
        ] {
            let _ = st.word(&w)?;
        }
        r.pages_counter = 1;
        // second packet far into a large file: offsets beyond 2^32 for the history-2 cases
        base = if history == 2 { 0x1_0000_1000 } else { 0x1000 };
    }
    if history == 4 {
        st.set_rdh(&r.encode(), 0)?;
        let other = !active & 0x0FFF_FFFF;
        for w in [
            words::ihw(other),
            words::Tdh { trigger_type: (r.trigger_type & 0xFFF) as u16, internal: true, no_data: false, continuation: false, bc: 0x40, orbit: r.orbit }.encode(),
            words::data_word(0x20, [0; 9]),
            words::Tdt::done(false),
        ] {
            let _ = st.word(&w)?;
        }
        r.pages_counter = 1;
        base = 0x1000;
    }
    st.set_rdh(&r.encode(), base)?;
    let mut ihw = words::ihw(active);
    if history == 2 {
        ihw[3] |= 0x10; // reserved bit 28
    }
    let lead = [
        ihw,
        words::Tdh { trigger_type: (r.trigger_type & 0xFFF) as u16, internal: true, no_data: false, continuation: history == 4, bc: if history == 1 || history == 2 || history == 4 { 0x40 } else { 0 }, orbit: r.orbit }.encode(),
        words::data_word(if history == 3 { 0x29 } else { 0x20 }, [0; 9]), // a first data word so that a following 0xF8 counts as data, not as a CDW
    ];
    for (i, l) in lead.iter().enumerate() {
        let m = val::error_texts(&st.word(l)?);
        // the lead-in data word may itself be inactive under this mask; it is not the word under test
        if i < 2 && !m.is_empty() && history == 0 {
            return Err(format!("lead-in produced {:?}", m));
        }
    }
    let w = words::data_word(id, [0x11; 9]);
    let msgs = val::error_texts(&st.word(&w)?);
    let verdict = rules::data_word_verdict(id, active);
    let want_reported = if mode.running() { verdict.reported() } else { verdict.bad_id };
    let want_off = base + 64 + 30;
    for m in &msgs {
        match rules::parse_error_message(m) {
            Some((off, _)) if off == want_off => {}
            _ => return Ok(Some(format!("message not at the data word's offset {want_off:#x}: {m}"))),
        }
    }
    let kind = words::kind_by_id(id);
    if matches!(kind, words::WordKind::Tdt) {
        return Ok(None); // a legal non-data word in the data state (TDT ends the event)
    }
    // 0xF8 is a calibration word only at the very start of the data; here a data-position word came before it, so
    // it is a data word whose identifier lies outside the valid ranges
    let want_reported = if matches!(kind, words::WordKind::Cdw) { true } else { want_reported };
    if want_reported != !msgs.is_empty() {
        return Ok(Some(format!(
            "data word id {id:#04x}, active lanes {active:#x}, mode {}: model says reported={want_reported} ({verdict:?}), tool printed {:?}",
            mode.name(),
            msgs
        )));
    }
    Ok(None)
}

pub fn run(tier: Tier) -> i32 {
    val::init_process();
    let mut rep = Reporter::new("C11", tier, "exploration");
    let bodies = body_patterns();
    let ids: Vec<u8> = (0..=255).collect();
    let mut evaluations = 0u64;
    let mut rejected_total = 0u64;
    // 1. predicates, all 256 ids x all bodies, split over ids for parallelism
    for wt in [Wt::Ihw, Wt::Tdh, Wt::Tdt, Wt::Ddw0] {
        let chunks: Vec<Vec<u8>> = ids.chunks(8).map(|c| c.to_vec()).collect();
        let res = par_map(&chunks, |_, c| check_predicates(wt, c, &bodies));
        for (n, rej, first) in res {
            evaluations += n;
            rejected_total += rej;
            if let Some((w, m, i)) = first {
                rep.violation(Violation {
                    signature: format!("predicate:{}:{}", wt.name(), if m { "false-alarm" } else { "missed" }),
                    description: format!("{} {}: documented rule says sane={m}, checker says sane={i}", wt.name(), hex(&w)),
                    replay: json!({"kind": "predicate", "type": wt.name(), "word_hex": hex(&w)}),
                });
            }
        }
    }
    // thorough: every three-bit pattern of the 72 body bits with the right identifier (59 640 per type)
    if tier.is_thorough() {
        let mut triples: Vec<[u8; 9]> = Vec::new();
        for i in 0..72usize {
            for j in (i + 1)..72 {
                for k in (j + 1)..72 {
                    let mut b = [0u8; 9];
                    for x in [i, j, k] {
                        b[x / 8] |= 1 << (x % 8);
                    }
                    triples.push(b);
                }
            }
        }
        for (wt, id) in [(Wt::Ihw, words::ID_IHW), (Wt::Tdh, words::ID_TDH), (Wt::Tdt, words::ID_TDT), (Wt::Ddw0, words::ID_DDW0)] {
            let chunks: Vec<Vec<[u8; 9]>> = triples.chunks(4096).map(|c| c.to_vec()).collect();
            let res = par_map(&chunks, |_, c| check_predicates(wt, &[id], c));
            for (n, rej, first) in res {
                evaluations += n;
                rejected_total += rej;
                if let Some((w, m, i)) = first {
                    rep.violation(Violation {
                        signature: format!("predicate:{}:{}", wt.name(), if m { "false-alarm" } else { "missed" }),
                        description: format!("{} {}: documented rule says sane={m}, checker says sane={i}", wt.name(), hex(&w)),
                        replay: json!({"kind": "predicate", "type": wt.name(), "word_hex": hex(&w)}),
                    });
                }
            }
        }
        rep.cov("three_bit_patterns_per_type", json!(triples.len()));
    }
    // TDH: all 2^13 combinations of trigger-type low bits 0..8 / internal / no-data / continuation / bit 15
    {
        let mut first = None;
        for v in 0u32..(1 << 13) {
            let lo: u16 = (v & 0x1FF) as u16 | (((v >> 9) & 0xF) as u16) << 12;
            let mut w = [0u8; 10];
            w[0..2].copy_from_slice(&lo.to_le_bytes());
            w[9] = words::ID_TDH;
            evaluations += 1;
            let (m, i) = (Wt::Tdh.model_sane(&w), Wt::Tdh.impl_sane(&w));
            if !m {
                rejected_total += 1;
            }
            if m != i && first.is_none() {
                first = Some((w, m, i));
            }
        }
        if let Some((w, m, i)) = first {
            rep.violation(Violation {
                signature: format!("predicate:TDH-flags:{}", if m { "false-alarm" } else { "missed" }),
                description: format!("TDH {}: rule says sane={m}, checker says sane={i}", hex(&w)),
                replay: json!({"kind": "predicate", "type": "TDH", "word_hex": hex(&w)}),
            });
        }
    }
    // 2. through the real validator: codes and offsets; ids x {zero, singles, ones} (pairs in thorough for the right id)
    let mut vcases: Vec<(Wt, [u8; 10], Mode)> = Vec::new();
    for wt in [Wt::Ihw, Wt::Tdh, Wt::Tdt, Wt::Ddw0] {
        let right_id = match wt {
            Wt::Ihw => words::ID_IHW,
            Wt::Tdh => words::ID_TDH,
            Wt::Tdt => words::ID_TDT,
            Wt::Ddw0 => words::ID_DDW0,
        };
        for mode in [Mode::SanityIts, Mode::AllIts] {
            for &id in &ids {
                // wrong ids in choice states are C09's subject; single-successor states take every id
                if id != right_id && matches!(wt, Wt::Tdt | Wt::Ddw0) {
                    continue;
                }
                let limit = if id == right_id { if tier.is_thorough() { bodies.len() } else { 2 + 72 * 5 } } else { 3 };
                for b in bodies.iter().take(limit) {
                    // TDH flag bits (no_data / continuation) steer the FSM and running checks: keep them clear here
                    if wt == Wt::Tdh && (b[1] & 0x60) != 0 {
                        continue;
                    }
                    // TDT packet_done clear would leave the page open: harmless for a single word; keep all
                    let mut w = [0u8; 10];
                    w[..9].copy_from_slice(b);
                    w[9] = id;
                    vcases.push((wt, w, mode));
                }
            }
        }
    }
    let vres = par_map(&vcases, |_, (wt, w, mode)| through_validator(*wt, w, *mode));
    for ((wt, w, mode), r) in vcases.iter().zip(vres.iter()) {
        evaluations += 1;
        match r {
            Ok(None) => {}
            Ok(Some(d)) => rep.violation(Violation {
                signature: format!("validator:{}:{}", wt.name(), if wt.model_sane(w) { "false-alarm-or-offset" } else { "missed-or-offset" }),
                description: format!("{d} [word {} mode {}]", hex(w), mode.name()),
                replay: json!({"kind": "validator", "type": wt.name(), "word_hex": hex(w), "mode": mode.name()}),
            }),
            Err(p) => rep.violation(Violation {
                signature: format!("panic:{}", val::panic_site(p)),
                description: format!("panic {p} on {} {}", wt.name(), hex(w)),
                replay: json!({"kind": "validator", "type": wt.name(), "word_hex": hex(w), "mode": mode.name()}),
            }),
        }
    }
    // 3. data words: all ids x lane masks
    let mut masks: Vec<u32> = vec![0, 0x0FFF_FFFF];
    for l in 0..28 {
        masks.push(1 << l);
        masks.push(0x0FFF_FFFF & !(1 << l));
    }
    let mut dcases = Vec::new();
    for mode in [Mode::SanityIts, Mode::AllIts] {
        for &id in &ids {
            for &m in &masks {
                dcases.push((id, m, mode));
            }
        }
    }
    // with a history: an earlier packet announced the complementary mask; the packet's own IHW sane / with a reserved bit
    let mut hcases = Vec::new();
    for history in [1u8, 2, 3, 4] {
        for &id in &ids {
            for &m in &masks {
                hcases.push((id, m, history));
            }
        }
    }
    let hres = par_map(&hcases, |_, (id, m, h)| data_word_case_h(*id, *m, Mode::AllIts, *h));
    for ((id, m, h), r) in hcases.iter().zip(hres.iter()) {
        evaluations += 1;
        match r {
            Ok(None) => {}
            Ok(Some(d)) => rep.violation(Violation {
                signature: format!("data-word:lanes-of-an-earlier-ihw:{}", match *h { 2 => "own-ihw-with-reserved-bit", 3 => "after-a-word-with-unrecognised-id", 4 => "ihw-of-a-continuation-page", _ => "own-ihw-sane" }),
                description: format!("{d} [an earlier packet's IHW announced the complementary mask]"),
                replay: json!({"kind": "data-history", "id": id, "active": m, "history": h}),
            }),
            Err(p) => rep.violation(Violation { signature: format!("panic:{}", val::panic_site(p)), description: p.clone(), replay: json!({"kind": "data-history", "id": id, "active": m, "history": h}) }),
        }
    }
    let dres = par_map(&dcases, |_, (id, m, mode)| data_word_case(*id, *m, *mode));
    let mut reported_data = 0u64;
    for ((id, m, mode), r) in dcases.iter().zip(dres.iter()) {
        evaluations += 1;
        if rules::data_word_verdict(*id, *m).reported() {
            reported_data += 1;
        }
        match r {
            Ok(None) => {}
            Ok(Some(d)) => rep.violation(Violation {
                signature: format!("data-word:{}:{}", if words::is_valid_data_id(*id) { "valid-id" } else { "invalid-id" }, mode.name().replace(' ', "-")),
                description: d.clone(),
                replay: json!({"kind": "data", "id": id, "active": m, "mode": mode.name()}),
            }),
            Err(p) => rep.violation(Violation {
                signature: format!("panic:{}", val::panic_site(p)),
                description: format!("panic {p} on data word id {id:#x} lanes {m:#x}"),
                replay: json!({"kind": "data", "id": id, "active": m, "mode": mode.name()}),
            }),
        }
    }
    rep.cov("evaluations", json!(evaluations));
    rep.cov("distinct_nontrivial", json!(rejected_total + reported_data));
    rep.cov("exhaustive", json!(true));
    rep.cov("rule", json!("status words: 256 ids x {0, 72 single bits, 2556 bit pairs, all ones} per type on the public checkers (673 280 values per type) + all 2^13 TDH flag/trigger combinations; the same ids/bodies (pairs only in thorough) through the real CdpRunningValidator for code + offset; data words: 256 ids x 58 lane masks x 2 modes. non-trivial = values the documented rule rejects"));
    rep.sample(json!({"type": "TDH", "word_hex": hex(&words::Tdh{trigger_type:0,internal:false,no_data:false,continuation:false,bc:5,orbit:7}.encode()), "model_sane": false}));
    rep.sample(json!({"type": "data", "id": "0x47", "active_lanes": "0x0FFFFFFF", "model": "bad id + connector input 7"}));
    rep.assume("2^80 is not enumerable: every mask/range differing from the documented one in <= 2 bit positions is distinguished; wider deviations are not claimed");
    rep.finish()
}

pub fn replay(v: &serde_json::Value) -> i32 {
    val::init_process();
    let r = &v["replay"];
    let mode = |s: &str| if s == "check sanity its" { Mode::SanityIts } else { Mode::AllIts };
    let wt = |s: &str| match s {
        "IHW" => Wt::Ihw,
        "TDH" => Wt::Tdh,
        "TDT" => Wt::Tdt,
        _ => Wt::Ddw0,
    };
    let res = match r["kind"].as_str().unwrap() {
        "predicate" => {
            let w = fp_model::util::unhex(r["word_hex"].as_str().unwrap());
            let t = wt(r["type"].as_str().unwrap());
            let (m, i) = (t.model_sane(&w), t.impl_sane(&w));
            if m != i { Some(format!("model sane={m}, checker sane={i}")) } else { None }
        }
        "validator" => {
            let w = fp_model::util::unhex(r["word_hex"].as_str().unwrap());
            let mut a = [0u8; 10];
            a.copy_from_slice(&w);
            through_validator(wt(r["type"].as_str().unwrap()), &a, mode(r["mode"].as_str().unwrap())).unwrap_or_else(|p| Some(p))
        }
        "data-history" => data_word_case_h(r["id"].as_u64().unwrap() as u8, r["active"].as_u64().unwrap() as u32, Mode::AllIts, r["history"].as_u64().unwrap_or(1) as u8).unwrap_or_else(|p| Some(p)),
        _ => data_word_case(r["id"].as_u64().unwrap() as u8, r["active"].as_u64().unwrap() as u32, mode(r["mode"].as_str().unwrap())).unwrap_or_else(|p| Some(p)),
    };
    match res {
        Some(d) => {
            println!("REPLAY: violation reproduced: {d}");
            1
        }
        None => {
            println!("REPLAY: no violation");
            0
        }
    }
}
#[allow(dead_code)]
fn _unused(_: CfgKey) {}
