//! C19 — views show exactly what is in the data.
//!
//! CLI enumeration: streams over the full word alphabet (every TDH flag / trigger-kind combination, TDT / DDW0 with
//! lane-fault patterns none / warning / error / fatal at several lane positions, IHW, CDW, IB and OB data words) and
//! RDH variants (versions, stop bit, layers / staves, link ids, detector-field status bits, trigger kinds), both data
//! formats x the three views x {styled, -d} x filters; every unstyled row is parsed back and compared with the
//! model's decode of the bytes at that offset; styled output with ANSI sequences stripped carries the same tokens;
//! on the conforming witnesses the word types shown equal the ground-truth classification.
use crate::c02::{strip_ansi, witnesses};
use crate::c03::filter_args;
use fp_harness::cli::{Run, Scratch};
use fp_harness::par::par_map;
use fp_harness::{Reporter, Tier, Violation};
use fp_model::grammar::{self, WKind};
use fp_model::payload;
use fp_model::rdh::Rdh;
use fp_model::stream::{self, Filter, Packet};
use fp_model::util::hex;
use fp_model::words::{self, WordKind};
use serde_json::json;

fn lane_status_str(w: &[u8]) -> &'static str {
    // 56 bits, 2 per lane: 01 warning, 10 error, 11 fatal
    let mut worst = 0;
    for lane in 0..28 {
        let v = (w[lane / 4] >> (2 * (lane % 4))) & 3;
        let rank = match v {
            3 => 3,
            2 => 2,
            1 => 1,
            _ => 0,
        };
        worst = worst.max(rank);
    }
    ["-", "Warning", "Error", "Fatal"][worst]
}

fn rdh_trigger_str(t: u32) -> &'static str {
    if t & (1 << 9) != 0 {
        "SOC"
    } else if t & (1 << 7) != 0 {
        "SOT"
    } else if t & (1 << 1) != 0 {
        "HB"
    } else if t & (1 << 4) != 0 {
        "PhT"
    } else {
        "Other"
    }
}

fn det_field_str(d: u32) -> &'static str {
    if d & 0b1000 != 0 {
        "Fatal"
    } else if d & 0b100 != 0 {
        "Error"
    } else if d & 0b10 != 0 {
        "Warning"
    } else if d & 1 != 0 {
        "Missing"
    } else {
        "-"
    }
}

fn toks(s: &str) -> Vec<String> {
    s.split_whitespace().map(|x| x.to_string()).collect()
}

fn word_dump(w: &[u8]) -> String {
    format!("[{}]", w.iter().map(|b| format!("{:02X}", b)).collect::<Vec<_>>().join(" "))
}

/// Expected rows (as token lists) of the readout-frame views for a stream; `data` = the data view.
pub fn expected_frame_rows(bytes: &[u8], filter: Option<Filter>, data: bool) -> Vec<Vec<String>> {
    let (walked, _) = stream::walk(bytes);
    let mut rows = Vec::new();
    for w in walked.iter().filter(|w| filter.map_or(true, |f| f.matches(&w.rdh))) {
        let r = &w.rdh;
        rows.push(toks(&format!(
            "{:X}: RDH v{} stop={} stave: L{}_{} {} #{:>2} {} {}_{:>4}",
            w.offset,
            r.header_id,
            r.stop_bit,
            r.layer(),
            r.stave(),
            rdh_trigger_str(r.trigger_type),
            r.link_id.to_string(),
            det_field_str(r.detector_field),
            r.orbit,
            r.bc
        )));
        let pl = &bytes[w.payload.0..w.payload.1];
        if let payload::Sliced::Words(ws) = payload::slice(pl, r.data_format) {
            for sw in ws {
                let off = w.payload.0 + sw.rel_offset;
                let b = &sw.bytes;
                let row = match words::kind_by_id(b[9]) {
                    WordKind::Ihw => format!("{off:X}: IHW {}", word_dump(b)),
                    WordKind::Cdw => format!("{off:X}: CDW {}", word_dump(b)),
                    WordKind::Ddw0 => format!("{off:X}: DDW {} {}", word_dump(b), lane_status_str(b)),
                    WordKind::Tdt => format!("{off:X}: TDT {} {} {}", word_dump(b), if b[8] & 1 != 0 { "Complete" } else { "Split" }, lane_status_str(b)),
                    WordKind::Tdh => {
                        let t = words::Tdh::decode(b);
                        let kind = if t.trigger_type & (1 << 9) != 0 {
                            "SOC"
                        } else if t.internal {
                            "Internal"
                        } else if t.trigger_type & (1 << 4) != 0 {
                            "PhT"
                        } else {
                            "Other"
                        };
                        format!("{off:X}: TDH {} {} {} {} {}_{:>4}", word_dump(b), kind, if t.continuation { "Cont." } else { "" }, if t.no_data { "No data" } else { "Data!" }, t.orbit, t.bc)
                    }
                    WordKind::Data => {
                        if !data {
                            continue;
                        }
                        format!("{off:X}: DATA {}", word_dump(b))
                    }
                    WordKind::Unknown => continue,
                };
                rows.push(toks(&row));
            }
        }
    }
    rows
}

pub fn parse_rows(out: &str) -> Vec<Vec<String>> {
    let mut rows = Vec::new();
    for line in out.lines() {
        let Some((a, _)) = line.split_once(':') else { continue };
        let a = a.trim();
        if a.is_empty() || !a.chars().all(|c| c.is_ascii_hexdigit()) {
            continue;
        }
        rows.push(toks(line));
    }
    rows
}

fn alphabet_stream(fmt: u8, variant: usize) -> Vec<Packet> {
    let mut packets = Vec::new();
    let mut rdh_variants: Vec<Rdh> = Vec::new();
    let triggers = [1u32 << 9 | 3, 1 << 7 | 1, 2, 1 << 4, 1 << 11, 0x6A03, 0xFFFF_FFFF, 1];
    let layers_staves = [(0u8, 0u8), (2, 19), (3, 23), (4, 29), (5, 41), (6, 47), (1, 7)];
    for i in 0..8usize {
        let mut r = Rdh::base();
        r.header_id = if (i + variant) % 3 == 0 { 6 } else { 7 };
        // fmt 9 = mixed: the packets of one batch alternate between data formats 2 and 0
        r.data_format = if fmt == 9 { [2u8, 0][i % 2] } else { fmt };
        r.link_id = [0u8, 1, 5, 11, 15, 9, 2, 3][i];
        let (l, s) = layers_staves[(i + variant) % layers_staves.len()];
        r.fee_id = Rdh::its_fee_id(l, s, (i % 3) as u8);
        r.trigger_type = triggers[(i + variant) % triggers.len()];
        r.stop_bit = (i % 2) as u8;
        r.pages_counter = i as u16;
        r.detector_field = [0u32, 1, 2, 4, 8, 0xF, 0x0700_0030, 3][(i + 2 * variant) % 8];
        r.orbit = [0u32, 1, 0xFFFF_FFFF, 192_796_021, 77, 4_000_000_000, 5, 6][i];
        r.bc = [0u16, 1, 0xdeb, 256, 99, 3563, 7, 8][i];
        r.packet_counter = i as u8;
        rdh_variants.push(r);
    }
    // words: all TDH combinations
    let mut all_words: Vec<[u8; 10]> = Vec::new();
    all_words.push(words::ihw(0x0FFF_FFFF));
    all_words.push(words::ihw(0x5));
    for tt in [1u16 << 9, 1 << 4, 1, 0] {
        for internal in [false, true] {
            for nd in [false, true] {
                for cont in [false, true] {
                    all_words.push(words::Tdh { trigger_type: tt | (variant as u16 & 1), internal, no_data: nd, continuation: cont, bc: [0u16, 1, 3563, 256][(tt as usize + variant) % 4], orbit: [0u32, 0xFFFF_FFFF, 192_796_021][(nd as usize + cont as usize + variant) % 3] }.encode());
                }
            }
        }
    }
    for done in [false, true] {
        for (lane, v) in [(0usize, 0u64), (0, 1), (0, 2), (0, 3), (13, 1), (13, 2), (13, 3), (27, 1), (27, 2), (27, 3), (5, 1), (6, 2)] {
            let mut ls = v << (2 * lane);
            if lane == 5 {
                ls |= 2 << 12; // warning on lane 5 together with an error on lane 6
            }
            all_words.push(words::Tdt { lane_status: ls, packet_done: done, transmission_timeout: variant % 2 == 1, ..Default::default() }.encode());
            if done {
                all_words.push(words::Ddw0 { lane_status: ls, ..Default::default() }.encode());
            }
        }
    }
    // a warning on one lane and an error on another, for every ordered pair over lanes that share / do not share a
    // byte and a position inside the byte: the worst state shown is "Error", never "Fatal"
    {
        let lanes = [0usize, 1, 4, 5, 13, 26, 27];
        for (i, &a) in lanes.iter().enumerate() {
            for (j, &b) in lanes.iter().enumerate() {
                if a == b {
                    continue;
                }
                let ls = (1u64 << (2 * a)) | (2u64 << (2 * b));
                if (i + j + variant) % 2 == 0 {
                    all_words.push(words::Tdt { lane_status: ls, packet_done: (i + j) % 3 != 0, ..Default::default() }.encode());
                } else {
                    all_words.push(words::Ddw0 { lane_status: ls, ..Default::default() }.encode());
                }
            }
        }
    }
    all_words.push(words::cdw(0xABCDEF, 3));
    for id in [0x20u8, 0x28, 0x40, 0x46, 0x48, 0x4E, 0x50, 0x58, 0x5E] {
        all_words.push(words::data_word(id, [id ^ 0x5A; 9]));
    }
    // distribute the words over the packets (the order is not a legal protocol sequence: views do not care)
    let per = all_words.len().div_ceil(rdh_variants.len());
    for (i, r) in rdh_variants.into_iter().enumerate() {
        // every packet starts with an IHW and a data word: the second word of a payload must not begin with six
        // zero bytes, or the tool takes a format-2 payload for format 0 (known finding, judged separately)
        let mut ws: Vec<[u8; 10]> = vec![words::ihw(0x0FFF_FFFF), words::data_word(0x21, [0x99; 9])];
        ws.extend(all_words.iter().skip(i * per).take(per).copied());
        let f = r.data_format;
        packets.push(Packet::framed(r, payload::pack(&ws, f)));
    }
    // the first RDH must be recognisable for the CLI
    packets[0].rdh.header_id = 7;
    packets
}

struct Case {
    label: String,
    bytes: Vec<u8>,
    view: &'static str,
    filter: Option<Filter>,
    /// ground truth word kinds (conforming streams)
    truth_kinds: Option<Vec<&'static str>>,
}

fn run_view(bytes: &[u8], view: &str, filter: Option<Filter>, styled: bool) -> Result<String, String> {
    // the styled run reads the input from stdin, the unstyled one from a file
    let stdin = styled;
    let scratch = Scratch::new("c19");
    let mut a = if stdin { vec![] } else { vec![scratch.file("in.raw", bytes).display().to_string()] };
    a.extend(filter_args(filter));
    a.extend(["view".to_string(), view.to_string()]);
    if !styled {
        a.push("-d".into());
    }
    let mut run = Run::new(&a).cwd(&scratch.path);
    if stdin {
        run = run.stdin(bytes);
    }
    let r = run.run();
    if r.crashed() || r.status != Some(0) {
        return Err(format!("exit {:?} signal {:?}: {}", r.status, r.signal, r.stderr_str().chars().take(300).collect::<String>()));
    }
    Ok(r.stdout_str())
}

fn run_case(c: &Case) -> Option<(String, String)> {
    let plain = match run_view(&c.bytes, c.view, c.filter, false) {
        Ok(o) => o,
        Err(e) => return Some(("view-failed".into(), e)),
    };
    let rows = parse_rows(&plain);
    let want: Vec<Vec<String>> = if c.view == "rdh" {
        let (walked, _) = stream::walk(&c.bytes);
        walked
            .iter()
            .filter(|w| c.filter.map_or(true, |f| f.matches(&w.rdh)))
            .map(|w| {
                let mut t = vec![format!("{:X}:", w.offset)];
                t.extend(crate::c03::expected_rdh_tokens(&w.rdh));
                t
            })
            .collect()
    } else {
        expected_frame_rows(&c.bytes, c.filter, c.view == "its-readout-frames-data")
    };
    if rows.len() != want.len() {
        return Some(("row-count".into(), format!("{} rows printed, {} RDHs / words to show", rows.len(), want.len())));
    }
    for (i, (g, w)) in rows.iter().zip(want.iter()).enumerate() {
        if g != w {
            let kind = w.get(1).cloned().unwrap_or_default();
            return Some((format!("row-content:{}", if c.view == "rdh" { "RDH".to_string() } else { kind }), format!("row {i}: printed {:?}, the bytes at that offset decode to {:?}", g, w)));
        }
    }
    // styled output carries the same tokens
    match run_view(&c.bytes, c.view, c.filter, true) {
        Err(e) => return Some(("styled-view-failed".into(), e)),
        Ok(st) => {
            let srows = parse_rows(&strip_ansi(&st));
            if srows != rows {
                let i = srows.iter().zip(rows.iter()).position(|(a, b)| a != b).unwrap_or(srows.len().min(rows.len()));
                return Some(("styled-differs".into(), format!("styled and unstyled output differ at row {i}: {:?} vs {:?}", srows.get(i), rows.get(i))));
            }
        }
    }
    if let Some(t) = &c.truth_kinds {
        let shown: Vec<&str> = rows.iter().filter_map(|r| r.get(1).map(|s| s.as_str())).collect();
        let shown: Vec<&str> = shown.into_iter().collect();
        if shown != *t {
            return Some(("word-types-differ-from-checker".into(), format!("word types shown {:?} differ from the classification {:?}", shown.iter().take(12).collect::<Vec<_>>(), t.iter().take(12).collect::<Vec<_>>())));
        }
    }
    None
}

pub fn run(tier: Tier) -> i32 {
    let mut rep = Reporter::new("C19", tier, "exploration");
    let mut cases = Vec::new();
    let variants = if tier.is_thorough() { 6 } else { 2 };
    // (data format 1 passes the RDH sanity check like 0 and 2; only format 0 has 16-byte word slots)
    for fmt in [0u8, 1, 2, 9] {
        for v in 0..variants {
            let pk = alphabet_stream(fmt, v);
            let bytes = stream::to_bytes(&pk);
            for view in ["rdh", "its-readout-frames", "its-readout-frames-data"] {
                for f in [None, Some(Filter::Link(pk[2].rdh.link_id)), Some(Filter::Fee(pk[3].rdh.fee_id)), Some(Filter::LayerStave(pk[5].rdh.fee_id))] {
                    if f.is_some() && v > 0 && !tier.is_thorough() {
                        continue;
                    }
                    cases.push(Case { label: format!("alphabet stream fmt {fmt} variant {v}"), bytes: bytes.clone(), view, filter: f, truth_kinds: None });
                }
            }
        }
    }
    // every combination of the four lane-status bits of the detector field (and with the upper status bits set), one
    // RDH each: the views show the most severe one
    for fmt in [0u8, 2] {
        let mut pk = Vec::new();
        for v in 0..32u32 {
            let mut r = Rdh::base();
            r.data_format = fmt;
            r.pages_counter = v as u16;
            r.detector_field = (v & 0xF) | if v >= 16 { 0x0700_0030 } else { 0 };
            pk.push(Packet::framed(r, payload::pack(&[words::ihw(0x7), words::data_word(0x21, [0x42; 9])], fmt)));
        }
        let bytes = stream::to_bytes(&pk);
        for view in ["its-readout-frames", "its-readout-frames-data", "rdh"] {
            cases.push(Case { label: format!("detector-field lane status nibble sweep fmt {fmt}"), bytes: bytes.clone(), view, filter: None, truth_kinds: None });
        }
    }
    // arbitrary header bytes (reserved bits set too) in `view rdh`: styled and unstyled rows must both decode the fields
    for salt in 0..(if tier.is_thorough() { 12u64 } else { 4 }) {
        let mut pk = crate::gen::recognisable_pattern_stream(&[0, 1, 2, 0, 1, 2], 7000 + salt);
        for p in pk.iter_mut() {
            p.rdh.system_id = 0x20;
        }
        cases.push(Case { label: format!("arbitrary header bytes, salt {salt}"), bytes: stream::to_bytes(&pk), view: "rdh", filter: None, truth_kinds: None });
    }
    for w in witnesses() {
        let s = grammar::interleave(&w.links, &w.order);
        let bytes = s.bytes();
        for (view, data) in [("its-readout-frames", false), ("its-readout-frames-data", true)] {
            let mut kinds: Vec<&'static str> = Vec::new();
            for (_, p) in &s.packets {
                kinds.push("RDH");
                for wd in &p.words {
                    match wd.kind {
                        WKind::Ihw | WKind::IhwCont => kinds.push("IHW"),
                        WKind::Tdh | WKind::TdhAfter | WKind::TdhCont => kinds.push("TDH"),
                        WKind::Tdt => kinds.push("TDT"),
                        WKind::Ddw0 => kinds.push("DDW"),
                        WKind::Cdw => kinds.push("CDW"),
                        WKind::Data => {
                            if data {
                                kinds.push("DATA")
                            }
                        }
                    }
                }
            }
            cases.push(Case { label: format!("witness {}", w.name), bytes: bytes.clone(), view, filter: None, truth_kinds: Some(kinds) });
        }
        cases.push(Case { label: format!("witness {}", w.name), bytes: bytes.clone(), view: "rdh", filter: None, truth_kinds: None });
    }
    let res = par_map(&cases, |_, c| run_case(c));
    for (c, r) in cases.iter().zip(res.iter()) {
        if let Some((sig, d)) = r {
            rep.violation(Violation {
                signature: format!("view:{sig}:{}", c.view),
                description: format!("{d} [{} | view {} | filter {:?}]", c.label, c.view, c.filter),
                replay: json!({"view": c.view, "filter": format!("{:?}", c.filter), "input_hex": hex(&c.bytes)}),
            });
        }
    }
    // options that mean nothing to a view leave it as it is: an output destination (documented as ignored when a view
    // is given), muting, an error exit code, statistics to a file - on a stream of several reader batches
    let mut neutral_runs = 0u64;
    {
        let pattern: Vec<u8> = (0..330).map(|i| (i % 2) as u8).collect();
        let pk = crate::gen::recognisable_pattern_stream(&pattern, 19_000);
        let bytes = stream::to_bytes(&pk);
        let l = pk[0].rdh.link_id;
        let sv = |a: &[&str]| a.iter().map(|x| x.to_string()).collect::<Vec<String>>();
        let extras: Vec<Vec<String>> = vec![sv(&["-o", "ignored.raw"]), sv(&["-o", "stdout"]), sv(&["-m"]), sv(&["-E", "7"]), sv(&["-S", "st.json", "-D", "json"]), sv(&["-o", "ignored.raw", "-m", "-E", "7"])];
        let mut jobs: Vec<(&str, bool, Vec<String>)> = Vec::new();
        for view in ["rdh", "its-readout-frames"] {
            for filtered in [true, false] {
                for e in &extras {
                    // an output destination needs a filter on the command line
                    if !filtered && e.iter().any(|x| x == "-o") {
                        continue;
                    }
                    jobs.push((view, filtered, e.clone()));
                }
            }
        }
        let res = par_map(&jobs, |_, (view, filtered, extra)| -> Option<String> {
            let run = |extra: &[String]| {
                let scratch = Scratch::new("c19n");
                let mut a = vec![scratch.file("in.raw", &bytes).display().to_string()];
                if *filtered {
                    a.extend(["--filter-link".to_string(), l.to_string()]);
                }
                a.extend(extra.iter().cloned());
                a.extend(["view".to_string(), view.to_string(), "-d".to_string()]);
                Run::new(&a).cwd(&scratch.path).run()
            };
            let reference = run(&[]);
            let with = run(extra);
            if with.crashed() || reference.crashed() {
                return Some(format!("crash (signal {:?})", with.signal));
            }
            if with.status != reference.status || with.stdout != reference.stdout {
                let (a, b) = (reference.stdout_str().lines().count(), with.stdout_str().lines().count());
                return Some(format!("exit {:?} vs {:?}, {a} output lines without the option(s), {b} with", reference.status, with.status));
            }
            None
        });
        for ((view, filtered, extra), r) in jobs.iter().zip(res.iter()) {
            neutral_runs += 2;
            if let Some(d) = r {
                rep.violation(Violation { signature: format!("view:changed-by-a-neutral-option:{view}"), description: format!("{d} [view {view}, filter {filtered}, extra options {:?}, 330 packets]", extra), replay: json!({"view": view, "filtered": filtered, "extra": extra}) });
            }
        }
    }
    // the terminal: the styled views written to a pseudo-terminal of 200 / 100 / 80 / 60 / 40 columns, with and without
    // COLUMNS exported, show the same tokens as the same view written to a pipe (nothing is cut off or wrapped away)
    let mut terminal_runs = 0u64;
    {
        let mut jobs: Vec<(u8, &str, u16, bool)> = Vec::new();
        for fmt in [2u8, 0] {
            for view in ["rdh", "its-readout-frames", "its-readout-frames-data"] {
                for cols in [200u16, 100, 80, 60, 40] {
                    for export in [false, true] {
                        jobs.push((fmt, view, cols, export));
                    }
                }
            }
        }
        let tokens = |out: &[u8]| -> Vec<Vec<String>> { strip_ansi(&String::from_utf8_lossy(out)).lines().map(|l| l.split_whitespace().map(|t| t.to_string()).collect::<Vec<_>>()).filter(|t: &Vec<String>| !t.is_empty()).collect() };
        let res = par_map(&jobs, |_, (fmt, view, cols, export)| -> Option<String> {
            let bytes = stream::to_bytes(&alphabet_stream(*fmt, 0));
            let scratch = Scratch::new("c19t");
            let a = vec![scratch.file("in.raw", &bytes).display().to_string(), "view".to_string(), view.to_string()];
            let piped = Run::new(&a).cwd(&scratch.path).run();
            let env: Vec<(&str, String)> = if *export { vec![("COLUMNS", cols.to_string())] } else { vec![] };
            let Some((out, status)) = fp_harness::cli::run_on_pty(&a, &scratch.path, *cols, &env) else { return Some("__nopty".into()) };
            if status != piped.status {
                return Some(format!("exit {:?} on the terminal, {:?} into a pipe", status, piped.status));
            }
            let (tp, tt) = (tokens(&piped.stdout), tokens(&out));
            if tp != tt {
                let i = tp.iter().zip(tt.iter()).position(|(x, y)| x != y).unwrap_or(tp.len().min(tt.len()));
                return Some(format!("row {i} differs: pipe {:?}, terminal {:?} ({} vs {} rows)", tp.get(i), tt.get(i), tp.len(), tt.len()));
            }
            None
        });
        let mut nopty = false;
        for ((fmt, view, cols, export), r) in jobs.iter().zip(res.iter()) {
            terminal_runs += 1;
            match r {
                Some(d) if d == "__nopty" => nopty = true,
                Some(d) => rep.violation(Violation { signature: format!("view:terminal-differs-from-pipe:{view}"), description: format!("{d} [format {fmt}, view {view}, {cols} columns, COLUMNS exported: {export}]"), replay: json!({"view": view, "fmt": fmt, "cols": cols, "export": export}) }),
                None => {}
            }
        }
        if nopty {
            rep.machinery_error("no pseudo-terminal could be opened".into());
        }
    }
    // thorough: positions beyond 2^32 - 430 000 packets of another link with 10 000-byte payloads (4.3 GB, streamed) in
    // front of a small stream; with the link filter the views show the small stream's rows, offsets shifted by the filler
    if tier.is_thorough() {
        let mut tail_pk = alphabet_stream(2, 0);
        for p in tail_pk.iter_mut() {
            p.rdh.link_id = 8;
        }
        let tail = stream::to_bytes(&tail_pk);
        let mut fr = Rdh::base();
        fr.link_id = 0;
        fr.memory_size = 10_064;
        fr.offset_next = 10_064;
        let mut unit = fr.encode().to_vec();
        unit.extend(std::iter::repeat(0x5Au8).take(10_000));
        let times = 430_000usize;
        let shift = (unit.len() * times) as u64;
        let rows = |out: &[u8], shift: u64| -> Vec<String> {
            strip_ansi(&String::from_utf8_lossy(out))
                .lines()
                .filter_map(|l| {
                    let t = l.trim_start();
                    let (off, rest) = t.split_once(':')?;
                    let o = u64::from_str_radix(off.trim(), 16).ok()?;
                    Some(format!("{:X}:{}", o.checked_sub(shift)?, rest.split_whitespace().collect::<Vec<_>>().join(" ")))
                })
                .collect()
        };
        for view in ["rdh", "its-readout-frames", "its-readout-frames-data"] {
            let scratch = Scratch::new("c19big");
            let a0 = vec![scratch.file("tail.raw", &tail).display().to_string(), "--filter-link".to_string(), "8".to_string(), "view".to_string(), view.to_string(), "-d".to_string()];
            let small = Run::new(&a0).cwd(&scratch.path).run();
            let a1: Vec<String> = vec!["--filter-link".into(), "8".into(), "view".into(), view.into(), "-d".into()];
            let big = Run::new(&a1).cwd(&scratch.path).timeout_s(900).stdin_repeat(unit.clone(), times, tail.clone()).run();
            let (rs, rb) = (rows(&small.stdout, 0), rows(&big.stdout, shift));
            if big.crashed() || big.status != small.status || rs != rb || rs.is_empty() {
                let i = rs.iter().zip(rb.iter()).position(|(x, y)| x != y).unwrap_or(rs.len().min(rb.len()));
                rep.violation(Violation { signature: format!("view:rows-beyond-4-gib:{view}"), description: format!("view {view} of a small stream behind 4.3 GB of another link: exit {:?} vs {:?}; {} rows vs {} rows; first difference at row {i}: {:?} vs {:?}", big.status, small.status, rb.len(), rs.len(), rb.get(i), rs.get(i)), replay: json!({"kind": "beyond-4-gib", "view": view}) });
            }
        }
        rep.cov("beyond_4_gib_views", json!(3));
    }
    rep.cov("terminal_runs", json!(terminal_runs));
    rep.cov("neutral_option_runs", json!(neutral_runs));
    rep.cov("evaluations", json!(cases.len() as u64 * 2 + neutral_runs + terminal_runs));
    rep.cov("distinct_nontrivial", json!(cases.len()));
    rep.cov("exhaustive", json!(true));
    rep.cov("rule", json!("alphabet streams (8 RDH variants: versions 6/7, stop 0/1, 7 layer/stave pairs, 8 link ids, 8 trigger kinds, 8 detector-field patterns, orbit / BC extremes; words: 2 IHW, 32 TDH flag/trigger combinations, 24 TDT and 12 DDW0 lane-fault patterns, CDW, 9 data word ids) x data formats 0 / 2 / alternating within one batch x 2 (6) value variants x 3 views x 4 filters x {styled from stdin, -d from a file}; all 16 lane-status nibbles of the detector field (with and without the upper status bits) x 3 views; 6 witnesses x 3 views with ground-truth word types. Every row is compared token by token with the model's decode at that offset"));
    rep.sample(json!({"row": "4A: TDH [03 1A 00 00 75 D5 7D 0B 00 E8] SOC Data! 192796021_ 0"}));
    rep.assume("spacing is normalised (tokens compared); the colour / style sequences are stripped, not judged");
    rep.finish()
}

pub fn replay(v: &serde_json::Value) -> i32 {
    let r = &v["replay"];
    let bytes = fp_model::util::unhex(r["input_hex"].as_str().unwrap());
    let view: &'static str = match r["view"].as_str().unwrap() {
        "rdh" => "rdh",
        "its-readout-frames" => "its-readout-frames",
        _ => "its-readout-frames-data",
    };
    let c = Case { label: "replay".into(), bytes, view, filter: None, truth_kinds: None };
    match run_case(&c) {
        Some((s, d)) => {
            println!("REPLAY: violation reproduced: {s}: {d}");
            1
        }
        None => {
            println!("REPLAY: no violation (without the filter)");
            0
        }
    }
}
