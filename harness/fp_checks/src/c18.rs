//! C18 — input truncated at any byte is handled; the intact prefix is still analysed.
//!
//! Fault enumeration: every cut position 0..=len of the base streams, (a) in-process through the real scanner
//! (file-like and pipe-like) + real validators, (b) on the real CLI (file and stdin; checks and views).
//! Oracle: normal termination; messages about packets complete before the cut are identical to those of the
//! untruncated run; every other message concerns the incomplete final packet.
use crate::c02::{split_cli_errors, strip_ansi, witnesses};
use crate::c03::parse_rdh_rows;
use crate::faults;
use crate::lite::run_lite;
use crate::val::{self, Mode};
use fp_harness::cli::{Run, Scratch};
use fp_harness::par::par_map;
use fp_harness::{Reporter, Tier, Violation};
use fp_model::grammar::{self, LinkCfg};
use fp_model::rules;
use fp_model::stream::{self, WalkEnd};
use fp_model::util::hex;
use serde_json::json;
use std::sync::Arc;

struct Base {
    name: String,
    bytes: Arc<Vec<u8>>,
    stave: bool,
}

fn bases(tier: Tier) -> Vec<Base> {
    let mut v = Vec::new();
    for stave in [false, true] {
        // a 2-HBF single-link stream
        let c = LinkCfg::ib(0, 3);
        let sh: Vec<_> = if stave { grammar::stave_hbf_shapes(&c) } else { grammar::basic_hbf_shapes(&c) }.into_iter().map(|x| x.1).collect();
        let l = grammar::render_link(&c, &[sh[0].clone(), sh[2].clone()]);
        v.push(Base { name: format!("2hbf-1link{}", if stave { "-frames" } else { "" }), bytes: Arc::new(grammar::contiguous(&[l]).bytes()), stave });
    }
    // two interleaved links with a continuation
    let a = LinkCfg::ib(0, 3);
    let mut b = LinkCfg::ol(1, 9, false);
    b.data_format = 0;
    let sa = grammar::basic_hbf_shapes(&a);
    let sb = grammar::basic_hbf_shapes(&b);
    let la = grammar::render_link(&a, &[sa[6].1.clone()]);
    let lb = grammar::render_link(&b, &[sb[1].1.clone(), sb[4].1.clone()]);
    v.push(Base { name: "2links-interleaved".into(), bytes: Arc::new(grammar::round_robin(&[la, lb]).bytes()), stave: false });
    // one corrupted stream (several catalogue faults at once): messages exist before the cut
    let ws = witnesses();
    let w = &ws[0];
    let cat = faults::catalogue();
    let pick = |name: &str| cat.iter().find(|f| f.name == name).unwrap();
    let f1 = pick("rdh.bc=0xdec");
    let s1 = crate::c02::sites(w, f1)[2];
    let m = crate::c02::mutate(w, f1, s1);
    let mut bytes: Vec<u8> = m.packets.iter().take(if tier.is_thorough() { 12 } else { 6 }).flat_map(|(_, p)| p.packet.bytes()).collect();
    // and a word-level fault in the second packet: TDT reserved bit
    let (walked, _) = stream::walk(&bytes);
    if walked.len() > 1 {
        let p = &walked[1];
        let last_word = p.payload.0 + ((p.payload.1 - p.payload.0) / 16).saturating_sub(1) * 10;
        if last_word + 9 < bytes.len() {
            bytes[last_word + 7] |= 0x01;
        }
    }
    v.push(Base { name: "corrupted".into(), bytes: Arc::new(bytes), stave: false });
    // packets of 112 and 80 bytes: their end offsets (where the tool places the message about an incomplete packet)
    // run through many leading hex digits incl. letters: 0x70, 0xC0, 0x130, 0x180, 0x1F0, ..., 0xA20, 0xA90, ...
    {
        let c = LinkCfg::ib(0, 5);
        let sh = grammar::basic_hbf_shapes(&c);
        let n = if tier.is_thorough() { 30 } else { 14 };
        let mut pk = grammar::render_link(&c, &vec![sh[1].1.clone(); n]);
        // two RDH sanity faults early in the stream: the message about the incomplete packet is never the only one
        pk[1].packet.rdh.rdh1_reserved = 1;
        pk[2].packet.rdh.rdh3_reserved = 0x0101;
        v.push(Base { name: "offset-digits".into(), bytes: Arc::new(grammar::contiguous(&[pk]).bytes()), stave: false });
    }
    v
}

#[derive(Clone, Debug, PartialEq)]
struct Cut {
    /// offset of the first packet that is not complete before the cut (== cut when the cut is at a boundary)
    incomplete_at: u64,
    n_complete: usize,
    /// number of complete 64-byte headers
    n_headers: usize,
}

fn cut_info(bytes: &[u8]) -> Cut {
    let (walked, end) = stream::walk(bytes);
    let n_complete = walked.iter().filter(|w| w.complete).count();
    let incomplete_at = match end {
        WalkEnd::Clean => bytes.len() as u64,
        WalkEnd::PartialHeader { offset, .. } => offset,
        WalkEnd::PartialPayload { offset } => offset,
        WalkEnd::BadOffset { offset, .. } => offset,
    };
    Cut { incomplete_at, n_complete, n_headers: walked.len() }
}

fn msg_offset(m: &str) -> Option<u64> {
    rules::parse_error_message(m).map(|x| x.0)
}

/// Messages of the truncated run vs the full run.
fn compare_msgs(full: &[String], cut_msgs: &[String], ci: &Cut, what: &str) -> Option<(String, String)> {
    let before = |m: &&String| msg_offset(m).map_or(false, |o| o < ci.incomplete_at);
    let a: Vec<&String> = full.iter().filter(before).collect();
    let b: Vec<&String> = cut_msgs.iter().filter(before).collect();
    let mut sa: Vec<String> = a.iter().map(|s| s.to_string()).collect();
    let mut sb: Vec<String> = b.iter().map(|s| s.to_string()).collect();
    sa.sort();
    sb.sort();
    if sa != sb {
        let missing: Vec<&String> = sa.iter().filter(|x| !sb.contains(x)).collect();
        let extra: Vec<&String> = sb.iter().filter(|x| !sa.contains(x)).collect();
        return Some((
            format!("prefix-findings-differ:{what}"),
            format!(
                "findings for the packets complete before the cut differ from the untruncated run: missing {:?}, extra {:?}",
                missing.first().map(|s| s.lines().next().unwrap_or("")),
                extra.first().map(|s| s.lines().next().unwrap_or(""))
            ),
        ));
    }
    None
}

fn in_process_case(full_msgs: &[String], bytes: &[u8], cut: usize, mode: Mode, pipe: bool) -> Option<(String, String)> {
    let t = Arc::new(bytes[..cut].to_vec());
    let ci = cut_info(&t);
    let out = run_lite(t.clone(), mode, None, pipe);
    if let Some(p) = out.panic {
        return Some((format!("panic:{}", val::panic_site(&p)), p));
    }
    if !out.fatal.is_empty() {
        return Some(("fatal-on-truncation".into(), format!("fatal message for a truncated but well-framed prefix: {}", out.fatal[0].lines().next().unwrap_or(""))));
    }
    if out.packet_offsets.len() < ci.n_complete {
        return Some(("complete-packet-lost".into(), format!("{} packets delivered, {} are complete before the cut", out.packet_offsets.len(), ci.n_complete)));
    }
    compare_msgs(full_msgs, &out.errors, &ci, "in-process")
}

fn cli_case(full: &CliFull, bytes: &[u8], cut: usize, args: &[&str], stdin: bool) -> Option<(String, String)> {
    let t = &bytes[..cut];
    let ci = cut_info(t);
    let scratch = Scratch::new("c18");
    let mut a: Vec<String> = Vec::new();
    if !stdin {
        a.push(scratch.file("in.raw", t).display().to_string());
    }
    a.extend(args.iter().map(|s| s.to_string()));
    let statp = scratch.join("st.json");
    if args[0] == "check" {
        a.extend(["-S".to_string(), statp.display().to_string(), "-D".to_string(), "json".to_string()]);
    }
    let mut run = Run::new(&a).cwd(&scratch.path);
    if stdin {
        run = run.stdin(t);
    }
    let res = run.run();
    if args[0] == "check" && !res.crashed() && cut >= 64 {
        // every complete packet was visited (the statistics count them)
        let seen = std::fs::read_to_string(&statp).ok().and_then(|t| serde_json::from_str::<serde_json::Value>(&t).ok()).and_then(|v| v["rdh_stats"]["rdhs_seen"].as_u64());
        match seen {
            Some(n) if (n as usize) >= ci.n_complete && (n as usize) <= ci.n_headers.max(ci.n_complete) => {}
            other => return Some(("complete-packet-lost:cli".into(), format!("statistics count {:?} RDHs, {} packets are complete before the cut ({} complete headers)", other, ci.n_complete, ci.n_headers))),
        }
    }
    if res.crashed() {
        let site = res.stderr_str().lines().find(|l| l.contains("panicked at")).map(|l| l.to_string()).unwrap_or_default();
        return Some((format!("cli-abnormal-exit:{}", if res.timed_out { "timeout" } else { "signal" }), format!("signal {:?} timed_out {} [{}] {}", res.signal, res.timed_out, args.join(" "), site)));
    }
    if !matches!(res.status, Some(0) | Some(1)) {
        return Some(("cli-exit-status".into(), format!("exit {:?}", res.status)));
    }
    if args[0] == "view" && args[1] == "rdh" {
        let rows = parse_rdh_rows(&strip_ansi(&res.stdout_str()));
        // rows of complete packets are a prefix of the full run's rows
        if rows.len() < ci.n_complete || rows.len() > ci.n_headers.max(ci.n_complete) {
            return Some(("view-row-count".into(), format!("{} rows, {} complete packets, {} complete headers", rows.len(), ci.n_complete, ci.n_headers)));
        }
        for (i, r) in rows.iter().take(ci.n_complete).enumerate() {
            if full.rows.get(i) != Some(r) {
                return Some(("view-row-differs".into(), format!("row {i} differs from the untruncated run")));
            }
        }
        return None;
    }
    if args[0] == "view" {
        // readout-frame views: the lines for complete packets are a prefix of the full output
        let out = strip_ansi(&res.stdout_str());
        let lines: Vec<&str> = out.lines().filter(|l| l.contains(':') && !l.trim().is_empty()).collect();
        let keep: Vec<&str> = lines
            .iter()
            .copied()
            .filter(|l| line_offset(l).map_or(false, |o| o < ci.incomplete_at))
            .collect();
        let want: Vec<&str> = full.view_lines.iter().map(|s| s.as_str()).filter(|l| line_offset(l).map_or(false, |o| o < ci.incomplete_at)).collect();
        if keep != want {
            return Some(("view-lines-differ".into(), format!("{} lines before the cut, untruncated run has {}", keep.len(), want.len())));
        }
        return None;
    }
    let msgs = split_cli_errors(&res.stderr_str());
    compare_msgs(&full.msgs, &msgs, &ci, "cli")
}

/// As `cli_case`, for runs with a filter: rows / findings whose offset lies before the first incomplete packet must be
/// exactly those of the filtered untruncated run.
fn cli_case_filtered(full: &CliFull, bytes: &[u8], cut: usize, args: &[&str], stdin: bool) -> Option<(String, String)> {
    let t = &bytes[..cut];
    let ci = cut_info(t);
    let scratch = Scratch::new("c18e");
    let mut a: Vec<String> = Vec::new();
    if !stdin {
        a.push(scratch.file("in.raw", t).display().to_string());
    }
    a.extend(args.iter().map(|s| s.to_string()));
    let mut run = Run::new(&a).cwd(&scratch.path);
    if stdin {
        run = run.stdin(t);
    }
    let res = run.run();
    if res.crashed() {
        let site = res.stderr_str().lines().find(|l| l.contains("panicked at")).map(|l| l.to_string()).unwrap_or_default();
        return Some((format!("cli-abnormal-exit:{}", if res.timed_out { "timeout" } else { "signal" }), format!("signal {:?} timed_out {} {}", res.signal, res.timed_out, site)));
    }
    if !matches!(res.status, Some(0) | Some(1)) {
        return Some(("cli-exit-status".into(), format!("exit {:?}", res.status)));
    }
    if args[0] == "view" {
        let rows = parse_rdh_rows(&strip_ansi(&res.stdout_str()));
        let got: Vec<&(u64, Vec<String>)> = rows.iter().filter(|r| r.0 < ci.incomplete_at).collect();
        let want: Vec<&(u64, Vec<String>)> = full.rows.iter().filter(|r| r.0 < ci.incomplete_at).collect();
        if got != want {
            return Some(("view-rows-differ".into(), format!("{} rows for selected packets complete before the cut, the untruncated filtered run has {}", got.len(), want.len())));
        }
        return None;
    }
    let msgs = split_cli_errors(&res.stderr_str());
    compare_msgs(&full.msgs, &msgs, &ci, "cli")
}

fn line_offset(l: &str) -> Option<u64> {
    let (a, _) = l.split_once(':')?;
    let a = a.trim();
    if a.is_empty() || !a.chars().all(|c| c.is_ascii_hexdigit()) {
        return None;
    }
    u64::from_str_radix(a, 16).ok()
}

struct CliFull {
    msgs: Vec<String>,
    rows: Vec<(u64, Vec<String>)>,
    view_lines: Vec<String>,
}

fn cli_full(bytes: &[u8], args: &[&str]) -> CliFull {
    let scratch = Scratch::new("c18f");
    let mut a: Vec<String> = vec![scratch.file("in.raw", bytes).display().to_string()];
    a.extend(args.iter().map(|s| s.to_string()));
    let res = Run::new(&a).cwd(&scratch.path).run();
    let out = strip_ansi(&res.stdout_str());
    CliFull {
        msgs: split_cli_errors(&res.stderr_str()),
        rows: parse_rdh_rows(&out),
        view_lines: out.lines().filter(|l| l.contains(':') && !l.trim().is_empty()).map(|s| s.to_string()).collect(),
    }
}

pub fn run(tier: Tier) -> i32 {
    val::init_process();
    let mut rep = Reporter::new("C18", tier, "fault_enumeration");
    let bs = bases(tier);
    let mut evaluations = 0u64;
    let mut inside = 0u64;
    // (a) in-process, every cut
    for b in &bs {
        let modes: Vec<Mode> = if b.stave { vec![Mode::AllStave] } else { vec![Mode::AllIts, Mode::All] };
        for mode in modes {
            for pipe in [false, true] {
                let full = run_lite(b.bytes.clone(), mode, None, pipe);
                let cuts: Vec<usize> = (0..=b.bytes.len()).collect();
                let res = par_map(&cuts, |_, c| in_process_case(&full.errors, &b.bytes, *c, mode, pipe));
                for (c, r) in cuts.iter().zip(res.iter()) {
                    evaluations += 1;
                    let ci = cut_info(&b.bytes[..*c]);
                    if ci.incomplete_at != *c as u64 {
                        inside += 1;
                    }
                    if let Some((sig, d)) = r {
                        rep.violation(Violation {
                            signature: sig.clone(),
                            description: format!("{d} [base {} cut at byte {c} of {}, {} {}]", b.name, b.bytes.len(), mode.name(), if pipe { "pipe" } else { "file" }),
                            replay: json!({"kind": "in-process", "mode": mode.name(), "pipe": pipe, "cut": c, "full_hex": hex(&b.bytes)}),
                        });
                    }
                }
            }
        }
    }
    // (b) CLI, every cut of the small bases (all bases in thorough)
    let cli_modes: Vec<(Vec<&str>, bool)> = vec![
        (vec!["check", "all", "its"], false),
        (vec!["check", "all", "its-stave"], true),
        (vec!["view", "rdh", "-d"], false),
        (vec!["view", "its-readout-frames", "-d"], false),
    ];
    for (bi, b) in bs.iter().enumerate() {
        for (args, stave_only) in &cli_modes {
            // quick: the larger bases only through `check all its`
            if !tier.is_thorough() && bi >= 2 && args[0] != "check" {
                continue;
            }
            if *stave_only != b.stave {
                continue;
            }
            let full = cli_full(&b.bytes, args);
            for stdin in [false, true] {
                // quick: stdin only for the checks
                if !tier.is_thorough() && stdin && args[0] == "view" && args[1] != "rdh" {
                    continue;
                }
                let cuts: Vec<usize> = (0..=b.bytes.len()).collect();
                let res = par_map(&cuts, |_, c| cli_case(&full, &b.bytes, *c, args, stdin));
                for (c, r) in cuts.iter().zip(res.iter()) {
                    evaluations += 1;
                    if let Some((sig, d)) = r {
                        rep.violation(Violation {
                            signature: sig.clone(),
                            description: format!("{d} [base {} cut at byte {c} of {}, `{}` {}]", b.name, b.bytes.len(), args.join(" "), if stdin { "stdin" } else { "file" }),
                            replay: json!({"kind": "cli", "args": args, "stdin": stdin, "cut": c, "full_hex": hex(&b.bytes)}),
                        });
                    }
                }
            }
        }
    }
    // (c) a long stream (306 packets = more than three reader batches of 100): cuts exactly at, just before and just
    //     after the batch boundaries, and 1..65 bytes into the packet that starts a new batch
    {
        let c = LinkCfg::ib(0, 5);
        let sh = grammar::basic_hbf_shapes(&c);
        let mut pk = grammar::render_link(&c, &vec![sh[1].1.clone(); 153]);
        pk[1].packet.rdh.rdh1_reserved = 1;
        pk[150].packet.rdh.rdh3_reserved = 0x0101;
        pk[250].packet.rdh.rdh1_reserved = 1;
        let bytes = grammar::contiguous(&[pk]).bytes();
        let (walked, _) = stream::walk(&bytes);
        let mut cuts: Vec<usize> = Vec::new();
        for k in [100usize, 200, 300] {
            for j in [k - 1, k, k + 1] {
                cuts.push(walked[j].offset as usize);
            }
            let s0 = walked[k].offset as usize;
            let len = (walked[k].payload.1 - s0) as usize;
            for d in [1usize, 8, 20, 63, 64, 65] {
                cuts.push(s0 + d.min(len - 1));
            }
            cuts.push(s0 + len - 1);
        }
        cuts.sort();
        cuts.dedup();
        for args in [vec!["check", "all", "its"], vec!["view", "rdh", "-d"], vec!["view", "its-readout-frames", "-d"]] {
            let full = cli_full(&bytes, &args);
            for stdin in [false, true] {
                let res = par_map(&cuts, |_, c| cli_case(&full, &bytes, *c, &args, stdin));
                for (c, r) in cuts.iter().zip(res.iter()) {
                    evaluations += 1;
                    if let Some((sig, d)) = r {
                        rep.violation(Violation {
                            signature: format!("{sig}:batch-boundary"),
                            description: format!("{d} [306-packet base cut at byte {c} of {}, `{}` {}]", bytes.len(), args.join(" "), if stdin { "stdin" } else { "file" }),
                            replay: json!({"kind": "cli", "args": args, "stdin": stdin, "cut": c, "full_hex": hex(&bytes)}),
                        });
                    }
                }
            }
        }
        rep.cov("batch_boundary_cuts", json!(cuts.len()));
    }
    // (c2) a stream with payloads larger than 8 KiB (legal up to 10 000 bytes): cuts around and inside them
    {
        let sizes = [48usize, 9008, 160, 10_000, 32];
        let pk: Vec<fp_model::stream::Packet> = sizes.iter().enumerate().map(|(i, sz)| {
            let mut p = crate::gen::recognisable_framed((i % 2) as u8, crate::gen::fee_of_link((i % 2) as u8), *sz, 6100 + i as u64);
            p.rdh.stop_bit &= 1;
            p
        }).collect();
        let bytes = stream::to_bytes(&pk);
        let (walked, _) = stream::walk(&bytes);
        let mut cuts: Vec<usize> = Vec::new();
        for w in &walked {
            let s0 = w.offset as usize;
            let e0 = w.payload.1;
            for c in [s0, s0 + 1, s0 + 63, s0 + 64, s0 + 65, s0 + 64 + 8191, s0 + 64 + 8192, s0 + 64 + 8193, e0 - 1, e0] {
                if c <= e0 && c <= bytes.len() {
                    cuts.push(c);
                }
            }
        }
        cuts.sort();
        cuts.dedup();
        for args in [vec!["check", "sanity"], vec!["view", "rdh", "-d"], vec!["check", "all", "its"]] {
            let full = cli_full(&bytes, &args);
            for stdin in [false, true] {
                let res = par_map(&cuts, |_, c| cli_case(&full, &bytes, *c, &args, stdin));
                for (c, r) in cuts.iter().zip(res.iter()) {
                    evaluations += 1;
                    if let Some((sig, d)) = r {
                        rep.violation(Violation {
                            signature: format!("{sig}:large-payload"),
                            description: format!("{d} [stream with 9008- and 10000-byte payloads cut at byte {c} of {}, `{}` {}]", bytes.len(), args.join(" "), if stdin { "stdin" } else { "file" }),
                            replay: json!({"kind": "cli", "args": args, "stdin": stdin, "cut": c, "full_hex": hex(&bytes)}),
                        });
                    }
                }
            }
        }
    }
    // (d) truncation together with a custom-checks file whose packet-count expectation then fails (a statistics error
    //     exists although few or no RDHs were read): cuts in and around the first RDH and the first packet
    {
        let b = &bs[0];
        let (walked, _) = stream::walk(&b.bytes);
        let mut cuts: Vec<usize> = vec![0, 1, 7, 8, 9, 20, 63, 64, 65];
        cuts.push(walked[1].offset as usize - 1);
        cuts.push(walked[1].offset as usize);
        cuts.push(walked[1].offset as usize + 30);
        cuts.retain(|c| *c <= b.bytes.len());
        let mut jobs: Vec<(usize, Vec<&'static str>, bool)> = Vec::new();
        for c in &cuts {
            for m in [vec!["check", "sanity"], vec!["check", "all", "its"], vec!["view", "rdh"]] {
                for stdin in [false, true] {
                    jobs.push((*c, m.clone(), stdin));
                }
            }
        }
        let res = par_map(&jobs, |_, (c, m, stdin)| {
            let scratch = Scratch::new("c18c");
            let toml = scratch.file("checks.toml", format!("cdps = {}\n", walked.len()).as_bytes());
            let mut a: Vec<String> = Vec::new();
            if !*stdin {
                a.push(scratch.file("in.raw", &b.bytes[..*c]).display().to_string());
            }
            a.extend(m.iter().map(|x| x.to_string()));
            a.extend(["-c".to_string(), toml.display().to_string()]);
            let mut run = Run::new(&a).cwd(&scratch.path);
            if *stdin {
                run = run.stdin(&b.bytes[..*c]);
            }
            let r = run.run();
            if r.crashed() {
                Some(("cli-abnormal-exit:custom-checks".to_string(), format!("signal {:?} timed out {}: {}", r.signal, r.timed_out, r.stderr_str().lines().find(|l| l.contains("panicked at")).unwrap_or(""))))
            } else if !matches!(r.status, Some(0) | Some(1)) {
                Some(("cli-exit-status:custom-checks".to_string(), format!("exit {:?}", r.status)))
            } else {
                None
            }
        });
        for ((c, m, stdin), r) in jobs.iter().zip(res.iter()) {
            evaluations += 1;
            if let Some((sig, d)) = r {
                rep.violation(Violation { signature: sig.clone(), description: format!("{d} [base {} cut at byte {c}, `{}` with a checks file expecting all {} packets, {}]", b.name, m.join(" "), walked.len(), if *stdin { "stdin" } else { "file" }), replay: json!({"kind": "cli-custom", "cut": c, "mode": m, "stdin": stdin}) });
            }
        }
    }
    // (e) truncation together with a link filter: the cut may fall inside a packet the filter skips (on a pipe the
    //     skipped payload is read and discarded, in a file it is seeked over). Oracle: the rows / findings for the
    //     selected packets complete before the cut are those of the filtered, untruncated run.
    {
        let a = LinkCfg::ib(0, 3);
        let mut b = LinkCfg::ol(1, 9, false);
        b.data_format = 0;
        let sa = grammar::basic_hbf_shapes(&a);
        let sb = grammar::basic_hbf_shapes(&b);
        let mut la = grammar::render_link(&a, &[sa[1].1.clone(), sa[6].1.clone()]);
        let mut lb = grammar::render_link(&b, &[sb[1].1.clone(), sb[4].1.clone()]);
        la[0].packet.rdh.rdh1_reserved = 1;
        lb[0].packet.rdh.rdh3_reserved = 0x0101;
        if la.len() > 2 {
            la[2].packet.rdh.rdh1_reserved = 1;
        }
        if lb.len() > 1 {
            lb[1].packet.rdh.rdh1_reserved = 1;
        }
        // third link: with `-f 0` two packets in a row are skipped (the skip loop is entered a second time before a
        // selected packet follows); its RDHs carry a fault too, so that findings exist on every link
        let c3 = LinkCfg::ml(2, 4, false);
        let sc = grammar::basic_hbf_shapes(&c3);
        let mut lc = grammar::render_link(&c3, &[sc[1].1.clone(), sc[4].1.clone()]);
        lc[0].packet.rdh.rdh1_reserved = 1;
        let bytes2 = grammar::round_robin(&[la.clone(), lb.clone()]).bytes();
        let bytes3 = grammar::round_robin(&[la, lb, lc]).bytes();
        let mut filtered_inside_skipped = 0u64;
        let mut runs_of_two_skipped = 0u64;
        for (bname, bytes) in [("two interleaved links with RDH faults", bytes2), ("three interleaved links with RDH faults", bytes3)] {
        let three = bname.starts_with("three");
        let cuts: Vec<usize> = (0..=bytes.len()).collect();
        let (walked_all, _) = stream::walk(&bytes);
        let fee_b = format!("{}", b.fee_id);
        let filters: Vec<Vec<String>> = if three {
            vec![vec!["-f".into(), "0".into()], vec!["-f".into(), "2".into()]]
        } else {
            vec![vec!["-f".into(), "0".into()], vec!["-f".into(), "1".into()], vec!["-F".into(), fee_b.clone()]]
        };
        for filter in &filters {
            for mode in [vec!["view", "rdh", "-d"], vec!["check", "sanity"], vec!["check", "all", "its"]] {
                if !tier.is_thorough() && mode[0] == "check" && mode[1] == "all" && (filter[0] == "-F" || three) {
                    continue;
                }
                let mut args: Vec<&str> = mode.clone();
                args.extend(filter.iter().map(|s| s.as_str()));
                let full = cli_full(&bytes, &args);
                for stdin in [false, true] {
                    let res = par_map(&cuts, |_, c| cli_case_filtered(&full, &bytes, *c, &args, stdin));
                    for (c, r) in cuts.iter().zip(res.iter()) {
                        evaluations += 1;
                        // the cut lies inside a packet the filter skips?
                        if stdin && mode[0] == "view" {
                            if walked_all.iter().any(|w| (w.offset as usize) < *c && *c < w.payload.1) {
                                filtered_inside_skipped += 1;
                                if three && filter[1] == "0" {
                                    // inside the second of two packets skipped in a row (link 2 follows link 1)
                                    if walked_all.iter().any(|w| (w.offset as usize) < *c && *c < w.payload.1 && w.rdh.link_id == 2) {
                                        runs_of_two_skipped += 1;
                                    }
                                }
                            }
                        }
                        if let Some((sig, d)) = r {
                            rep.violation(Violation {
                                signature: format!("{sig}:filtered"),
                                description: format!("{d} [{bname}, cut at byte {c} of {}, `{}` {}]", bytes.len(), args.join(" "), if stdin { "stdin" } else { "file" }),
                                replay: json!({"kind": "cli-filtered", "args": args, "stdin": stdin, "cut": c, "full_hex": hex(&bytes)}),
                            });
                        }
                    }
                }
            }
        }
        }
        rep.cov("filtered_cut_cases_inside_the_second_of_two_skipped_packets", json!(runs_of_two_skipped));
        rep.cov("filtered_cut_cases_inside_a_packet", json!(filtered_inside_skipped));
    }
    rep.cov("evaluations", json!(evaluations));
    rep.cov("distinct_nontrivial", json!(inside));
    rep.cov("exhaustive", json!(true));
    rep.cov("bases", json!(bs.iter().map(|b| json!({"name": b.name, "bytes": b.bytes.len()})).collect::<Vec<_>>()));
    rep.cov("rule", json!("every cut position 0..=len of each base stream: in-process (real scanner file-like and pipe-like + real validators, check all / check all its / check all its-stave) and on the CLI (file and stdin; check all its(-stave), view rdh, view its-readout-frames); a 306-packet stream cut at / around the 100-packet batch boundaries (packet starts 99..101, 199..201, 299..301 and 1..65 bytes into packets 100, 200, 300) on the CLI. non-trivial = the cut falls strictly inside a packet"));
    rep.sample(json!({"base": bs[0].name, "cut": 100, "expect": "packet 0 complete and judged as in the full run, packet 1 incomplete"}));
    rep.assume("messages are attributed to packets by their leading offset; a message whose offset lies at or beyond the first incomplete packet is taken to concern that packet");
    rep.finish()
}

pub fn replay(v: &serde_json::Value) -> i32 {
    val::init_process();
    let r = &v["replay"];
    let bytes = fp_model::util::unhex(r["full_hex"].as_str().unwrap());
    let cut = r["cut"].as_u64().unwrap() as usize;
    let res = if r["kind"] == "in-process" {
        let mode = val::ALL_MODES.iter().copied().find(|m| m.name() == r["mode"].as_str().unwrap()).unwrap();
        let pipe = r["pipe"].as_bool().unwrap();
        let full = run_lite(Arc::new(bytes.clone()), mode, None, pipe);
        in_process_case(&full.errors, &bytes, cut, mode, pipe)
    } else {
        let args: Vec<String> = r["args"].as_array().unwrap().iter().map(|x| x.as_str().unwrap().to_string()).collect();
        let a: Vec<&str> = args.iter().map(|s| s.as_str()).collect();
        let full = cli_full(&bytes, &a);
        if r["kind"] == "cli-filtered" {
            cli_case_filtered(&full, &bytes, cut, &a, r["stdin"].as_bool().unwrap())
        } else {
            cli_case(&full, &bytes, cut, &a, r["stdin"].as_bool().unwrap())
        }
    };
    match res {
        Some((s, d)) => {
            println!("REPLAY: violation reproduced: {s}: {d}");
            1
        }
        None => {
            println!("REPLAY: no violation");
            0
        }
    }
}
