//! C10 — RDH sanity and running checks implement the documented rules exactly.
//!
//! (a) enum: a conforming 6-RDH link sequence with every single-bit flip of all 512 header bits at positions
//!     {first, second, fifth}, all pairs of flips at the fifth position (thorough; a fixed quarter in quick), pairs of
//!     flips at the first position (one bit inside RDH0 in quick, all pairs in thorough),
//!     field boundary values; whole-sequence verdicts (E10 / E11 per RDH, offsets) vs the rule table.
//! (b) xs: product of the real per-link RDH checkers (inside a real `LinkValidator`, `check all`) with the
//!     documented running automaton over a 192-symbol RDH alphabet, to the fixpoint.
use crate::val::{self, Mode};
use crate::xs::{self, StepOut, Sys, Viol};
use alice_protocol_reader::prelude::RdhCru;
use fastpasta::analyze::validators::link_validator::LinkValidator;
use fastpasta::config::prelude::MockConfig;
use fastpasta::stats::StatType;
use fp_harness::par::par_map;
use fp_harness::{Reporter, Tier, Violation};
use fp_model::rdh::Rdh;
use fp_model::rules::{self, RunningModel};
use fp_model::util::hex;
use serde_json::json;

fn base_sequence() -> Vec<Rdh> {
    let mut v = Vec::new();
    for hbf in 0..2u32 {
        for page in 0..3u16 {
            let mut r = Rdh::base();
            r.fee_id = Rdh::its_fee_id(2, 13, 1);
            r.link_id = 4;
            r.orbit = 0x1000 + hbf;
            r.trigger_type = if hbf == 0 { 0x6A03 } else { 0x0003 };
            r.pages_counter = page;
            r.stop_bit = (page == 2) as u8;
            r.packet_counter = (hbf * 3 + page as u32) as u8;
            r.bc = 0x123;
            v.push(r);
        }
    }
    v
}

/// Per-RDH verdict of the tool: (E10 reported, E11 reported, all messages at the RDH's offset).
fn impl_verdicts(seq: &[Rdh], mode: Mode) -> Result<Vec<(bool, bool, bool)>, String> {
    impl_verdicts_cfg(seq, val::mode_cfg(mode))
}

fn impl_verdicts_cfg(seq: &[Rdh], cfg: &'static fastpasta::config::prelude::MockConfig) -> Result<Vec<(bool, bool, bool)>, String> {
    let packets: Vec<val::RawPacket> = seq.iter().enumerate().map(|(i, r)| (r.encode().to_vec(), vec![], 0x100 * i as u64)).collect();
    let out = val::validate_link(cfg, &packets);
    if let Some(p) = out.panic {
        return Err(p);
    }
    let mut v = vec![(false, false, true); seq.len()];
    for m in out.errors() {
        let Some((off, codes)) = rules::parse_error_message(&m) else { return Err(format!("unparsable message {m}")) };
        let idx = (off / 0x100) as usize;
        if off % 0x100 != 0 || idx >= seq.len() {
            return Err(format!("message offset {off:#x} is not the offset of any RDH: {m}"));
        }
        for c in codes {
            match c.as_str() {
                "E10" => v[idx].0 = true,
                "E11" => v[idx].1 = true,
                _ => v[idx].2 = false,
            }
        }
    }
    Ok(v)
}

fn model_verdicts(seq: &[Rdh], mode: Mode) -> Vec<(bool, bool, bool)> {
    let first = seq[0].header_id;
    let mut rm = RunningModel::default();
    seq.iter()
        .map(|r| {
            let e10 = !rules::rdh_sanity_violations(r, first, mode.has_target()).is_empty();
            let e11 = !rm.step(r).is_empty() && mode.running();
            (e10, e11, true)
        })
        .collect()
}

/// The property quantifies over sequences whose first two pages are 0 and 1.
fn in_scope(seq: &[Rdh]) -> bool {
    seq[0].pages_counter == 0 && seq[1].pages_counter == 1
}

fn flip(r: &Rdh, bit: usize) -> Rdh {
    let mut b = r.encode();
    b[bit / 8] ^= 1 << (bit % 8);
    Rdh::decode(&b)
}

fn compare(seq: &[Rdh], mode: Mode) -> Option<(String, String)> {
    compare_cfg(seq, mode, false)
}

/// `custom`: the same mode with a custom-checks file enabled whose only entry (`chip_count_ob`) concerns no RDH rule -
/// the RDH verdicts must be those of the rule table all the same (the validator is built along another path then).
fn compare_cfg(seq: &[Rdh], mode: Mode, custom: bool) -> Option<(String, String)> {
    if !in_scope(seq) {
        return None;
    }
    let want = model_verdicts(seq, mode);
    let got = if custom {
        impl_verdicts_cfg(seq, val::cfg(&val::CfgKey { mode: Some(mode), chip_count_ob: Some(7), ..Default::default() }))
    } else {
        impl_verdicts(seq, mode)
    };
    match got {
        Err(p) => Some((format!("panic-or-offset:{}", val::panic_site(&p)), p)),
        Ok(got) => {
            for (i, (g, w)) in got.iter().zip(want.iter()).enumerate() {
                if g.0 != w.0 {
                    return Some((
                        format!("E10:{}", if w.0 { "missed" } else { "false-alarm" }),
                        format!("RDH {i}: rule table says sanity violation={}, tool reported E10={} ({:?})", w.0, g.0, rules::rdh_sanity_violations(&seq[i], seq[0].header_id, mode.has_target())),
                    ));
                }
                if g.1 != w.1 {
                    return Some((
                        format!("E11:{}", if w.1 { "missed" } else { "false-alarm" }),
                        format!("RDH {i}: documented running rules violated={}, tool reported E11={}", w.1, g.1),
                    ));
                }
                if !g.2 {
                    return Some(("other-code".into(), format!("RDH {i}: a code other than E10/E11 was reported by the RDH checks")));
                }
            }
            None
        }
    }
}

// ------------------------------------------------------------------------------------------- xs part

#[derive(Clone, Copy, Debug, PartialEq, Eq, Hash)]
pub struct RSym {
    page: u16,
    stop: u8,
    orbit: u8,
    trig: u8,
    fee: u8,
    det: u8,
}
impl RSym {
    fn rdh(&self) -> Rdh {
        let mut r = Rdh::base();
        r.pages_counter = self.page;
        r.stop_bit = self.stop;
        r.orbit = [0xAAAA_0001, 0xAAAA_0002][self.orbit as usize];
        r.trigger_type = [0x6A03, 0x0003][self.trig as usize];
        r.fee_id = [Rdh::its_fee_id(1, 2, 0), Rdh::its_fee_id(1, 3, 0)][self.fee as usize];
        r.detector_field = [0, 0x5][self.det as usize];
        r
    }
}

struct RunningProduct {
    cfg: &'static MockConfig,
}

fn clamp_fp(mut fp: Vec<u8>) -> Vec<u8> {
    // fingerprint layout: [sanity: 1-2 bytes] 0xFC [expect(2) incr(2) first second last...] 0xFC ...
    // the alphabet has pages 0..=3: every expected page counter >= 5 behaves alike until the next stop
    if let Some(p) = fp.iter().position(|b| *b == 0xFC) {
        let i = p + 1;
        if fp.len() >= i + 2 {
            let e = u16::from_le_bytes([fp[i], fp[i + 1]]);
            if e > 5 {
                fp[i] = 5;
                fp[i + 1] = 0;
            }
        }
    }
    fp
}

impl Sys for RunningProduct {
    type Sym = RSym;
    type Key = (u16, Option<(u8, u32, u32, u16)>, Vec<u8>);
    type Obs = (bool, bool);

    fn enabled(&self, hist: &[RSym]) -> Vec<RSym> {
        let mut v = Vec::new();
        for page in 0..4u16 {
            for stop in 0..3u8 {
                for orbit in 0..2 {
                    for trig in 0..2 {
                        for fee in 0..2 {
                            for det in 0..2 {
                                // sequences begin at an HBF start: pages 0 and 1 (property quantifier)
                                if hist.is_empty() && !(page == 0 && stop == 0) {
                                    continue;
                                }
                                if hist.len() == 1 && !(page == 1 && stop < 2) {
                                    continue;
                                }
                                v.push(RSym { page, stop, orbit, trig, fee, det });
                            }
                        }
                    }
                }
            }
        }
        v
    }

    fn initial_key(&self) -> Self::Key {
        (0, None, vec![])
    }

    fn run(&self, hist: &[RSym]) -> Result<StepOut<Self::Key, Self::Obs>, Viol> {
        let (tx, rx) = flume::unbounded();
        let mut model = RunningModel::default();
        let mut last_obs = (false, false);
        let res = val::guarded(|| {
            let (mut lv, _send) = LinkValidator::<RdhCru, MockConfig>::with_chan_capacity(self.cfg, tx, None);
            let mut viol = None;
            for (i, s) in hist.iter().enumerate() {
                let r = s.rdh();
                let pos = 0x40 * i as u64;
                lv.verif_step((val::rdh_from(&r.encode()), vec![], pos));
                let flagged = model.step(&r);
                let msgs: Vec<StatType> = rx.try_iter().collect();
                let mut e10 = false;
                let mut e11 = false;
                for m in val::error_texts(&msgs) {
                    match rules::parse_error_message(&m) {
                        Some((off, codes)) if off == pos => {
                            e10 |= codes.iter().any(|c| c == "E10");
                            e11 |= codes.iter().any(|c| c == "E11");
                        }
                        _ => {
                            viol = Some(Viol { signature: "running:offset".into(), description: format!("message not at RDH offset {pos:#x}: {m}") });
                        }
                    }
                }
                last_obs = (e10, e11);
                if i + 1 == hist.len() {
                    let want10 = !rules::rdh_sanity_violations(&r, hist[0].rdh().header_id, false).is_empty();
                    if e10 != want10 {
                        viol = Some(Viol { signature: format!("running-product:E10:{}", if want10 { "missed" } else { "false-alarm" }), description: format!("step {i} {:?}: E10={e10}, rule table {want10}", s) });
                    }
                    if e11 != !flagged.is_empty() {
                        viol = Some(Viol {
                            signature: format!("running-product:E11:{}", if flagged.is_empty() { "false-alarm" } else { "missed" }),
                            description: format!("after {:?} the RDH {:?}: documented rules flag {:?}, tool E11={e11}", &hist[..i], s, flagged),
                        });
                    }
                }
            }
            (lv.verif_fingerprint(), viol)
        });
        match res {
            Err(p) => Err(Viol { signature: format!("panic:{}", val::panic_site(&p)), description: p }),
            Ok((_, Some(v))) => Err(v),
            Ok((fp, None)) => {
                let mut m = model.clone();
                if m.expected_page > 5 {
                    m.expected_page = 5;
                }
                Ok(StepOut { key: (m.expected_page, m.last, clamp_fp(fp)), obs: last_obs })
            }
        }
    }
}

pub fn run(tier: Tier) -> i32 {
    val::init_process();
    let mut rep = Reporter::new("C10", tier, "model_checking");
    let base = base_sequence();
    // ---- (a) enumeration
    let mut cases: Vec<(Vec<Rdh>, Mode, String)> = Vec::new();
    let modes = [Mode::Sanity, Mode::SanityIts, Mode::All, Mode::AllIts];
    for &mode in &modes {
        cases.push((base.clone(), mode, "unmodified".into()));
        for pos in [0usize, 1, 4] {
            for bit in 0..512 {
                let mut s = base.clone();
                s[pos] = flip(&s[pos], bit);
                cases.push((s, mode, format!("flip bit {bit} at RDH {pos}")));
            }
        }
    }
    // pairs of flips at the fifth RDH
    for a in 0..512usize {
        for b in (a + 1)..512 {
            if !tier.is_thorough() && (a * 31 + b) % 4 != 0 {
                continue; // quick: a fixed quarter of the 130 816 pairs; thorough: all
            }
            let mut s = base.clone();
            s[4] = flip(&flip(&s[4], a), b);
            cases.push((s, Mode::AllIts, format!("flip bits {a},{b} at RDH 4")));
        }
    }
    // pairs of flips at the FIRST RDH (it sets the per-link memories, e.g. the header version to compare with): every
    // pair with at least one bit inside RDH0 (bits 0..63); thorough: every pair of the 512 bits
    for a in 0..512usize {
        for b in (a + 1)..512 {
            if !tier.is_thorough() && a >= 64 {
                continue;
            }
            let mut s = base.clone();
            s[0] = flip(&flip(&s[0], a), b);
            cases.push((s, if (a + b) % 2 == 0 { Mode::AllIts } else { Mode::Sanity }, format!("flip bits {a},{b} at RDH 0")));
        }
    }
    // field boundary values at the fifth RDH
    let mut bnd: Vec<(String, Box<dyn Fn(&mut Rdh)>)> = Vec::new();
    for bc in [0u16, 0xdea, 0xdeb, 0xdec, 0xfff] {
        bnd.push((format!("bc={bc:#x}"), Box::new(move |r: &mut Rdh| r.bc = bc)));
    }
    for st in [0u8, 46, 47, 48, 63] {
        bnd.push((format!("stave={st}"), Box::new(move |r: &mut Rdh| r.fee_id = (r.fee_id & !0x3F) | st as u16)));
    }
    for l in 0..8u16 {
        bnd.push((format!("layer={l}"), Box::new(move |r: &mut Rdh| r.fee_id = (r.fee_id & !0x7000) | (l << 12))));
    }
    for s in [0u8, 1, 2, 3, 255] {
        bnd.push((format!("stop={s}"), Box::new(move |r: &mut Rdh| r.stop_bit = s)));
    }
    for d in [0u8, 1, 2, 3, 255] {
        bnd.push((format!("data_format={d}"), Box::new(move |r: &mut Rdh| r.data_format = d)));
    }
    for d in [0u8, 1, 2, 15] {
        bnd.push((format!("dw={d}"), Box::new(move |r: &mut Rdh| r.dw = d)));
    }
    for b in 0..32u32 {
        bnd.push((format!("trigger bit {b} only"), Box::new(move |r: &mut Rdh| r.trigger_type = 1 << b)));
        bnd.push((format!("detector field bit {b}"), Box::new(move |r: &mut Rdh| r.detector_field = 1 << b)));
    }
    bnd.push(("trigger=0".into(), Box::new(|r: &mut Rdh| r.trigger_type = 0)));
    for h in [0u8, 0x3F, 0x40, 0x41, 0xFF] {
        bnd.push((format!("header_size={h:#x}"), Box::new(move |r: &mut Rdh| r.header_size = h)));
    }
    for p in [0u8, 1, 255] {
        bnd.push((format!("priority={p}"), Box::new(move |r: &mut Rdh| r.priority = p)));
    }
    for s in [0u8, 0x1F, 0x20, 0x21, 0xFF] {
        bnd.push((format!("system_id={s:#x}"), Box::new(move |r: &mut Rdh| r.system_id = s)));
    }
    for v in [0u8, 6, 7, 8, 255] {
        bnd.push((format!("header_id={v}"), Box::new(move |r: &mut Rdh| r.header_id = v)));
    }
    for (name, f) in &bnd {
        for &mode in &modes {
            for pos in [2usize, 4] {
                let mut s = base.clone();
                f(&mut s[pos]);
                cases.push((s, mode, format!("{name} at RDH {pos}")));
            }
        }
    }
    // header id of the *first* RDH defines the reference: v6 stream with one v7 RDH and vice versa
    for first in [6u8, 7] {
        for &mode in &modes {
            let mut s = base.clone();
            for r in s.iter_mut() {
                r.header_id = first;
            }
            s[3].header_id = 13 - first;
            cases.push((s, mode, format!("v{first} stream with one RDH of the other version")));
        }
    }
    // one very long HBF: page counters up to the 16-bit maximum (65 535 data pages + the stop page carrying 65 535),
    // followed by an ordinary HBF; and the same one page shorter / with a deviation at the last pages
    for (label, n_data, bump) in [("65535 data pages", 65_535u32, None), ("65534 data pages", 65_534, None), ("65535 data pages, page 65534 repeated", 65_535, Some(65_534u32))] {
        let mut s: Vec<Rdh> = Vec::with_capacity(n_data as usize + 3);
        let proto = base[0].clone();
        for page in 0..=n_data {
            let mut r = proto.clone();
            r.pages_counter = page.min(65_535) as u16;
            r.stop_bit = (page == n_data) as u8;
            r.packet_counter = page as u8;
            if Some(page) == bump {
                r.pages_counter = (page - 1) as u16;
            }
            s.push(r);
        }
        for page in 0..2u16 {
            let mut r = base[3].clone();
            r.pages_counter = page;
            r.stop_bit = page as u8;
            s.push(r);
        }
        cases.push((s, Mode::All, format!("long HBF: {label}")));
    }
    let results = par_map(&cases, |_, (s, m, _)| compare(s, *m));
    let mut flagged_cases = 0u64;
    for ((s, m, label), r) in cases.iter().zip(results.iter()) {
        if model_verdicts(s, *m).iter().any(|v| v.0 || v.1) {
            flagged_cases += 1;
        }
        if let Some((sig, d)) = r {
            rep.violation(Violation {
                signature: format!("rdh:{sig}"),
                description: format!("{d} [{label}, mode {}]", m.name()),
                replay: json!({"kind": "enum", "mode": m.name(), "rdhs_hex": s.iter().map(|r| hex(&r.encode())).collect::<Vec<_>>()}),
            });
        }
    }
    // ---- (a') the same rules when a custom-checks file is in force (it must add its own checks, never replace the
    //      target's): unmodified, every single-bit flip at RDH 4 and every boundary value, in the four modes
    let mut cc_cases: Vec<(Vec<Rdh>, Mode, String)> = Vec::new();
    for &mode in &modes {
        cc_cases.push((base.clone(), mode, "unmodified".into()));
        for bit in 0..512 {
            let mut s = base.clone();
            s[4] = flip(&s[4], bit);
            cc_cases.push((s, mode, format!("flip bit {bit} at RDH 4")));
        }
        for (name, f) in &bnd {
            let mut s = base.clone();
            f(&mut s[4]);
            cc_cases.push((s, mode, format!("{name} at RDH 4")));
        }
    }
    let cc_results = par_map(&cc_cases, |_, (s, m, _)| compare_cfg(s, *m, true));
    for ((s, m, label), r) in cc_cases.iter().zip(cc_results.iter()) {
        if let Some((sig, d)) = r {
            rep.violation(Violation {
                signature: format!("rdh:custom-checks-file:{sig}"),
                description: format!("{d} [{label}, mode {} with a custom-checks file that sets only chip_count_ob]", m.name()),
                replay: json!({"kind": "enum", "custom": true, "mode": m.name(), "rdhs_hex": s.iter().map(|r| hex(&r.encode())).collect::<Vec<_>>()}),
            });
        }
    }
    rep.cov("enumeration_cases_with_custom_checks_file", json!(cc_cases.len()));
    // ---- (b) product search
    let sys = RunningProduct { cfg: val::mode_cfg(Mode::All) };
    let xr = xs::bfs(&sys, 40, 200_000, false);
    for (h, v) in &xr.violations {
        rep.violation(Violation {
            signature: v.signature.clone(),
            description: v.description.clone(),
            replay: json!({"kind": "xs", "history": h.iter().map(|s| hex(&s.rdh().encode())).collect::<Vec<_>>()}),
        });
    }
    for f in &xr.abstraction_failures {
        rep.machinery_error(format!("abstraction check failed: {f}"));
    }
    if !xr.fixpoint {
        rep.machinery_error(format!("running-rule product did not reach a fixpoint within depth {} / {} states", xr.depth, xr.states));
    }
    rep.cov("states", json!(xr.states));
    rep.cov("transitions", json!(xr.transitions));
    rep.cov("traces_validated_against_impl", json!(xr.transitions + cases.len() as u64));
    rep.cov("fixpoint", json!(xr.fixpoint));
    rep.cov("depth", json!(xr.depth));
    rep.cov("merged_histories_checked", json!(xr.merges_checked));
    rep.cov("enumeration_cases", json!(cases.len()));
    rep.cov("enumeration_cases_flagged_by_rule_table", json!(flagged_cases));
    rep.cov("evaluations", json!(cases.len() as u64 + xr.transitions));
    rep.cov("distinct_nontrivial", json!(flagged_cases));
    rep.cov("exhaustive", json!(true));
    rep.cov("pairs_complete", json!(tier.is_thorough()));
    rep.cov("rule", json!("xs: product (documented running automaton x real LinkValidator RDH checkers) over 192 RDH symbols (page 0..3 x stop 0..2 x 2 orbits x 2 triggers x 2 FEE ids x 2 detector fields), sequences starting with pages 0,1, BFS to fixpoint with per-step oracle E10/E11 iff rule table; enum: 512 single-bit flips at RDH 0/1/4 x 4 modes, pairs of flips at RDH 4 (all in thorough, a fixed quarter in quick), pairs of flips at RDH 0 (one bit within RDH0 in quick, all pairs in thorough), field boundary sets x 4 modes"));
    if let Some(r) = xr.representatives.iter().find(|r| r.len() >= 4) {
        rep.sample(json!({"xs_history": r.iter().map(|s| format!("{:?}", s)).collect::<Vec<_>>()}));
    }
    rep.sample(json!({"enum_case": cases[700].2, "mode": cases[700].1.name()}));
    rep.assume("expected page counters above 5 are merged (alphabet pages are 0..=3); checked by the abstraction check on merged histories");
    rep.assume("detector-field changes inside an HBF are a warning, never an error (checks_list.md)");
    rep.finish()
}

pub fn replay(v: &serde_json::Value) -> i32 {
    val::init_process();
    let r = &v["replay"];
    if r["kind"] == "enum" {
        let seq: Vec<Rdh> = r["rdhs_hex"].as_array().unwrap().iter().map(|h| Rdh::decode(&fp_model::util::unhex(h.as_str().unwrap()))).collect();
        let mode = val::ALL_MODES.iter().copied().find(|m| m.name() == r["mode"].as_str().unwrap()).unwrap();
        match compare_cfg(&seq, mode, r["custom"].as_bool().unwrap_or(false)) {
            Some((s, d)) => {
                println!("REPLAY: violation reproduced: {s}: {d}");
                1
            }
            None => {
                println!("REPLAY: no violation");
                0
            }
        }
    } else {
        // history of RDHs: run them through the enumeration oracle in `check all`
        let seq: Vec<Rdh> = r["history"].as_array().unwrap().iter().map(|h| Rdh::decode(&fp_model::util::unhex(h.as_str().unwrap()))).collect();
        match compare(&seq, Mode::All) {
            Some((s, d)) => {
                println!("REPLAY: violation reproduced: {s}: {d}");
                1
            }
            None => {
                println!("REPLAY: no violation");
                0
            }
        }
    }
}
