//! Drivers of the *real* code in /repo (the implementation under test), in-process.
use alice_protocol_reader::prelude::*;
use std::io::{self, Read, Seek, SeekFrom};
use std::sync::atomic::AtomicBool;
use std::sync::Arc;

/// In-memory input. `pipe = false` behaves like a seekable file (`BufReader<File>`: relative seeks move the
/// cursor, also past the end); `pipe = true` like the stdin wrapper (skip = read and discard, running into the
/// end is `InvalidInput`). `chunk` bounds how many bytes a single `read` call returns (read-chunk deviation).
pub struct MemReader {
    pub data: Arc<Vec<u8>>,
    pub pos: usize,
    pub pipe: bool,
    pub chunk: usize,
    pub reads: u64,
}
impl MemReader {
    pub fn new(data: Arc<Vec<u8>>, pipe: bool, chunk: usize) -> Self {
        MemReader { data, pos: 0, pipe, chunk: if chunk == 0 { usize::MAX } else { chunk }, reads: 0 }
    }
}
impl Read for MemReader {
    fn read(&mut self, buf: &mut [u8]) -> io::Result<usize> {
        self.reads += 1;
        if self.pos >= self.data.len() {
            return Ok(0);
        }
        let n = buf.len().min(self.chunk).min(self.data.len() - self.pos);
        buf[..n].copy_from_slice(&self.data[self.pos..self.pos + n]);
        self.pos += n;
        Ok(n)
    }
}
impl Seek for MemReader {
    fn seek(&mut self, pos: SeekFrom) -> io::Result<u64> {
        match pos {
            SeekFrom::Current(o) if !self.pipe => {
                let np = self.pos as i64 + o;
                if np < 0 {
                    return Err(io::Error::new(io::ErrorKind::InvalidInput, "seek before start"));
                }
                self.pos = np as usize;
                Ok(self.pos as u64)
            }
            _ => Err(io::Error::new(io::ErrorKind::Other, "unsupported seek in harness reader")),
        }
    }
}
impl BufferedReaderWrapper for MemReader {
    fn seek_relative_offset(&mut self, offset: i64) -> io::Result<()> {
        if self.pipe {
            // the documented behaviour of the stdin wrapper: read and discard
            let mut left = offset as usize;
            let mut tmp = [0u8; 4096];
            while left > 0 {
                let want = left.min(tmp.len());
                let n = self.read(&mut tmp[..want])?;
                if n == 0 {
                    return Err(io::Error::new(io::ErrorKind::InvalidInput, "EOF while discarding"));
                }
                left -= n;
            }
            Ok(())
        } else {
            self.seek(SeekFrom::Current(offset)).map(|_| ())
        }
    }
}

#[derive(Clone, Copy, Debug, Default, PartialEq, Eq, Hash)]
pub struct ScanCfg {
    pub filter_link: Option<u8>,
    pub filter_fee: Option<u16>,
    pub filter_its_stave: Option<u16>,
    pub skip_payload: bool,
}
impl FilterOpt for ScanCfg {
    fn skip_payload(&self) -> bool {
        self.skip_payload
    }
    fn filter_link(&self) -> Option<u8> {
        self.filter_link
    }
    fn filter_fee(&self) -> Option<u16> {
        self.filter_fee
    }
    fn filter_its_stave(&self) -> Option<u16> {
        self.filter_its_stave
    }
}

#[derive(Clone, Debug, PartialEq, Eq)]
pub struct ScannedPacket {
    pub rdh_bytes: Vec<u8>,
    /// fields through the public accessors: (version, fee, link, payload_size, offset_next, stop, pages, data_format, trigger, cru, dw, pkt counter)
    pub fields: [u64; 12],
    pub payload: Vec<u8>,
    pub mem_pos: u64,
}

pub fn to_scanned(rdh: &RdhCru, payload: Vec<u8>, mem_pos: u64) -> ScannedPacket {
    ScannedPacket {
        rdh_bytes: rdh.to_byte_slice().to_vec(),
        fields: [
            rdh.version() as u64,
            rdh.fee_id() as u64,
            rdh.link_id() as u64,
            rdh.payload_size() as u64,
            rdh.offset_to_next() as u64,
            rdh.stop_bit() as u64,
            rdh.pages_counter() as u64,
            RDH_CRU::data_format(rdh) as u64,
            rdh.trigger_type() as u64,
            RDH_CRU::cru_id(rdh) as u64,
            RDH_CRU::dw(rdh) as u64,
            rdh.packet_counter() as u64,
        ],
        payload,
        mem_pos,
    }
}

pub struct ScanOutcome {
    pub packets: Vec<ScannedPacket>,
    pub end_error_kind: Option<io::ErrorKind>,
    pub stats: Vec<InputStatType>,
}

/// Drives the real `InputScanner::load_cdp` until it returns an error.
pub fn scan_direct(data: Arc<Vec<u8>>, cfg: &ScanCfg, pipe: bool, chunk: usize, max_packets: usize) -> ScanOutcome {
    let (tx, rx) = flume::unbounded();
    let reader = Box::new(MemReader::new(data, pipe, chunk));
    let mut scanner = InputScanner::new(cfg, reader, Some(tx));
    let mut packets = Vec::new();
    let mut end = None;
    for _ in 0..max_packets {
        match scanner.load_cdp::<RdhCru>() {
            Ok((rdh, payload, pos)) => packets.push(to_scanned(&rdh, payload, pos)),
            Err(e) => {
                end = Some(e.kind());
                break;
            }
        }
    }
    drop(scanner);
    let stats: Vec<InputStatType> = rx.try_iter().collect();
    ScanOutcome { packets, end_error_kind: end, stats }
}

/// Drives the real reader thread (`spawn_reader::<RdhCru, CAP>`) and collects the batches.
pub fn scan_batched<const CAP: usize>(
    data: Arc<Vec<u8>>,
    cfg: &ScanCfg,
    pipe: bool,
    chunk: usize,
) -> (Vec<Vec<ScannedPacket>>, Vec<InputStatType>) {
    let (tx, rx) = flume::unbounded();
    let reader = Box::new(MemReader::new(data, pipe, chunk));
    let scanner = InputScanner::new(cfg, reader, Some(tx));
    let stop = Arc::new(AtomicBool::new(false));
    let (handle, recv) = alice_protocol_reader::spawn_reader::<RdhCru, CAP>(stop, scanner);
    let mut batches = Vec::new();
    while let Ok(batch) = recv.recv() {
        let mut b = Vec::new();
        for (rdh, payload, pos) in batch.into_iter() {
            b.push(to_scanned(&rdh, payload, pos));
        }
        batches.push(b);
    }
    handle.join().expect("reader thread panicked");
    let stats: Vec<InputStatType> = rx.try_iter().collect();
    (batches, stats)
}

/// Sum up the scanner statistics messages: (rdhs seen, rdhs filtered, payload bytes, links, fee ids).
pub fn sum_input_stats(stats: &[InputStatType]) -> (u64, u64, u64, Vec<u8>, Vec<u16>) {
    let (mut seen, mut filt, mut pay) = (0u64, 0u64, 0u64);
    let mut links = Vec::new();
    let mut fees = Vec::new();
    for s in stats {
        match s {
            InputStatType::RDHSeen(n) => seen += *n as u64,
            InputStatType::RDHFiltered(n) => filt += *n as u64,
            InputStatType::PayloadSize(n) => pay += *n as u64,
            InputStatType::LinksObserved(l) => links.push(*l),
            InputStatType::FeeId(f) => fees.push(*f),
            _ => {}
        }
    }
    (seen, filt, pay, links, fees)
}
