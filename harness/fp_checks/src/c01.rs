//! C01 — conforming data is accepted by every check mode (no false alarms).
//!
//! xs: product of the stream grammar (generator automaton per link, page granularity, finite value registers:
//! 2 alternating orbits, per-HBF BC ladder, 2 trigger types) with a real `LinkValidator` stepped packet by packet
//! (`verif_step` = one iteration of `run()`), key = (grammar state, implementation fingerprint), to the fixpoint.
//! Invariant on every transition: no Error / Fatal message. Second tier: witness streams of the search replicated
//! over 1/2/3/12 links (contiguous and round-robin), padded around the 100-packet batch, on the real CLI in the
//! five modes x {-, -m} x {-, -E 7}.
use crate::val::{self, Mode};
use crate::xs::{self, StepOut, Sys, Viol};
use alice_protocol_reader::prelude::RdhCru;
use fastpasta::analyze::validators::link_validator::LinkValidator;
use fastpasta::config::prelude::MockConfig;
use fp_harness::cli::{Run, Scratch};
use fp_harness::par::par_map;
use fp_harness::{Reporter, Tier, Violation};
use fp_model::alpide::{self, Hit};
use fp_model::grammar::{self, Ev, LinkCfg, LinkRenderer, PacketT, PageShape};
use fp_model::util::hex;
use fp_model::words::Word;
use serde_json::json;

#[derive(Clone, Copy, Debug, PartialEq, Eq, Hash)]
pub enum EvS {
    NoData,
    /// data event: size class (0 = small, 1 = larger), CDW first, closed (done) or left open
    Data { big: bool, cdw: bool, done: bool },
}

#[derive(Clone, Debug, PartialEq, Eq, Hash)]
pub enum PSym {
    Page(Vec<EvS>),
    /// continuation page: `last` closes the open event, then an optional tail
    Cont { last: bool, tail: Vec<EvS> },
    Stop,
}

#[derive(Clone, Debug, PartialEq, Eq, Hash)]
pub struct Dim {
    pub barrel: u8, // 0 IB, 1 ML, 2 OL
    pub fmt: u8,
    pub version: u8,
    pub internal: bool,
    pub mode: Mode,
    pub det_field: u32,
    /// internal triggers, except the first trigger of every PhT HBF, which is a physics trigger
    pub mixed: bool,
}

impl Dim {
    pub fn link_cfg(&self, link: u8) -> LinkCfg {
        let mut c = match self.barrel {
            0 => LinkCfg::ib(link, 2 + link),
            1 => LinkCfg::ml(link, 5 + link, link % 2 == 1),
            _ => LinkCfg::ol(link, 9 + link, link % 2 == 0),
        };
        c.data_format = self.fmt;
        c.rdh_version = self.version;
        c.internal = self.internal;
        c.physics_first_on_pht = self.mixed;
        c.detector_field = self.det_field;
        if self.det_field != 0 {
            // the configurations with detector-field status bits also carry every TDT status flag and start their
            // packet counters at 255 (the counter wraps to 0 on the second packet)
            c.tdt_status = 0b1_1111;
            c.first_packet_counter = 255;
        }
        c.triggers = vec![grammar::TRG_SOC_HB_TF, grammar::TRG_PHT];
        c.rdh_bcs = vec![0, 1];
        c.bc_step = 0x120;
        c
    }
    fn frames(&self) -> bool {
        self.mode == Mode::AllStave
    }
}

const MAX_PAGES: usize = 3;

/// Grammar-side generator state, rebuilt from the history.
struct Gen {
    r: LinkRenderer,
    /// remaining words of the interrupted event's frame / data
    pending: Vec<Word>,
    frames: bool,
    ev_no: u64,
}

impl Gen {
    fn new(dim: &Dim) -> Self {
        let mut r = LinkRenderer::new(&dim.link_cfg(0));
        r.orbit_cycle = Some(2);
        Gen { r, pending: vec![], frames: dim.frames(), ev_no: 0 }
    }
    fn content(&mut self, big: bool) -> Vec<Word> {
        self.ev_no += 1;
        if self.frames {
            let ha = alpide::hit_alphabet();
            let hits: Vec<Hit> = if big { vec![ha[0], ha[5], ha[2], ha[8]] } else { vec![] };
            alpide::conforming_frame(&self.r.cfg.lanes, if big { 0x5A } else { 0x00 }, &hits, !big) // empty chip frames with bunch counter 0: the byte after 0xEn is a zero
        } else {
            self.r.cfg.data_words(if big { 3 } else { 1 }, 40 + big as u64)
        }
    }
    fn ev(&mut self, e: &EvS) -> Ev {
        match e {
            EvS::NoData => Ev::NoData,
            EvS::Data { big, cdw, done } => {
                let mut w = self.content(*big);
                if !*done {
                    // leave part of the event for the continuation pages (at least one word stays, one goes)
                    if w.len() < 3 {
                        let extra = self.r.cfg.data_words(3, 99);
                        if !self.frames {
                            w.extend(extra);
                        }
                    }
                    let cut = (w.len() / 3).max(1);
                    self.pending = w.split_off(cut);
                }
                Ev::Data { words: w, cdw: *cdw, done: *done }
            }
        }
    }
    fn apply(&mut self, s: &PSym) -> PacketT {
        match s {
            PSym::Stop => self.r.stop_page(),
            PSym::Page(evs) => {
                let evs: Vec<Ev> = evs.iter().map(|e| self.ev(e)).collect();
                self.r.next_page(&PageShape { cont: None, evs })
            }
            PSym::Cont { last, tail } => {
                let part: Vec<Word> = if *last || self.pending.len() < 2 {
                    std::mem::take(&mut self.pending)
                } else {
                    let keep = self.pending.split_off(self.pending.len() / 2);
                    std::mem::replace(&mut self.pending, keep)
                };
                let done = *last;
                let evs: Vec<Ev> = tail.iter().map(|e| self.ev(e)).collect();
                self.r.next_page(&PageShape { cont: Some((part, done)), evs })
            }
        }
    }
    fn enabled(&self) -> Vec<PSym> {
        let mut v = Vec::new();
        let open = self.r.is_open();
        let tails: Vec<Vec<EvS>> = vec![
            vec![],
            vec![EvS::NoData],
            vec![EvS::Data { big: false, cdw: false, done: true }],
            vec![EvS::Data { big: true, cdw: false, done: false }],
        ];
        if open {
            // an interrupted frame in stave mode must keep at least one word per continuation page
            if self.pending.len() >= 2 && self.r.page < MAX_PAGES + 1 {
                v.push(PSym::Cont { last: false, tail: vec![] });
            }
            for t in &tails {
                let opens = t.iter().any(|e| matches!(e, EvS::Data { done: false, .. }));
                if opens && self.r.page >= MAX_PAGES {
                    continue;
                }
                v.push(PSym::Cont { last: true, tail: t.clone() });
            }
        } else {
            if self.r.page >= 1 {
                v.push(PSym::Stop);
            }
            if self.r.page < MAX_PAGES {
                let d = |big, cdw, done| EvS::Data { big, cdw, done };
                let pages: Vec<Vec<EvS>> = vec![
                    vec![EvS::NoData],
                    vec![d(false, false, true)],
                    vec![d(true, false, true)],
                    vec![d(false, true, true)],
                    vec![EvS::NoData, EvS::NoData],
                    vec![EvS::NoData, d(false, false, true)],
                    vec![EvS::NoData, d(true, true, true)],
                    vec![d(false, false, true), EvS::NoData],
                    vec![d(true, false, true), d(false, false, true)],
                    vec![d(false, false, true), d(true, false, true), EvS::NoData],
                    vec![d(true, false, false)],
                    vec![d(false, true, false)],
                    vec![EvS::NoData, d(true, false, false)],
                    vec![d(false, false, true), d(true, false, false)],
                ];
                v.extend(pages.into_iter().map(PSym::Page));
            }
        }
        v
    }
    fn key(&self) -> (usize, usize, u16, bool, usize) {
        // the position in the CDW calibration series (period 4) is folded into the last component
        (self.r.hbf % 2, self.r.page, self.r.trig_no, self.r.is_open(), self.pending.len() * 4 + self.r.cdw_no as usize)
    }
}

struct Product {
    dim: Dim,
    cfg: &'static MockConfig,
}

impl Sys for Product {
    type Sym = PSym;
    type Key = ((usize, usize, u16, bool, usize), Vec<u8>);
    type Obs = usize; // number of error messages of the last step

    fn enabled(&self, hist: &[PSym]) -> Vec<PSym> {
        let mut g = Gen::new(&self.dim);
        for s in hist {
            g.apply(s);
        }
        g.enabled()
    }
    fn initial_key(&self) -> Self::Key {
        (Gen::new(&self.dim).key(), vec![])
    }
    fn run(&self, hist: &[PSym]) -> Result<StepOut<Self::Key, Self::Obs>, Viol> {
        let mut g = Gen::new(&self.dim);
        let (tx, rx) = flume::unbounded();
        let skip = !self.dim.mode.has_target();
        let res = val::guarded(|| {
            let (mut lv, _s) = LinkValidator::<RdhCru, MockConfig>::with_chan_capacity(self.cfg, tx, None);
            let mut off = 0u64;
            let mut last_errs: Vec<String> = vec![];
            for s in hist {
                let p = g.apply(s);
                let payload = if skip { vec![] } else { p.packet.payload.clone() };
                lv.verif_step((val::rdh_from(&p.packet.rdh.encode()), payload, off));
                off += p.packet.len() as u64;
                last_errs = val::error_texts(&rx.try_iter().collect::<Vec<_>>());
            }
            (lv.verif_fingerprint(), last_errs)
        });
        match res {
            Err(p) => Err(Viol { signature: format!("panic:{}", val::panic_site(&p)), description: format!("{p} [history {:?}, {:?}]", hist, self.dim) }),
            Ok((fp, errs)) => {
                if let Some(e) = errs.first() {
                    let code = fp_model::rules::parse_error_message(e).and_then(|x| x.1.first().cloned()).unwrap_or_else(|| "no-code".into());
                    return Err(Viol {
                        signature: format!("false-alarm:{code}:{}", self.dim.mode.name().replace(' ', "-")),
                        description: format!("conforming stream reported: {e} [page history {:?}, {:?}]", hist, self.dim),
                    });
                }
                Ok(StepOut { key: (g.key(), fp), obs: 0 })
            }
        }
    }
}

/// Completes a history into a whole stream (close the open event, stop the HBF) and renders it for `link`.
fn complete(dim: &Dim, hist: &[PSym], link: u8) -> Vec<PacketT> {
    let mut g = Gen::new(dim);
    g.r = LinkRenderer::new(&dim.link_cfg(link));
    let mut out = Vec::new();
    for s in hist {
        out.push(g.apply(s));
    }
    if g.r.is_open() {
        out.push(g.apply(&PSym::Cont { last: true, tail: vec![] }));
    }
    if g.r.page > 0 {
        out.push(g.apply(&PSym::Stop));
    }
    out
}

fn dims(tier: Tier) -> Vec<Dim> {
    let mut v = Vec::new();
    let barrels: &[u8] = if tier.is_thorough() { &[0, 1, 2] } else { &[0, 2] };
    let versions: &[u8] = if tier.is_thorough() { &[6, 7] } else { &[7] };
    for &barrel in barrels {
        for fmt in [0u8, 2] {
            for &version in versions {
                for mode in val::ALL_MODES {
                    for internal in [true, false] {
                        // quick: the two payload-blind modes only once per barrel
                        if !mode.has_target() && (fmt != 2 || !internal) && !tier.is_thorough() {
                            continue;
                        }
                        let det_field = if internal { 0 } else { 0x0700_0FFF & !0x00FF_F000 };
                        v.push(Dim { barrel, fmt, version, internal, mode, det_field, mixed: false });
                    }
                }
            }
        }
    }
    // mixed trigger histories (internal triggers with a physics trigger opening every second HBF)
    for barrel in [0u8, 2] {
        for mode in [Mode::SanityIts, Mode::AllIts, Mode::AllStave] {
            v.push(Dim { barrel, fmt: 2, version: 7, internal: true, mode, det_field: 0, mixed: true });
        }
    }
    v
}

fn cli_case(dim: &Dim, hist: &[PSym], links: usize, layout: u8, pad_to: usize, mute: bool, exit_code: bool, variant: usize) -> Option<(String, String)> {
    let mut per_link: Vec<Vec<PacketT>> = (0..links).map(|l| complete(dim, hist, l as u8)).collect();
    // pad with further whole HBFs until the total packet count reaches pad_to
    let unit: Vec<PSym> = vec![PSym::Page(vec![EvS::NoData]), PSym::Stop];
    let mut total: usize = per_link.iter().map(|l| l.len()).sum();
    let mut reps = 1;
    while total < pad_to {
        let mut h: Vec<PSym> = hist.to_vec();
        // complete, then append `reps` unit HBFs
        let mut g = Gen::new(dim);
        for s in hist {
            g.apply(s);
        }
        if g.r.is_open() {
            h.push(PSym::Cont { last: true, tail: vec![] });
            g.apply(&PSym::Cont { last: true, tail: vec![] });
        }
        if g.r.page > 0 {
            h.push(PSym::Stop);
        }
        for _ in 0..reps {
            h.extend(unit.clone());
        }
        per_link = (0..links).map(|l| complete(dim, &h, l as u8)).collect();
        total = per_link.iter().map(|l| l.len()).sum();
        reps += ((pad_to.saturating_sub(total)) / (2 * links)).max(1);
    }
    let stream = if layout == 0 { grammar::contiguous(&per_link) } else { grammar::round_robin(&per_link) };
    let bytes = stream.bytes();
    let scratch = Scratch::new("c01");
    let input = scratch.file("in.raw", &bytes);
    let stats = scratch.join("st.json");
    // rotating: input filter (none / link / FEE id / layer-stave of the first link) and the source (file / stdin)
    let first = &stream.packets[0].1.packet.rdh;
    let filter_args: Vec<String> = match variant % 4 {
        1 => vec!["--filter-link".into(), first.link_id.to_string()],
        2 => vec!["--filter-fee".into(), first.fee_id.to_string()],
        3 => vec!["--filter-its-stave".into(), format!("L{}_{}", (first.fee_id >> 12) & 7, first.fee_id & 0x3F)],
        _ => vec![],
    };
    let stdin = variant % 3 == 2;
    let mut args: Vec<String> = if stdin { vec![] } else { vec![input.display().to_string()] };
    args.extend(filter_args);
    args.extend(dim.mode.cli_args().iter().map(|s| s.to_string()));
    if mute {
        args.push("-m".into());
    }
    if exit_code {
        args.extend(["-E".to_string(), "7".to_string()]);
    }
    args.extend(["-S".to_string(), stats.display().to_string(), "-D".to_string(), "json".to_string()]);
    let mut run = Run::new(&args).cwd(&scratch.path);
    if stdin {
        run = run.stdin(&bytes);
    }
    let res = run.run();
    let err = res.stderr_str();
    if res.crashed() || res.status != Some(0) {
        return Some(("cli-exit".into(), format!("exit {:?} signal {:?}: {}", res.status, res.signal, err.chars().take(400).collect::<String>())));
    }
    if err.contains("ERROR") || err.contains("[E") {
        return Some(("cli-error-line".into(), format!("stderr: {}", err.chars().take(400).collect::<String>())));
    }
    let out = res.stdout_str();
    if !out.contains("Total Errors") {
        return Some(("cli-report".into(), "report has no Total Errors row".into()));
    }
    let st: serde_json::Value = match std::fs::read_to_string(&stats).ok().and_then(|t| serde_json::from_str(&t).ok()) {
        Some(v) => v,
        None => return Some(("cli-stats".into(), "statistics file missing or invalid".into())),
    };
    if st["error_stats"]["total_errors"].as_u64() != Some(0) || st["error_stats"]["reported_errors"].as_array().map_or(true, |a| !a.is_empty()) {
        return Some(("cli-total-errors".into(), format!("statistics file reports errors: {}", st["error_stats"])));
    }
    if st["rdh_stats"]["rdhs_seen"].as_u64() != Some(stream.len() as u64) {
        return Some(("cli-rdh-count".into(), format!("{} RDHs seen, stream has {}", st["rdh_stats"]["rdhs_seen"], stream.len())));
    }
    None
}

/// Every lane identifier of every link kind in every position class of a data word: first word after the TDH,
/// first word after a CDW, first / last word of a continuation page (twice continued), last word before the TDT.
/// Conforming by construction; run through a real LinkValidator in the two payload-reading non-stave modes.
fn lane_position_cases() -> Vec<(String, Vec<PacketT>, Mode)> {
    use fp_model::grammar::{Ev, HbfShape, LinkCfg, PageShape};
    use fp_model::words;
    let mut v = Vec::new();
    let mut cfgs: Vec<(String, LinkCfg)> = Vec::new();
    for base in [0u8, 3, 6] {
        let mut c = LinkCfg::ib(1, 9);
        c.lanes = (base..base + 3).map(words::ib_id).collect();
        cfgs.push((format!("IB lanes {}..{}", base, base + 2), c));
    }
    for upper in [false, true] {
        cfgs.push((format!("ML upper={upper}"), LinkCfg::ml(2, 11, upper)));
        cfgs.push((format!("OL upper={upper}"), LinkCfg::ol(3, 21, upper)));
    }
    for (name, cfg0) in cfgs {
        for fmt in [2u8, 0] {
            let mut cfg = cfg0.clone();
            cfg.data_format = fmt;
            cfg.bc_step = 0x40;
            for &id in &cfg.lanes {
                let dw = |i: u8, salt: u8| words::data_word(i, [salt | 1; 9]);
                let others: Vec<u8> = cfg.lanes.iter().copied().filter(|x| *x != id).collect();
                let o = |k: usize| others[k % others.len().max(1)];
                // page 0: [CDW] TDH id o o | TDT(open); page 1 (cont, open): id o; page 2 (cont, done): o id, then a
                // second event on that page whose first and last word is id
                let shape = HbfShape {
                    pages: vec![
                        PageShape { cont: None, evs: vec![Ev::Data { words: vec![dw(id, 0x10), dw(o(0), 0x12), dw(o(1), 0x14)], cdw: true, done: false }] },
                        PageShape { cont: Some((vec![dw(id, 0x20), dw(o(1), 0x22)], false)), evs: vec![] },
                        PageShape { cont: Some((vec![dw(o(0), 0x30), dw(id, 0x32)], true)), evs: vec![Ev::Data { words: vec![dw(id, 0x40)], cdw: false, done: true }] },
                    ],
                };
                let plain = HbfShape { pages: vec![PageShape { cont: None, evs: vec![Ev::Data { words: vec![dw(id, 0x50), dw(o(0), 0x52), dw(id, 0x54)], cdw: false, done: true }] }] };
                let pk = grammar::render_link(&cfg, &[shape, plain]);
                for mode in [Mode::SanityIts, Mode::AllIts] {
                    v.push((format!("{name}, data format {fmt}, lane id {id:#04x} in every word position"), pk.clone(), mode));
                }
            }
        }
    }
    // wrap-arounds: 160 HBFs on one link = 320 packets (the 8-bit packet counter wraps), the orbit runs through
    // 0xFFFF_FFFF -> 0, trigger BCs reach 3563
    for (name, mut cfg) in [("IB", LinkCfg::ib(4, 3)), ("OL", LinkCfg::ol(5, 40, true))] {
        cfg.first_orbit = 0xFFFF_FFFF - 100;
        cfg.rdh_bcs = vec![0, 3563 - 3 * 0x40];
        cfg.bc_step = 0x40;
        let shapes = grammar::basic_hbf_shapes(&cfg);
        let hbfs: Vec<fp_model::grammar::HbfShape> = (0..160).map(|i| shapes[[0usize, 1, 3][i % 3]].1.clone()).collect();
        let pk = grammar::render_link(&cfg, &hbfs);
        for mode in [Mode::All, Mode::AllIts] {
            v.push((format!("{name} link, 160 HBFs: packet counter, orbit and BC wrap-arounds"), pk.clone(), mode));
        }
    }
    v
}

pub fn run(tier: Tier) -> i32 {
    val::init_process();
    let mut rep = Reporter::new("C01", tier, "model_checking");
    let mut states = 0u64;
    let mut transitions = 0u64;
    let mut all_fix = true;
    let mut merges = 0u64;
    let mut per_dim = Vec::new();
    let mut witnesses: Vec<(Dim, Vec<PSym>)> = Vec::new();
    for dim in dims(tier) {
        let sys = Product { cfg: val::mode_cfg(dim.mode), dim: dim.clone() };
        let xr = xs::bfs(&sys, 40, 400_000, false);
        states += xr.states;
        transitions += xr.transitions;
        merges += xr.merges_checked;
        all_fix &= xr.fixpoint;
        per_dim.push(json!({"dim": format!("{:?}", dim), "states": xr.states, "transitions": xr.transitions, "depth": xr.depth, "fixpoint": xr.fixpoint}));
        for (h, v) in &xr.violations {
            let packets = complete(&dim, h, 0);
            rep.violation(Violation {
                signature: v.signature.clone(),
                description: v.description.clone(),
                replay: json!({"kind": "xs", "dim": format!("{:?}", dim), "mode": dim.mode.name(), "stream_hex": hex(&grammar::contiguous(&[packets]).bytes())}),
            });
        }
        for f in &xr.abstraction_failures {
            rep.machinery_error(format!("abstraction check failed ({:?}): {f}", dim));
        }
        if !xr.fixpoint {
            rep.machinery_error(format!("no fixpoint for {:?} within depth {} / {} states", dim, xr.depth, xr.states));
        }
        // maximal representatives = witness streams
        let reps = &xr.representatives;
        let mut maximal: Vec<&Vec<PSym>> = reps.iter().filter(|r| !r.is_empty() && !reps.iter().any(|o| o.len() > r.len() && o[..r.len()] == r[..])).collect();
        maximal.sort_by_key(|r| std::cmp::Reverse(r.len()));
        let take = if tier.is_thorough() { 12 } else { 2 };
        for r in maximal.into_iter().take(take) {
            witnesses.push((dim.clone(), r.clone()));
        }
    }
    // CLI tier
    let mut cli = Vec::new();
    for (wi, (dim, h)) in witnesses.iter().enumerate() {
        let layouts: Vec<(usize, u8, usize)> = if tier.is_thorough() {
            vec![(1, 0, 0), (2, 0, 0), (2, 1, 0), (3, 1, 0), (12, 0, 0), (12, 1, 0), (36, 1, 0), (2, 1, 99), (2, 1, 100), (3, 1, 101), (2, 0, 200)]
        } else {
            // (36 links: one validator thread and queue per link, far beyond the capacity back-off of the dispatcher)
            vec![[(1, 0, 0), (2, 1, 0), (3, 1, 100), (12, 1, 0), (36, 1, 0)][wi % 5]]
        };
        for (links, layout, pad) in layouts {
            for (mute, ec) in [(false, false), (true, true)] {
                if !tier.is_thorough() && (wi + mute as usize) % 2 == 1 {
                    continue;
                }
                cli.push((dim.clone(), h.clone(), links, layout, pad, mute, ec, cli.len()));
            }
        }
    }
    let cres = par_map(&cli, |_, (d, h, l, lay, pad, m, e, v)| cli_case(d, h, *l, *lay, *pad, *m, *e, *v));
    for ((d, h, l, lay, pad, m, e, _v), r) in cli.iter().zip(cres.iter()) {
        if let Some((sig, desc)) = r {
            rep.violation(Violation {
                signature: format!("false-alarm:{sig}:{}", d.mode.name().replace(' ', "-")),
                description: format!("{desc} [{:?}, {l} links layout {lay} pad {pad} mute {m} -E {e}, pages {:?}]", d, h),
                replay: json!({"kind": "cli", "dim": format!("{:?}", d), "mode": d.mode.name(), "links": l, "layout": lay}),
            });
        }
    }
    // every lane id in every word position
    let lp = lane_position_cases();
    let lres = par_map(&lp, |_, (_, pk, mode)| {
        let mut off = 0u64;
        let raw: Vec<val::RawPacket> = pk
            .iter()
            .map(|p| {
                let r = (p.packet.rdh.encode().to_vec(), p.packet.payload.clone(), off);
                off += p.packet.len() as u64;
                r
            })
            .collect();
        let o = val::validate_link(val::mode_cfg(*mode), &raw);
        (o.errors(), o.panic)
    });
    for ((label, pk, mode), (errs, panic)) in lp.iter().zip(lres.iter()) {
        if let Some(p) = panic {
            rep.violation(Violation { signature: format!("panic:{}", val::panic_site(p)), description: format!("{p} [{label}]"), replay: json!({"kind": "xs", "mode": mode.name(), "stream_hex": hex(&grammar::contiguous(&[pk.clone()]).bytes())}) });
        } else if let Some(e) = errs.first() {
            let code = fp_model::rules::parse_error_message(e).and_then(|x| x.1.first().cloned()).unwrap_or_else(|| "E?".into());
            rep.violation(Violation {
                signature: format!("false-alarm:{code}:{}:lane-position", mode.name().replace(' ', "-")),
                description: format!("conforming stream reported: {} [{label}, {}]", e.lines().next().unwrap_or(""), mode.name()),
                replay: json!({"kind": "xs", "mode": mode.name(), "stream_hex": hex(&grammar::contiguous(&[pk.clone()]).bytes())}),
            });
        }
    }
    rep.cov("lane_position_cases", json!(lp.len()));
    rep.cov("states", json!(states));
    rep.cov("transitions", json!(transitions));
    rep.cov("traces_validated_against_impl", json!(transitions + cli.len() as u64 + lp.len() as u64));
    rep.cov("fixpoint", json!(all_fix));
    rep.cov("merged_histories_checked", json!(merges));
    rep.cov("cli_runs", json!(cli.len()));
    rep.cov("configurations", json!(per_dim));
    rep.cov("exhaustive", json!(true));
    if let Some((d, h)) = witnesses.first() {
        rep.sample(json!({"dim": format!("{:?}", d), "page_history": format!("{:?}", h)}));
    }
    if let Some((d, h)) = witnesses.last() {
        rep.sample(json!({"dim": format!("{:?}", d), "page_history": format!("{:?}", h)}));
    }
    rep.assume("value registers are finite: 2 alternating orbits, RDH BC in {0,1}, BC ladder step 0x120, 2 RDH trigger types (SOC|HB|TF and PhT), HBFs of at most 3 data pages (+1 to close an open event); equal consecutive trigger BCs are never generated");
    rep.assume("hit content and data bytes come from the finite alphabets of fp_model::alpide / grammar, not from all values");
    rep.finish()
}

pub fn replay(v: &serde_json::Value) -> i32 {
    val::init_process();
    let r = &v["replay"];
    let Some(hexs) = r["stream_hex"].as_str() else {
        println!("REPLAY: CLI-tier case; re-run ./check C01");
        return 2;
    };
    let bytes = fp_model::util::unhex(hexs);
    let mode = val::ALL_MODES.iter().copied().find(|m| m.name() == r["mode"].as_str().unwrap()).unwrap();
    let (walked, _) = fp_model::stream::walk(&bytes);
    let packets: Vec<val::RawPacket> = walked.iter().map(|w| (bytes[w.offset as usize..w.offset as usize + 64].to_vec(), bytes[w.payload.0..w.payload.1].to_vec(), w.offset)).collect();
    let out = val::validate_link(val::mode_cfg(mode), &packets);
    if out.panic.is_some() || !out.errors().is_empty() {
        println!("REPLAY: violation reproduced: {:?} {:?}", out.panic, out.errors().first());
        1
    } else {
        println!("REPLAY: no violation");
        0
    }
}
