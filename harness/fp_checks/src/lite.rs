//! "Lite" pipeline: the real `InputScanner` (offsets, filter, payload loading) feeding real `LinkValidator`s the
//! way the dispatcher does — single-threaded and deterministic. The multi-threaded composition itself is the
//! subject of the `sched` engine and of the CLI tiers.
use crate::imp::{self, ScanCfg};
use crate::val::{self, Mode};
use alice_protocol_reader::prelude::InputStatType;
use fp_model::stream::Filter;
use std::collections::BTreeMap;
use std::sync::Arc;

#[derive(Clone, Debug, Default)]
pub struct LiteOut {
    /// error messages of the scanner (E100/E101) and of the validators, scanner first
    pub errors: Vec<String>,
    pub fatal: Vec<String>,
    pub panic: Option<String>,
    /// offsets of the packets the scanner delivered
    pub packet_offsets: Vec<u64>,
}

pub fn scan_cfg(mode: Option<Mode>, filter: Option<Filter>, skip_override: Option<bool>) -> ScanCfg {
    let mut c = ScanCfg { skip_payload: skip_override.unwrap_or(mode.map_or(false, |m| !m.has_target())), ..Default::default() };
    match filter {
        Some(Filter::Link(l)) => c.filter_link = Some(l),
        Some(Filter::Fee(f)) => c.filter_fee = Some(f),
        Some(Filter::LayerStave(f)) => c.filter_its_stave = Some(f),
        None => {}
    }
    c
}

pub fn run_lite(bytes: Arc<Vec<u8>>, mode: Mode, filter: Option<Filter>, pipe: bool) -> LiteOut {
    let mut out = LiteOut::default();
    let cfg = scan_cfg(Some(mode), filter, None);
    let scanned = match val::guarded(|| imp::scan_direct(bytes.clone(), &cfg, pipe, 0, 1_000_000)) {
        Ok(s) => s,
        Err(p) => {
            out.panic = Some(p);
            return out;
        }
    };
    for s in &scanned.stats {
        match s {
            InputStatType::Error(e) => out.errors.push(e.to_string()),
            InputStatType::Fatal(e) => out.fatal.push(e.to_string()),
            _ => {}
        }
    }
    let mut groups: BTreeMap<u32, Vec<val::RawPacket>> = BTreeMap::new();
    for p in &scanned.packets {
        out.packet_offsets.push(p.mem_pos);
        let fee = u16::from_le_bytes([p.rdh_bytes[2], p.rdh_bytes[3]]) as u32;
        let link = p.rdh_bytes[12] as u32;
        let id = if mode == Mode::AllStave { fee } else { link };
        groups.entry(id).or_default().push((p.rdh_bytes.clone(), p.payload.clone(), p.mem_pos));
    }
    for (_, g) in groups {
        let o = val::validate_link(val::mode_cfg(mode), &g);
        out.errors.extend(o.errors().into_iter().filter(|e| !e.starts_with("FATAL")));
        out.fatal.extend(o.errors().into_iter().filter(|e| e.starts_with("FATAL")));
        if out.panic.is_none() {
            out.panic = o.panic;
        }
    }
    out
}
