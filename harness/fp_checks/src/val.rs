//! In-process drivers of the real validators (per-link, synchronous, single-threaded).
use alice_protocol_reader::prelude::*;
use fastpasta::analyze::validators::its::cdp_running::CdpRunningValidator;
use fastpasta::analyze::validators::link_validator::LinkValidator;
use fastpasta::config::check::{CheckCommands, CheckModeArgs, System};
use fastpasta::config::custom_checks::custom_checks_cfg::CustomChecks;
use fastpasta::config::prelude::MockConfig;
use fastpasta::stats::StatType;
use std::cell::RefCell;
use std::collections::HashMap;
use std::panic::{catch_unwind, AssertUnwindSafe};
use std::sync::{Mutex, Once};

#[derive(Clone, Copy, Debug, PartialEq, Eq, Hash, PartialOrd, Ord)]
pub enum Mode {
    Sanity,
    SanityIts,
    All,
    AllIts,
    AllStave,
}
pub const ALL_MODES: [Mode; 5] = [Mode::Sanity, Mode::SanityIts, Mode::All, Mode::AllIts, Mode::AllStave];
impl Mode {
    pub fn cli_args(&self) -> Vec<&'static str> {
        match self {
            Mode::Sanity => vec!["check", "sanity"],
            Mode::SanityIts => vec!["check", "sanity", "its"],
            Mode::All => vec!["check", "all"],
            Mode::AllIts => vec!["check", "all", "its"],
            Mode::AllStave => vec!["check", "all", "its-stave"],
        }
    }
    pub fn has_target(&self) -> bool {
        !matches!(self, Mode::Sanity | Mode::All)
    }
    pub fn running(&self) -> bool {
        matches!(self, Mode::All | Mode::AllIts | Mode::AllStave)
    }
    pub fn name(&self) -> &'static str {
        match self {
            Mode::Sanity => "check sanity",
            Mode::SanityIts => "check sanity its",
            Mode::All => "check all",
            Mode::AllIts => "check all its",
            Mode::AllStave => "check all its-stave",
        }
    }
}

#[derive(Clone, Debug, PartialEq, Eq, Hash, Default)]
pub struct CfgKey {
    pub mode: Option<Mode>,
    pub mute: bool,
    pub trigger_period: Option<u16>,
    pub rdh_version: Option<u8>,
    pub chip_count_ob: Option<u8>,
    pub chip_orders_ob: Option<Vec<Vec<u8>>>,
}

static CFGS: Mutex<Option<HashMap<CfgKey, &'static MockConfig>>> = Mutex::new(None);

/// A leaked, memoised `MockConfig` (the validators want `&'static`).
pub fn cfg(key: &CfgKey) -> &'static MockConfig {
    let mut g = CFGS.lock().unwrap();
    let m = g.get_or_insert_with(HashMap::new);
    if let Some(c) = m.get(key) {
        return c;
    }
    let mut c = MockConfig::new();
    let args = |t: Option<System>| CheckModeArgs { target: t, ..Default::default() };
    c.check = key.mode.map(|m| match m {
        Mode::Sanity => CheckCommands::Sanity(args(None)),
        Mode::SanityIts => CheckCommands::Sanity(args(Some(System::ITS))),
        Mode::All => CheckCommands::All(args(None)),
        Mode::AllIts => CheckCommands::All(args(Some(System::ITS))),
        Mode::AllStave => CheckCommands::All(args(Some(System::ITS_Stave))),
    });
    c.mute_errors = key.mute;
    c.its_trigger_period = key.trigger_period;
    if key.rdh_version.is_some() || key.chip_count_ob.is_some() || key.chip_orders_ob.is_some() {
        let cc: CustomChecks = serde_json::from_value(serde_json::json!({
            "cdps": null, "triggers_pht": null, "rdh_version": key.rdh_version,
            "chip_orders_ob": key.chip_orders_ob, "chip_count_ob": key.chip_count_ob }))
        .expect("custom checks");
        c.custom_checks = Some(cc);
    }
    let leaked: &'static MockConfig = Box::leak(Box::new(c));
    m.insert(key.clone(), leaked);
    leaked
}

pub fn mode_cfg(mode: Mode) -> &'static MockConfig {
    cfg(&CfgKey { mode: Some(mode), ..Default::default() })
}

thread_local! {
    static LAST_PANIC: RefCell<Option<String>> = RefCell::new(None);
}
static HOOK: Once = Once::new();

/// Installs a quiet panic hook that records `file:line: message` per thread, and initialises the global CLI
/// configuration (a few formatters read `Cfg::global()`), with errors unmuted.
pub fn init_process() {
    HOOK.call_once(|| {
        std::panic::set_hook(Box::new(|info| {
            let loc = info.location().map(|l| format!("{}:{}", l.file(), l.line())).unwrap_or_default();
            let msg = if let Some(s) = info.payload().downcast_ref::<&str>() {
                s.to_string()
            } else if let Some(s) = info.payload().downcast_ref::<String>() {
                s.clone()
            } else {
                "?".to_string()
            };
            LAST_PANIC.with(|p| *p.borrow_mut() = Some(format!("{loc}: {msg}")));
        }));
        use clap::Parser;
        let mute = std::env::var("VERIF_GLOBAL_MUTE").is_ok();
        let mut argv = vec!["fastpasta", "check", "all", "its-stave"];
        if mute {
            argv.insert(1, "-m");
        }
        let _ = fastpasta::config::CONFIG.set(fastpasta::config::Cfg::parse_from(argv));
    });
}

/// Runs `f`, turning a panic of the code under test into `Err("file:line: message")`.
pub fn guarded<R>(f: impl FnOnce() -> R) -> Result<R, String> {
    init_process();
    LAST_PANIC.with(|p| *p.borrow_mut() = None);
    match catch_unwind(AssertUnwindSafe(f)) {
        Ok(r) => Ok(r),
        Err(_) => Err(LAST_PANIC.with(|p| p.borrow_mut().take()).unwrap_or_else(|| "panic (no message)".into())),
    }
}

/// Shortens a panic location to `file.rs:line` relative names for signatures.
pub fn panic_site(p: &str) -> String {
    let first = p.split(": ").next().unwrap_or(p);
    let file = first.rsplit('/').next().unwrap_or(first);
    file.to_string()
}

pub type RawPacket = (Vec<u8>, Vec<u8>, u64); // 64 header bytes, payload, offset

pub fn rdh_from(bytes: &[u8]) -> RdhCru {
    RdhCru::load(&mut &bytes[..64]).expect("64 bytes")
}

#[derive(Clone, Debug, Default)]
pub struct Outcome {
    pub msgs: Vec<StatType>,
    pub panic: Option<String>,
}
impl Outcome {
    pub fn errors(&self) -> Vec<String> {
        self.msgs
            .iter()
            .filter_map(|m| match m {
                StatType::Error(e) => Some(e.to_string()),
                StatType::Fatal(e) => Some(format!("FATAL {e}")),
                _ => None,
            })
            .collect()
    }
}

/// One synchronous pass of a packet list through a fresh real `LinkValidator` (what a validator thread does).
pub fn validate_link(cfg: &'static MockConfig, packets: &[RawPacket]) -> Outcome {
    let (tx, rx) = flume::unbounded();
    let skip = cfg.check.as_ref().map_or(true, |c| c.target().is_none());
    let r = guarded(|| {
        let (mut v, send) = LinkValidator::<RdhCru, MockConfig>::with_chan_capacity(cfg, tx, None);
        for (h, p, pos) in packets {
            let payload = if skip { Vec::new() } else { p.clone() };
            send.send((rdh_from(h), payload, *pos)).unwrap();
        }
        drop(send);
        v.run();
    });
    let msgs: Vec<StatType> = rx.try_iter().collect();
    Outcome { msgs, panic: r.err() }
}

/// A live real `CdpRunningValidator` that can be stepped word by word.
pub struct CdpStepper {
    pub v: CdpRunningValidator<RdhCru, MockConfig>,
    pub rx: flume::Receiver<StatType>,
}
impl CdpStepper {
    pub fn new(cfg: &'static MockConfig) -> Self {
        init_process();
        let (tx, rx) = flume::unbounded();
        CdpStepper { v: CdpRunningValidator::new(cfg, tx), rx }
    }
    pub fn set_rdh(&mut self, rdh_bytes: &[u8], pos: u64) -> Result<(), String> {
        let r = rdh_from(rdh_bytes);
        guarded(|| self.v.set_current_rdh(&r, pos))
    }
    /// Feeds one word; returns the messages it produced.
    pub fn word(&mut self, w: &[u8]) -> Result<Vec<StatType>, String> {
        let r = guarded(|| self.v.check(w));
        let msgs: Vec<StatType> = self.rx.try_iter().collect();
        r.map(|_| msgs)
    }
    pub fn drain(&mut self) -> Vec<StatType> {
        self.rx.try_iter().collect()
    }
}

pub fn error_texts(msgs: &[StatType]) -> Vec<String> {
    msgs.iter()
        .filter_map(|m| match m {
            StatType::Error(e) => Some(e.to_string()),
            StatType::Fatal(e) => Some(format!("FATAL {e}")),
            _ => None,
        })
        .collect()
}
