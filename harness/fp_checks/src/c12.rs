//! C12 — payloads are cut into words correctly; padding is never a word.
//!
//! Complete enumeration: formats {0,2} x word counts {0..40, 511, 512, 700} x trailing 0xFF runs 0..40 (every
//! payload-size residue mod 10 / mod 16 occurs) through the real `preprocess_payload` and through a real
//! `LinkValidator` (every word is made individually recognisable and faulty, so the set of reported
//! (offset, quoted bytes) pairs tells which bytes were examined as words); the padding-error path incl. the reset
//! of the protocol state. Oracle: `fp_model::payload::slice`.
use crate::val::{self, Mode};
use alice_protocol_reader::prelude::RdhCru;
use fastpasta::analyze::validators::lib::preprocess_payload;
use fastpasta::analyze::validators::link_validator::LinkValidator;
use fastpasta::config::prelude::MockConfig;
use fp_harness::par::par_map;
use fp_harness::{Reporter, Tier, Violation};
use fp_model::grammar::{self, LinkCfg};
use fp_model::payload::{self, Sliced};
use fp_model::rdh::Rdh;
use fp_model::rules;
use fp_model::util::hex;
use serde_json::json;

fn marked_word(i: usize) -> [u8; 10] {
    // recognisable, never conforming (unknown id 0x3D), first bytes non-zero, never 0xFF at the end
    [(i & 0xFF) as u8 | 1, ((i >> 8) & 0x0F) as u8 | 0x40, 0x5A, (i % 251) as u8 | 0x80, 0xC3, 0x3C, 0x96, 0x69, 0x00, 0x3D]
}

fn build_payload(fmt: u8, n: usize, ff: usize) -> Vec<u8> {
    build_payload_x(fmt, n, ff, None)
}

/// `ffw`: the word slot with this index (never the last one) holds nothing but 0xFF bytes - a damaged word in the
/// middle of the payload, not padding: it is a word like the others (examined once, at its own offset).
fn build_payload_x(fmt: u8, n: usize, ff: usize, ffw: Option<usize>) -> Vec<u8> {
    let mut p = Vec::new();
    for i in 0..n {
        if ffw == Some(i) {
            // (in format 0 the six filler bytes of the slot stay zero: they belong to the format, not to the word)
            p.extend(std::iter::repeat(0xFF).take(10));
            if fmt == 0 {
                p.extend_from_slice(&[0u8; 6]);
            }
            continue;
        }
        p.extend_from_slice(&marked_word(i));
        if fmt == 0 {
            p.extend_from_slice(&[0u8; 6]);
        }
    }
    // ffw = 1000 + k: the LAST word ends in k bytes of 0xFF (k = 1..=9, so its identifier byte is 0xFF): still a word -
    // the 0xFF run measured from the end is longer than the padding, the cut must not fall inside the word
    if let Some(x) = ffw.filter(|x| *x >= 1000) {
        let k = (x - 1000).clamp(1, 9);
        if n > 0 {
            let start = (n - 1) * if fmt == 0 { 16 } else { 10 };
            for b in &mut p[start + 10 - k..start + 10] {
                *b = 0xFF;
            }
        }
    }
    p.extend(std::iter::repeat(0xFF).take(ff));
    p
}

fn check_preprocess(fmt: u8, n: usize, ff: usize) -> Option<(String, String)> {
    check_preprocess_x(fmt, n, ff, None)
}

fn check_preprocess_x(fmt: u8, n: usize, ff: usize, ffw: Option<usize>) -> Option<(String, String)> {
    let p = build_payload_x(fmt, n, ff, ffw);
    let model = payload::slice(&p, fmt);
    let got = val::guarded(|| preprocess_payload(&p).map(|c| c.map(|w| w[..10].to_vec()).collect::<Vec<_>>()));
    match (model, got) {
        (_, Err(panic)) => Some((format!("panic:{}", val::panic_site(&panic)), panic)),
        (Sliced::PaddingError(_), Ok(Err(_))) => None,
        (Sliced::PaddingError(_), Ok(Ok(w))) => Some(("padding-limit:not-rejected".into(), format!("{ff} trailing 0xFF bytes accepted, {} words cut", w.len()))),
        (Sliced::Words(_), Ok(Err(e))) => Some(("padding-limit:false-reject".into(), format!("payload with {ff} trailing 0xFF bytes rejected: {e}"))),
        (Sliced::Words(m), Ok(Ok(w))) => {
            if w.len() != m.len() {
                return Some(("word-count".into(), format!("{} words cut, payload has {} (format {fmt}, {ff} padding bytes)", w.len(), m.len())));
            }
            for (i, (a, b)) in w.iter().zip(m.iter()).enumerate() {
                if a[..] != b.bytes[..] {
                    return Some(("word-bytes".into(), format!("word {i} is {} but the payload holds {} there", hex(a), hex(&b.bytes))));
                }
            }
            None
        }
    }
}

fn rdh_for(fmt: u8, payload_len: usize, page: u16, stop: u8) -> Rdh {
    let mut r = Rdh::base();
    r.data_format = fmt;
    r.pages_counter = page;
    r.stop_bit = stop;
    r.memory_size = (64 + payload_len) as u16;
    r.offset_next = r.memory_size;
    r
}

fn check_validator(fmt: u8, n: usize, ff: usize, mode: Mode) -> Option<(String, String)> {
    check_validator_x(fmt, n, ff, mode, None)
}

fn check_validator_x(fmt: u8, n: usize, ff: usize, mode: Mode, ffw: Option<usize>) -> Option<(String, String)> {
    let p = build_payload_x(fmt, n, ff, ffw);
    // an offset with a leading hexadecimal letter: the message must also be acceptable to the statistics stage
    // ... and, for every second shape, an offset beyond 2^32 (files larger than 4 GiB)
    let pos = if (n + ff) % 2 == 0 { 0xF000u64 } else { 0x1_0000_F000u64 };
    let r = rdh_for(fmt, p.len(), 0, 0);
    let out = val::validate_link(val::mode_cfg(mode), &[(r.encode().to_vec(), p.clone(), pos)]);
    if let Some(pn) = out.panic {
        return Some((format!("panic:{}", val::panic_site(&pn)), pn));
    }
    let model = payload::slice(&p, fmt);
    let errs = out.errors();
    match model {
        Sliced::PaddingError(_) => {
            let pay: Vec<&String> = errs.iter().filter(|e| e.contains("Payload error following RDH")).collect();
            let others: Vec<&String> = errs.iter().filter(|e| !e.contains("Payload error following RDH") && !e.contains("[E1")).collect();
            if pay.len() != 1 {
                return Some(("padding-error:count".into(), format!("{} 'Payload error following RDH' messages for {ff} padding bytes", pay.len())));
            }
            if rules::parse_error_message(pay[0]).map(|x| x.0) != Some(pos) {
                return Some(("padding-error:offset".into(), format!("padding error not at the RDH offset {pos:#x}: {}", pay[0])));
            }
            if !others.is_empty() {
                return Some(("padding-error:words-examined".into(), format!("words of a rejected payload were examined: {}", others[0])));
            }
            if let Some((sig, d)) = crate::truth::check_sortable(&[pay[0].clone(), "0x40: [E10] another message".to_string()]) {
                return Some((format!("padding-error:{sig}"), d));
            }
            None
        }
        Sliced::Words(m) => {
            // every word is faulty: collect the set of distinct (offset, quoted bytes) the tool talks about
            let mut seen: Vec<(u64, String)> = Vec::new();
            for e in &errs {
                if e.contains("[E10]") || e.contains("[E11]") {
                    continue;
                }
                let Some((off, _)) = rules::parse_error_message(e) else { return Some(("message".into(), format!("unparsable: {e}"))) };
                let dump = e.rfind('[').map(|i| e[i..].to_string()).unwrap_or_default();
                if seen.last() != Some(&(off, dump.clone())) {
                    if seen.iter().any(|s| s.0 == off) {
                        return Some(("word-order".into(), format!("word at {off:#x} reported again after later words")));
                    }
                    seen.push((off, dump));
                }
            }
            if seen.len() != m.len() {
                return Some((
                    "examined-word-count".into(),
                    format!("{} distinct words examined, payload has {} (format {fmt}, {n} words, {ff} padding bytes)", seen.len(), m.len()),
                ));
            }
            let slot = if fmt == 0 { 16 } else { 10 };
            for (i, (s, w)) in seen.iter().zip(m.iter()).enumerate() {
                let want_off = pos + 64 + (i * slot) as u64;
                debug_assert_eq!(w.rel_offset, i * slot);
                let want_dump = format!("[{}]", w.bytes.iter().map(|b| format!("{:02X}", b)).collect::<Vec<_>>().join(" "));
                if s.0 != want_off {
                    return Some(("word-offset".into(), format!("word {i} reported at {:#x}, it is at {want_off:#x}", s.0)));
                }
                if s.1 != want_dump {
                    return Some(("word-bytes".into(), format!("word {i} quoted as {}, payload holds {want_dump}", s.1)));
                }
            }
            None
        }
    }
}

/// After a padding error the protocol state is the initial one and the next packet is judged from there.
/// `stave`: the same in `check all its-stave`, where the protocol state includes the open readout frame (the lane data
/// collected since the last non-continuation TDH): lead-ins are the prefixes of a page with one complete ALPIDE frame
/// and of a page that leaves a frame open; the conforming HBF that follows carries a complete frame of its own.
/// `bad_stop`: the stop bit of the RDH whose payload is rejected (a rejected payload in the packet that closes the HBF
/// must reset the state like any other).
fn check_reset_in(fmt: u8, ff: usize, lead_words: usize, stave: bool, bad_stop: u8) -> Option<(String, String)> {
    let cfg: &'static MockConfig = val::mode_cfg(if stave { Mode::AllStave } else { Mode::AllIts });
    let mut lc = LinkCfg::ib(0, 0);
    lc.data_format = fmt;
    let shapes = |c: &LinkCfg| if stave { grammar::stave_hbf_shapes(c) } else { grammar::basic_hbf_shapes(c) };
    let open_idx = if stave { 4 } else { 7 };
    let conforming = grammar::render_link(&lc, &[shapes(&lc)[0].1.clone()]);
    // leave the FSM in a non-initial state: a page holding only a prefix of a conforming page. Lead-ins 1..: the
    // prefixes of "IHW TDH data data data TDT(done)", then the prefixes of "IHW TDH(no data) TDH data data data
    // TDT(packet_done = 0)" - the last one leaves the FSM waiting for a continuation page
    let open_page = grammar::render_link(&lc, &[shapes(&lc)[open_idx].1.clone()]);
    let mut leadins: Vec<Vec<[u8; 10]>> = Vec::new();
    for page in [&conforming[0], &open_page[0]] {
        for n in 1..=page.words.len() {
            leadins.push(page.words.iter().take(n).map(|w| w.bytes).collect());
        }
    }
    let lead: Vec<[u8; 10]> = leadins[(lead_words - 1) % leadins.len()].clone();
    let lead_payload = payload::pack(&lead, fmt);
    let (tx, rx) = flume::unbounded();
    let r = val::guarded(|| {
        let (mut lv, _s) = LinkValidator::<RdhCru, MockConfig>::with_chan_capacity(cfg, tx, None);
        let mut h = conforming[0].packet.rdh.clone();
        h.memory_size = (64 + lead_payload.len()) as u16;
        h.offset_next = h.memory_size;
        // the sequence lead-in, rejected payload is played twice on the same link: the second rejection must reset the
        // protocol state like the first one
        let mut before = 0;
        let mut after = 0;
        let mut second_reported = true;
        for round in 0..2u64 {
            lv.verif_step((val::rdh_from(&h.encode()), lead_payload.clone(), round * 0x800));
            before = lv.verif_fsm_state_id();
            let _ = rx.try_iter().count();
            let bad = build_payload(fmt, 3, ff);
            let mut h2 = conforming[0].packet.rdh.clone();
            h2.pages_counter = 1;
            h2.stop_bit = bad_stop;
            h2.memory_size = (64 + bad.len()) as u16;
            h2.offset_next = h2.memory_size;
            lv.verif_step((val::rdh_from(&h2.encode()), bad, 0x1000 + round * 0x800));
            let a = lv.verif_fsm_state_id();
            after = after.max(a);
            let n = val::error_texts(&rx.try_iter().collect::<Vec<_>>()).iter().filter(|m| m.contains("Payload error following RDH")).count();
            if n != 1 {
                second_reported = false;
            }
        }
        if !second_reported {
            after = 0xFF; // reported below as a state problem with its own wording
        }
        // now a fresh conforming HBF on this link must be accepted by the payload checks
        let mut msgs = Vec::new();
        let mut lc2 = lc.clone();
        lc2.first_orbit += 7;
        let follow = grammar::render_link(&lc2, &[shapes(&lc2)[0].1.clone()]);
        for (i, p) in follow.iter().enumerate() {
            lv.verif_step((val::rdh_from(&p.packet.rdh.encode()), p.packet.payload.clone(), 0x2000 + 0x1000 * i as u64));
            msgs.extend(val::error_texts(&rx.try_iter().collect::<Vec<_>>()));
        }
        (before, after, msgs)
    });
    match r {
        Err(p) => Some((format!("panic:{}", val::panic_site(&p)), p)),
        Ok((before, after, msgs)) => {
            if lead_words > 0 && before == 0 {
                return Some(("reset:harness".into(), "lead-in did not move the FSM".into()));
            }
            if after == 0xFF {
                return Some(("reset:repeated-padding-error-not-reported-once".into(), "each of two rejected payloads on one link must be reported exactly once".into()));
            }
            if after != 0 {
                return Some(("reset:state-not-initial".into(), format!("FSM state after a padding error (first or second on the link) is {after}, not the initial state (was {before} before)")));
            }
            // RDH running errors (page counter) are expected from the artificial page sequence; payload errors are not
            let payload_errs: Vec<&String> = msgs.iter().filter(|m| !m.contains("[E11]")).collect();
            if !payload_errs.is_empty() {
                return Some(("reset:next-packet-misjudged".into(), format!("conforming packet after a padding error reported: {}", payload_errs[0])));
            }
            None
        }
    }
}

/// "Judged from the initial state", differentially: the messages for the packets that follow a rejected payload equal
/// the messages a fresh validator gives for the same packets. The packets before the rejected one leave history behind
/// (a calibration word with another user field), the packets after it would be judged differently with that history
/// (their calibration word has index 1: `[E81]` only if a previous CDW with another user field is remembered).
fn check_reset_history(fmt: u8, ff: usize) -> Option<(String, String)> {
    let cfg: &'static MockConfig = val::mode_cfg(Mode::AllIts);
    let mut lc = LinkCfg::ib(0, 0);
    lc.data_format = fmt;
    let shape = grammar::basic_hbf_shapes(&lc)[4].1.clone(); // "cdw-at-start"
    let lead = grammar::render_link(&lc, &[shape.clone()]);
    let mut lc2 = lc.clone();
    lc2.first_orbit += 7;
    let mut follow = grammar::render_link(&lc2, &[shape]);
    let mut patched = false;
    for p in follow.iter_mut() {
        for wi in 0..p.words.len() {
            if p.words[wi].kind == grammar::WKind::Cdw {
                let off = p.word_rel_offset(wi) - 64;
                p.packet.payload[off..off + 10].copy_from_slice(&fp_model::words::cdw(0x00AB_CDEF_0123, 1));
                patched = true;
            }
        }
    }
    if !patched {
        return Some(("reset:harness".into(), "no CDW in the follow-up page".into()));
    }
    let run = |with_history: bool| -> Result<Vec<String>, String> {
        let (tx, rx) = flume::unbounded();
        val::guarded(|| {
            let (mut lv, _s) = LinkValidator::<RdhCru, MockConfig>::with_chan_capacity(cfg, tx, None);
            if with_history {
                lv.verif_step((val::rdh_from(&lead[0].packet.rdh.encode()), lead[0].packet.payload.clone(), 0));
                let bad = build_payload(fmt, 3, ff);
                let mut h2 = lead[0].packet.rdh.clone();
                h2.pages_counter = 1;
                h2.memory_size = (64 + bad.len()) as u16;
                h2.offset_next = h2.memory_size;
                lv.verif_step((val::rdh_from(&h2.encode()), bad, 0x1000));
                let _ = rx.try_iter().count();
            }
            let mut msgs = Vec::new();
            for (i, p) in follow.iter().enumerate() {
                lv.verif_step((val::rdh_from(&p.packet.rdh.encode()), p.packet.payload.clone(), 0x2000 + 0x1000 * i as u64));
                msgs.extend(val::error_texts(&rx.try_iter().collect::<Vec<_>>()));
            }
            // RDH-level findings depend on the artificial page sequence, not on the payload state
            msgs.retain(|m| !m.contains("[E10]") && !m.contains("[E11]"));
            msgs
        })
    };
    match (run(true), run(false)) {
        (Err(p), _) | (_, Err(p)) => Some((format!("panic:{}", val::panic_site(&p)), p)),
        (Ok(a), Ok(b)) => {
            if a != b {
                let extra: Vec<&String> = a.iter().filter(|m| !b.contains(m)).collect();
                let lost: Vec<&String> = b.iter().filter(|m| !a.contains(m)).collect();
                return Some(("reset:next-packet-judged-with-history-from-before-the-reset".into(), format!("after a rejected payload the following packets get {} messages, a fresh validator gives {}: only after the reset {:?}, only fresh {:?}", a.len(), b.len(), extra.first().map(|s| s.lines().next().unwrap_or("")), lost.first().map(|s| s.lines().next().unwrap_or("")))));
            }
            None
        }
    }
}

/// The readout-frame views: a two-packet file whose first payload has `n` displayable words and `ff` padding bytes;
/// every printed row must be the model's decode of a real word at that offset, and no row may come from padding.
fn check_view(fmt: u8, n: usize, ff: usize, data: bool) -> Option<(String, String)> {
    use fp_model::stream::Packet;
    use fp_model::words;
    let mut ws: Vec<[u8; 10]> = vec![words::ihw(0x1FF), words::data_word(0x21, [0x77; 9])];
    for i in 2..n.max(2) {
        ws.push(match i % 5 {
            0 => words::Tdh { trigger_type: 1 << 4, internal: false, no_data: false, continuation: false, bc: (i % 3564) as u16, orbit: i as u32 }.encode(),
            1 => words::data_word(0x20 + (i % 9) as u8, [(i & 0xFF) as u8 | 1; 9]),
            2 => words::Tdt { packet_done: i % 2 == 0, ..Default::default() }.encode(),
            3 => words::cdw(i as u64, 1),
            _ => words::Ddw0::default().encode(),
        });
    }
    ws.truncate(n.max(2));
    let mut pl = payload::pack(&ws, fmt);
    // `pack` pads format 2 to the 16-byte boundary itself; replace that by exactly `ff` bytes of 0xFF
    if fmt == 2 {
        pl.truncate(ws.len() * 10);
    }
    pl.extend(std::iter::repeat(0xFF).take(ff));
    let mut r = Rdh::base();
    r.data_format = fmt;
    let a = Packet::framed(r.clone(), pl);
    let mut r2 = r.clone();
    r2.pages_counter = 1;
    r2.stop_bit = 1;
    let b = Packet::framed(r2, payload::pack(&[words::ihw(0x1FF), words::data_word(0x22, [0x55; 9]), words::Ddw0::default().encode()], fmt));
    let bytes = fp_model::stream::to_bytes(&[a, b]);
    let view = if data { "its-readout-frames-data" } else { "its-readout-frames" };
    let scratch = fp_harness::cli::Scratch::new("c12");
    let args = vec![scratch.file("in.raw", &bytes).display().to_string(), "view".into(), view.into(), "-d".into()];
    let run = fp_harness::cli::Run::new(&args).cwd(&scratch.path).run();
    if run.crashed() || run.status != Some(0) {
        return Some(("view:failed".into(), format!("exit {:?} signal {:?}: {}", run.status, run.signal, run.stderr_str().chars().take(200).collect::<String>())));
    }
    let rows = crate::c19::parse_rows(&run.stdout_str());
    let want = crate::c19::expected_frame_rows(&bytes, None, data);
    if ff > 15 && rows.len() < want.len() && rows.first() == want.first() && !rows.iter().any(|r| !want.contains(r)) {
        // the rejected payload must be skipped and the view go on with the next packet
        return Some(("view:padding-error-ends-the-view".into(), format!("after the payload with {ff} bytes of 0xFF the view ends: {} rows printed, {} RDHs / words to show (the next packet is not shown); stderr: {}", rows.len(), want.len(), run.stderr_str().lines().find(|l| l.contains("FATAL") || l.contains("rror")).unwrap_or("").chars().take(160).collect::<String>())));
    }
    if rows.len() != want.len() {
        return Some(("view:row-count".into(), format!("{} rows printed, the payloads hold {} RDHs / words to show", rows.len(), want.len())));
    }
    for (i, (g, w)) in rows.iter().zip(want.iter()).enumerate() {
        if g != w {
            return Some(("view:row-content".into(), format!("row {i}: printed {:?}, the bytes at that offset decode to {:?}", g, w)));
        }
    }
    None
}

pub fn run(tier: Tier) -> i32 {
    val::init_process();
    let mut rep = Reporter::new("C12", tier, "exploration");
    let mut counts: Vec<usize> = (0..=if tier.is_thorough() { 700 } else { 12 }).collect();
    if !tier.is_thorough() {
        counts.extend([511, 512, 700]);
    }
    let mut cases = Vec::new();
    for fmt in [0u8, 2] {
        for &n in &counts {
            for ff in 0..=40usize {
                cases.push((fmt, n, ff));
            }
            // long runs of 0xFF (an erased page): lengths around the powers of two of narrow counters
            if n <= 12 {
                for ff in [254usize, 255, 256, 257, 260, 271, 272, 511, 512, 513, 520, 1000, 4096] {
                    cases.push((fmt, n, ff));
                }
            }
        }
    }
    let r1 = par_map(&cases, |_, (f, n, k)| check_preprocess(*f, *n, *k));
    let mut nontrivial = 0u64;
    for ((f, n, k), r) in cases.iter().zip(r1.iter()) {
        if *k > 0 {
            nontrivial += 1;
        }
        if let Some((sig, d)) = r {
            rep.violation(Violation { signature: format!("slice:{sig}"), description: format!("{d} [format {f}, {n} words, {k} x 0xFF]"), replay: json!({"kind": "preprocess", "fmt": f, "n": n, "ff": k}) });
        }
    }
    let vcases: Vec<(u8, usize, usize, Mode)> = cases
        .iter()
        .filter(|(_, n, _)| *n <= 40 || tier.is_thorough() || *n == 512)
        .flat_map(|(f, n, k)| [Mode::SanityIts, Mode::AllIts].into_iter().map(move |m| (*f, *n, *k, m)))
        .collect();
    let r2 = par_map(&vcases, |_, (f, n, k, m)| check_validator(*f, *n, *k, *m));
    for ((f, n, k, m), r) in vcases.iter().zip(r2.iter()) {
        if let Some((sig, d)) = r {
            rep.violation(Violation { signature: format!("validator:{sig}"), description: format!("{d} [format {f}, {n} words, {k} x 0xFF, {}]", m.name()), replay: json!({"kind": "validator", "fmt": f, "n": n, "ff": k, "mode": m.name()}) });
        }
    }
    // a word slot in the middle of the payload that holds nothing but 0xFF (a damaged word, not padding): every word
    // count 3..=12 (quick: 3, 5, 8, 12) x every position but the last x 0..=15 padding bytes x both formats
    {
        let mut xc: Vec<(u8, usize, usize, usize)> = Vec::new();
        for fmt in [0u8, 2] {
            for n in (3..=12usize).filter(|n| tier.is_thorough() || [3, 5, 8, 12].contains(n)) {
                for k in 0..n - 1 {
                    for ff in 0..=15usize {
                        xc.push((fmt, n, ff, k));
                    }
                }
            }
        }
        let rx = par_map(&xc, |_, (f, n, ff, k)| {
            let mut v = Vec::new();
            if let Some(x) = check_preprocess_x(*f, *n, *ff, Some(*k)) {
                v.push(("slice", x, "preprocess", ""));
            }
            for m in [Mode::SanityIts, Mode::AllIts] {
                if let Some(x) = check_validator_x(*f, *n, *ff, m, Some(*k)) {
                    v.push(("validator", x, "validator", m.name()));
                }
            }
            v
        });
        for ((f, n, ff, k), r) in xc.iter().zip(rx.into_iter()) {
            nontrivial += 1;
            for (pre, (sig, d), kind, mode) in r {
                rep.violation(Violation { signature: format!("{pre}:all-ff-word:{sig}"), description: format!("{d} [format {f}, {n} words of which word {k} is all 0xFF, {ff} x 0xFF padding {mode}]"), replay: json!({"kind": kind, "fmt": f, "n": n, "ff": ff, "ffw": k, "mode": mode}) });
            }
        }
        rep.cov("all_ff_word_cases", json!(xc.len() * 3));
    }
    // the last word ends in 1..=9 bytes of 0xFF (its identifier is 0xFF, an unknown word): x word counts x 0..=15 padding
    // bytes x both formats. Where word tail + padding exceed 15 bytes the payload is rejected (model and tool agree on
    // the run length); otherwise every word incl. the last is examined once
    {
        let mut xc: Vec<(u8, usize, usize, usize)> = Vec::new();
        for fmt in [0u8, 2] {
            for n in (1..=12usize).filter(|n| tier.is_thorough() || [1, 2, 5, 6, 8, 12].contains(n)) {
                for k in 1..=9usize {
                    for ff in 0..=15usize {
                        xc.push((fmt, n, ff, k));
                    }
                }
            }
        }
        let rx = par_map(&xc, |_, (f, n, ff, k)| {
            let mut v = Vec::new();
            if let Some(x) = check_preprocess_x(*f, *n, *ff, Some(1000 + *k)) {
                v.push(("slice", x, "preprocess", ""));
            }
            for m in [Mode::SanityIts, Mode::AllIts] {
                if let Some(x) = check_validator_x(*f, *n, *ff, m, Some(1000 + *k)) {
                    v.push(("validator", x, "validator", m.name()));
                }
            }
            v
        });
        for ((f, n, ff, k), r) in xc.iter().zip(rx.into_iter()) {
            nontrivial += 1;
            for (pre, (sig, d), kind, mode) in r {
                rep.violation(Violation { signature: format!("{pre}:last-word-ends-in-ff:{sig}"), description: format!("{d} [format {f}, {n} words, the last one ending in {k} bytes of 0xFF, {ff} x 0xFF padding {mode}]"), replay: json!({"kind": kind, "fmt": f, "n": n, "ff": ff, "ffw": 1000 + k, "mode": mode}) });
            }
        }
        rep.cov("last_word_ending_in_ff_cases", json!(xc.len() * 3));
    }
    // the separate row: word contents that imitate the other format's slot padding. A format-2 payload whose
    // second word starts with six zero bytes (bytes 10..15 of the payload) must still be cut in 10-byte words.
    {
        let mut p = Vec::new();
        p.extend_from_slice(&marked_word(0));
        p.extend_from_slice(&[0, 0, 0, 0, 0, 0, 0x11, 0x22, 0x00, 0x3D]);
        p.extend_from_slice(&marked_word(2));
        p.extend_from_slice(&[0xFF, 0xFF]);
        let model = payload::slice(&p, 2);
        let got = val::guarded(|| preprocess_payload(&p).map(|c| c.count()));
        if let (Sliced::Words(m), Ok(Ok(n))) = (&model, &got) {
            if m.len() != *n {
                rep.violation(Violation {
                    signature: "slice:format-misdetected:format2-second-word-six-zero-bytes".into(),
                    description: format!("a format-2 payload of {} words whose bytes 10..15 are zero is cut into {n} words (taken for format 0)", m.len()),
                    replay: json!({"kind": "detector", "payload_hex": hex(&p)}),
                });
            }
        }
    }
    // detector table: every subset of bytes 10..15 (the first six bytes of the second word) zero in a format-2
    // payload; only the full set is the known finding above, every other subset must be cut in 10-byte words
    for mask in 0u8..63 {
        let mut p = Vec::new();
        p.extend_from_slice(&marked_word(0));
        let mut w = marked_word(1);
        for b in 0..6 {
            if mask & (1 << b) != 0 {
                w[b] = 0;
            } else if w[b] == 0 {
                w[b] = 0x5A;
            }
        }
        p.extend_from_slice(&w);
        p.extend_from_slice(&marked_word(2));
        p.extend_from_slice(&[0xFF, 0xFF]);
        let model = payload::slice(&p, 2);
        let got = val::guarded(|| preprocess_payload(&p).map(|c| c.map(|w| w[..10].to_vec()).collect::<Vec<_>>()));
        if let (Sliced::Words(m), Ok(Ok(ws))) = (&model, &got) {
            if m.len() != ws.len() || m.iter().zip(ws.iter()).any(|(a, b)| a.bytes[..] != b[..]) {
                rep.violation(Violation {
                    signature: "slice:format-misdetected:partly-zero-second-word".into(),
                    description: format!("a format-2 payload of 3 words whose second word has zero bytes at positions {:?} (of its first six) is cut into {} words (payload {})", (0..6).filter(|b| mask & (1 << b) != 0).collect::<Vec<_>>(), ws.len(), hex(&p)),
                    replay: json!({"kind": "detector", "payload_hex": hex(&p)}),
                });
            }
        } else if !matches!(got, Ok(Ok(_))) {
            rep.violation(Violation { signature: "slice:detector-row-failed".into(), description: format!("payload {} : {:?}", hex(&p), got.as_ref().map(|r| r.as_ref().map(|v| v.len()))), replay: json!({"kind": "detector", "payload_hex": hex(&p)}) });
        }
    }
    let mut rcases = Vec::new();
    for fmt in [0u8, 2] {
        for ff in [16usize, 17, 25, 40] {
            for bad_stop in [0u8, 1] {
                for lead in 1..=14usize {
                    rcases.push((fmt, ff, lead, false, bad_stop));
                }
                // stave mode: the open readout frame is part of the state
                for lead in 1..=24usize {
                    rcases.push((fmt, ff, lead, true, bad_stop));
                }
            }
        }
    }
    let r3 = par_map(&rcases, |_, (f, k, l, st, bs)| check_reset_in(*f, *k, *l, *st, *bs));
    for ((f, k, l, st, bs), r) in rcases.iter().zip(r3.iter()) {
        if let Some((sig, d)) = r {
            rep.violation(Violation { signature: if *st { format!("{sig}:stave-mode") } else { sig.clone() }, description: format!("{d} [format {f}, {k} x 0xFF, {l} lead-in words, stop bit of the rejected packet {bs}{}]", if *st { ", check all its-stave" } else { "" }), replay: json!({"kind": "reset", "fmt": f, "ff": k, "lead": l, "stave": st, "bad_stop": bs}) });
        }
    }
    for fmt in [0u8, 2] {
        for ff in [16usize, 17, 25, 40] {
            if let Some((sig, d)) = check_reset_history(fmt, ff) {
                rep.violation(Violation { signature: sig, description: format!("{d} [format {fmt}, {ff} x 0xFF; calibration words before and after the rejected payload]"), replay: json!({"kind": "reset-history", "fmt": fmt, "ff": ff}) });
            }
        }
    }
    // the readout-frame views (real CLI): formats x word counts x 0..=15 padding bytes x {frames, frames+data}
    let mut wcases = Vec::new();
    let wcounts: Vec<usize> = if tier.is_thorough() { (2..=40).chain([511, 512, 700]).collect() } else { vec![2, 3, 8, 9, 10, 11, 16] };
    for fmt in [0u8, 2] {
        for &n in &wcounts {
            for ff in 0..=40usize {
                // beyond 15 bytes the payload is rejected: nothing of it is shown, the next packet is
                if ff > 15 && !tier.is_thorough() && n > 3 && n != 16 {
                    continue;
                }
                for data in [false, true] {
                    wcases.push((fmt, n, ff, data));
                }
            }
        }
    }
    let r4 = par_map(&wcases, |_, (f, n, k, d)| check_view(*f, *n, *k, *d));
    for ((f, n, k, d), r) in wcases.iter().zip(r4.iter()) {
        if let Some((sig, dd)) = r {
            rep.violation(Violation { signature: sig.clone(), description: format!("{dd} [format {f}, {n} words, {k} x 0xFF, data view: {d}]"), replay: json!({"kind": "view", "fmt": f, "n": n, "ff": k, "data": d}) });
        }
    }
    rep.cov("view_cases", json!(wcases.len()));
    rep.cov("evaluations", json!(cases.len() + vcases.len() + rcases.len() + wcases.len()));
    rep.cov("distinct_nontrivial", json!(nontrivial));
    rep.cov("exhaustive", json!(true));
    rep.cov("rule", json!("formats {0,2} x word counts {0..=12, 511, 512, 700 (quick) / every count 0..=700 (thorough)} x 0..=40 trailing 0xFF bytes through preprocess_payload and (x 2 modes) through a real LinkValidator with individually recognisable faulty words; all 63 proper subsets of zero bytes among the first six bytes of the second word of a format-2 payload (must not be taken for format 0); reset after the padding error for 16/17/25/40 bytes x stop bit 0/1 of the rejected packet x 14 lead-in states (every prefix of a complete page and of a page that ends with TDT packet_done = 0) x 2 formats; the two readout-frame views through the real CLI for word counts {2,3,8..11,16} (quick) / {2..=40,511,512,700} (thorough) x 0..=15 padding bytes (and 16..=40: the payload is rejected, nothing of it is shown, the next packet is) x 2 formats, every printed row compared with the model's decode. non-trivial = at least one padding byte present"));
    rep.sample(json!({"fmt": 2, "words": 3, "ff": 10, "payload_hex": hex(&build_payload(2, 3, 10))}));
    rep.sample(json!({"fmt": 0, "words": 2, "ff": 16, "expect": "one 'Payload error following RDH', no word examined, FSM reset"}));
    rep.assume("word contents do not imitate the other format's padding (a format-2 payload whose bytes 10..15 are all zero is the separate row of C02/known findings)");
    rep.finish()
}

pub fn replay(v: &serde_json::Value) -> i32 {
    val::init_process();
    let r = &v["replay"];
    let g = |k: &str| r[k].as_u64().unwrap_or(0) as usize;
    let res = match r["kind"].as_str().unwrap() {
        "preprocess" => check_preprocess_x(g("fmt") as u8, g("n"), g("ff"), r["ffw"].as_u64().map(|x| x as usize)),
        "view" => check_view(g("fmt") as u8, g("n"), g("ff"), r["data"].as_bool().unwrap_or(false)),
        "reset-history" => check_reset_history(g("fmt") as u8, g("ff")),
        "validator" => check_validator_x(g("fmt") as u8, g("n"), g("ff"), if r["mode"] == "check sanity its" { Mode::SanityIts } else { Mode::AllIts }, r["ffw"].as_u64().map(|x| x as usize)),
        _ => check_reset_in(g("fmt") as u8, g("ff"), g("lead"), r["stave"].as_bool().unwrap_or(false), g("bad_stop") as u8),
    };
    match res {
        Some((s, d)) => {
            println!("REPLAY: violation reproduced: {s}: {d}");
            1
        }
        None => {
            println!("REPLAY: no violation");
            0
        }
    }
}
