//! Fault catalogue (DESIGN.md section 5, C02): byte-level mutations of conforming streams, one or more per rule of
//! `doc/checks_list.md` / README code family, with the predicate saying where each is applicable.
use crate::val::Mode;
use fp_model::grammar::{PacketT, WKind};
use fp_model::rdh::Rdh;
use fp_model::words;

#[derive(Clone, Copy, Debug, PartialEq, Eq)]
pub enum Scope {
    /// every check mode
    AllModes,
    /// modes with an ITS target
    Its,
    /// running modes (check all ...), any target
    Running,
    /// running modes with an ITS target
    ItsRunning,
}
impl Scope {
    pub fn active(&self, m: Mode) -> bool {
        match self {
            Scope::AllModes => true,
            Scope::Its => m.has_target(),
            Scope::Running => m.running(),
            Scope::ItsRunning => m.running() && m.has_target(),
        }
    }
    pub fn is_running_rule(&self) -> bool {
        matches!(self, Scope::Running | Scope::ItsRunning)
    }
}

#[derive(Clone)]
pub enum Site {
    /// an RDH fault; `applicable(packet, index of the packet within its link, link packets)`
    Rdh { applicable: fn(&PacketT, usize, &[PacketT]) -> bool, apply: fn(&mut Rdh) },
    /// a word fault on words of the listed kinds; `applicable(packet, word index)`
    Word { kinds: &'static [WKind], applicable: fn(&PacketT, usize, &[PacketT], usize) -> bool, apply: fn(&mut [u8; 10], &PacketT) },
    /// more than 15 bytes of 0xFF appended to a format-2 payload
    Padding,
    /// the whole payload is replaced by 16 bytes of 0xFF (nothing but padding, one byte more than allowed)
    PaddingOnly,
    /// the whole HBF after the first gets the orbit of the previous HBF
    SameOrbitHbf,
}

#[derive(Clone)]
pub struct Fault {
    pub name: &'static str,
    /// accepted code families ("PAYLOAD" = the code-less padding message)
    pub families: &'static [&'static str],
    pub scope: Scope,
    pub site: Site,
}

fn any_rdh(_: &PacketT, _: usize, _: &[PacketT]) -> bool {
    true
}
fn not_link_first(_: &PacketT, i: usize, _: &[PacketT]) -> bool {
    i > 0
}
fn page_ge1_data(p: &PacketT, _: usize, _: &[PacketT]) -> bool {
    p.packet.rdh.pages_counter >= 1
}
fn link_idx_ge2(_: &PacketT, i: usize, _: &[PacketT]) -> bool {
    i >= 2
}
/// a data page that starts with a (non-continuation) IHW
fn data_page(p: &PacketT, _: usize, _: &[PacketT]) -> bool {
    p.packet.rdh.stop_bit == 0 && p.words.iter().any(|w| w.kind == WKind::Ihw)
}
fn stop_page(p: &PacketT, _: usize, _: &[PacketT]) -> bool {
    p.packet.rdh.stop_bit == 1
}
fn any_word(_: &PacketT, _: usize, _: &[PacketT], _: usize) -> bool {
    true
}
/// the BC / trigger-type mirror rule applies on page 0 when the TDH is internal or the RDH carries PhT
fn on_page0(p: &PacketT, _: usize, _: &[PacketT], wi: usize) -> bool {
    p.packet.rdh.pages_counter == 0 && (words::Tdh::decode(&p.words[wi].bytes).internal || p.packet.rdh.trigger_type & 0x10 != 0)
}
/// a TDH-after whose predecessor TDH has a BC > 0 (so that BC 0 is a decrease)
fn tdh_after_with_prev_bc(p: &PacketT, _: usize, _: &[PacketT], wi: usize) -> bool {
    p.words[..wi].iter().rev().find(|w| matches!(w.kind, WKind::Tdh | WKind::TdhAfter | WKind::TdhCont)).map_or(false, |w| words::Tdh::decode(&w.bytes).bc > 0)
}
/// a TDH whose predecessor word (in the same payload) is a TDT with packet_done = 1
fn after_tdt_done(p: &PacketT, _: usize, _: &[PacketT], wi: usize) -> bool {
    wi >= 1 && p.words[wi - 1].kind == WKind::Tdt && p.words[wi - 1].bytes[8] & 0x01 != 0
}
/// a CDW that is not the first CDW of its link
fn cdw_not_first(p: &PacketT, li: usize, link: &[PacketT], _wi: usize) -> bool {
    let _ = p;
    link[..li].iter().any(|q| q.words.iter().any(|w| w.kind == WKind::Cdw))
}
/// the packet carries at least one data word with a valid identifier, and it is not the link's first packet
/// (so that an earlier IHW with the full lane set has been seen)
fn has_data_later_packet(p: &PacketT, li: usize, _: &[PacketT], _wi: usize) -> bool {
    li >= 1 && p.words.iter().any(|w| w.kind == WKind::Data && words::is_valid_data_id(w.bytes[9]))
}
/// Bit of the IHW active-lanes field that belongs to a data word identifier.
pub fn lane_bit_of(id: u8) -> u32 {
    if words::is_ib_id(id) {
        words::ib_lane(id) as u32
    } else {
        words::ob_lane(id) as u32
    }
}
fn ib_data(p: &PacketT, _: usize, _: &[PacketT], wi: usize) -> bool {
    words::is_ib_id(p.words[wi].bytes[9])
}
fn ob_data(p: &PacketT, _: usize, _: &[PacketT], wi: usize) -> bool {
    words::is_ob_id(p.words[wi].bytes[9])
}

macro_rules! rdhf {
    ($name:expr, $fam:expr, $scope:expr, $app:expr, $f:expr) => {
        Fault { name: $name, families: $fam, scope: $scope, site: Site::Rdh { applicable: $app, apply: $f } }
    };
}
macro_rules! wordf {
    ($name:expr, $fam:expr, $scope:expr, $kinds:expr, $app:expr, $f:expr) => {
        Fault { name: $name, families: $fam, scope: $scope, site: Site::Word { kinds: $kinds, applicable: $app, apply: $f } }
    };
}

const IHWS: &[WKind] = &[WKind::Ihw, WKind::IhwCont];
const ALL_TDH: &[WKind] = &[WKind::Tdh, WKind::TdhAfter, WKind::TdhCont];

pub fn catalogue() -> Vec<Fault> {
    use Scope::*;
    vec![
        // ---- RDH sanity
        rdhf!("rdh.header_size=0x41", &["E10"], AllModes, any_rdh, |r| r.header_size = 0x41),
        rdhf!("rdh.header_id other version", &["E10"], AllModes, not_link_first, |r| r.header_id = 13 - r.header_id.min(13)),
        rdhf!("rdh.fee reserved bit 6", &["E10"], AllModes, any_rdh, |r| r.fee_id |= 1 << 6),
        rdhf!("rdh.fee reserved bit 15", &["E10"], AllModes, any_rdh, |r| r.fee_id |= 1 << 15),
        rdhf!("rdh.stave=48", &["E10"], AllModes, any_rdh, |r| r.fee_id = (r.fee_id & !0x3F) | 48),
        rdhf!("rdh.layer=7", &["E10"], AllModes, any_rdh, |r| r.fee_id |= 0x7000),
        rdhf!("rdh.priority=1", &["E10"], AllModes, any_rdh, |r| r.priority = 1),
        rdhf!("rdh.rdh0_reserved", &["E10"], AllModes, any_rdh, |r| r.rdh0_reserved = 0x0100),
        rdhf!("rdh.system_id=0x21", &["E10"], Its, any_rdh, |r| r.system_id = 0x21),
        rdhf!("rdh.bc=0xdec", &["E10"], AllModes, any_rdh, |r| r.bc = 0xdec),
        rdhf!("rdh.rdh1_reserved", &["E10"], AllModes, any_rdh, |r| r.rdh1_reserved = 1),
        rdhf!("rdh.stop_bit=2", &["E10"], AllModes, any_rdh, |r| r.stop_bit = 2),
        rdhf!("rdh.trigger spare bit 15", &["E10"], AllModes, any_rdh, |r| r.trigger_type |= 1 << 15),
        rdhf!("rdh.trigger spare bit 26", &["E10"], AllModes, any_rdh, |r| r.trigger_type |= 1 << 26),
        rdhf!("rdh.trigger=0", &["E10"], AllModes, any_rdh, |r| r.trigger_type = 0),
        rdhf!("rdh.rdh2_reserved", &["E10"], AllModes, any_rdh, |r| r.rdh2_reserved = 0x80),
        rdhf!("rdh.rdh3_reserved", &["E10"], AllModes, any_rdh, |r| r.rdh3_reserved = 1),
        rdhf!("rdh.detector field bit 12", &["E10"], AllModes, any_rdh, |r| r.detector_field |= 1 << 12),
        rdhf!("rdh.detector field bit 23", &["E10"], AllModes, any_rdh, |r| r.detector_field |= 1 << 23),
        rdhf!("rdh.dw=2", &["E10"], AllModes, any_rdh, |r| r.dw = 2),
        rdhf!("rdh.data_format=3", &["E10"], AllModes, any_rdh, |r| r.data_format = 3),
        // ---- RDH running
        rdhf!("running.page counter +1", &["E11"], Running, any_rdh, |r| r.pages_counter += 1),
        rdhf!("running.page counter +4", &["E11"], Running, any_rdh, |r| r.pages_counter += 4),
        rdhf!("running.orbit changes inside HBF", &["E11"], Running, page_ge1_data, |r| r.orbit ^= 0x100),
        rdhf!("running.trigger changes inside HBF", &["E11"], Running, page_ge1_data, |r| r.trigger_type ^= 0x4),
        rdhf!("running.fee changes inside HBF", &["E11"], Running, page_ge1_data, |r| r.fee_id = (r.fee_id & !0x3F) | (((r.fee_id & 0x3F) + 1) % 48)),
        Fault { name: "running.same orbit after stop", families: &["E11"], scope: Running, site: Site::SameOrbitHbf },
        // ---- ITS payload sanity
        wordf!("ihw.id=0xE1", &["E30", "E99"], Its, IHWS, any_word, |w, _| w[9] = 0xE1),
        wordf!("ihw.reserved bit 28", &["E30"], Its, IHWS, any_word, |w, _| w[3] |= 0x10),
        wordf!("ihw.reserved bit 71", &["E30"], Its, IHWS, any_word, |w, _| w[8] |= 0x80),
        wordf!("tdh.id=0xE9 (single successor)", &["E40"], Its, &[WKind::Tdh, WKind::TdhCont], any_word, |w, _| w[9] = 0xE9),
        wordf!("tdh.id=0xE9 (choice state)", &["E99"], Its, &[WKind::TdhAfter], any_word, |w, _| w[9] = 0xE9),
        wordf!("tdh.reserved bit 15", &["E40"], Its, ALL_TDH, any_word, |w, _| w[1] |= 0x80),
        wordf!("tdh.reserved bit 28", &["E40"], Its, ALL_TDH, any_word, |w, _| w[3] |= 0x10),
        wordf!("tdh.reserved bit 64", &["E40"], Its, ALL_TDH, any_word, |w, _| w[8] |= 0x01),
        wordf!("tdh.trigger type and internal both 0", &["E40"], Its, ALL_TDH, any_word, |w, _| {
            w[0] = 0;
            w[1] &= 0xE0;
        }),
        wordf!("tdt.id=0xF1", &["E99"], Its, &[WKind::Tdt], any_word, |w, _| w[9] = 0xF1),
        wordf!("tdt.reserved bit 56", &["E50"], Its, &[WKind::Tdt], any_word, |w, _| w[7] |= 0x01),
        wordf!("tdt.reserved bit 66", &["E50"], Its, &[WKind::Tdt], any_word, |w, _| w[8] |= 0x04),
        wordf!("tdt.reserved bit 68", &["E50"], Its, &[WKind::Tdt], any_word, |w, _| w[8] |= 0x10),
        wordf!("ddw0.id=0xE5", &["E99"], Its, &[WKind::Ddw0], any_word, |w, _| w[9] = 0xE5),
        wordf!("ddw0.reserved bit 56", &["E60"], Its, &[WKind::Ddw0], any_word, |w, _| w[7] |= 0x01),
        wordf!("ddw0.reserved bit 64", &["E60"], Its, &[WKind::Ddw0], any_word, |w, _| w[8] |= 0x01),
        wordf!("ddw0.reserved bit 66", &["E60"], Its, &[WKind::Ddw0], any_word, |w, _| w[8] |= 0x04),
        wordf!("ddw0.index=1", &["E60"], Its, &[WKind::Ddw0], any_word, |w, _| w[8] |= 0x10),
        wordf!("data.id=0x29", &["E70", "E99"], Its, &[WKind::Data], any_word, |w, _| w[9] = 0x29),
        wordf!("data.id=0x3D", &["E70", "E99"], Its, &[WKind::Data], any_word, |w, _| w[9] = 0x3D),
        wordf!("data.id=0x5F", &["E70", "E99"], Its, &[WKind::Data], any_word, |w, _| w[9] = 0x5F),
        Fault { name: "payload.padding 16 bytes", families: &["PAYLOAD"], scope: Its, site: Site::Padding },
        Fault { name: "payload.nothing but 16 bytes of padding", families: &["PAYLOAD"], scope: Its, site: Site::PaddingOnly },
        // ---- ITS running
        rdhf!("its.stop bit on a data page (IHW)", &["E12"], ItsRunning, data_page, |r| r.stop_bit = 1),
        rdhf!("its.stop bit cleared on the stop page (DDW0)", &["E110"], ItsRunning, stop_page, |r| r.stop_bit = 0),
        rdhf!("its.page counter 0 on the stop page (DDW0)", &["E111"], ItsRunning, stop_page, |r| r.pages_counter = 0),
        wordf!("tdh.continuation set after IHW", &["E42"], ItsRunning, &[WKind::Tdh], any_word, |w, _| w[1] |= 0x40),
        // documented: "TDH following a TDT with packet_done == 1: TDH continuation == 0" (the common multi-trigger page)
        wordf!("tdh.continuation set after TDT(done)", &["E42"], ItsRunning, &[WKind::TdhAfter], after_tdt_done, |w, _| w[1] |= 0x40),
        wordf!("tdh.orbit != RDH orbit", &["E444"], ItsRunning, &[WKind::Tdh], any_word, |w, _| w[4] ^= 0x01),
        wordf!("tdh.bc != RDH bc on page 0", &["E445"], ItsRunning, &[WKind::Tdh], on_page0, |w, _| w[2] ^= 0x04),
        wordf!("tdh.trigger type != RDH trigger on page 0", &["E44"], ItsRunning, &[WKind::Tdh], on_page0, |w, _| w[1] ^= 0x08),
        wordf!("tdh.bc decreases", &["E440"], ItsRunning, &[WKind::TdhAfter], tdh_after_with_prev_bc, |w, _| {
            w[2] = 0;
            w[3] &= 0xF0;
        }),
        wordf!("tdh.continuation clear on continuation page", &["E41"], ItsRunning, &[WKind::TdhCont], any_word, |w, _| w[1] &= !0x40),
        wordf!("tdh.continuation bc differs", &["E441"], ItsRunning, &[WKind::TdhCont], any_word, |w, _| w[2] ^= 0x02),
        wordf!("tdh.continuation orbit differs", &["E442"], ItsRunning, &[WKind::TdhCont], any_word, |w, _| w[5] ^= 0x01),
        wordf!("tdh.continuation trigger type differs", &["E443"], ItsRunning, &[WKind::TdhCont], any_word, |w, _| w[0] ^= 0x20),
        // the packet's own IHW switches off the lane of the packet's first data word (earlier IHWs had it on): the
        // data words of that lane are then from an inactive lane; reported at the first of them
        wordf!("ihw.lane of the first data word switched off", &["E72", "E71"], ItsRunning, IHWS, has_data_later_packet, |w, p| {
            let id = p.words.iter().find(|x| x.kind == WKind::Data && words::is_valid_data_id(x.bytes[9])).map(|x| x.bytes[9]).unwrap();
            let bit = lane_bit_of(id);
            let mut lanes = u32::from_le_bytes([w[0], w[1], w[2], w[3]]);
            lanes &= !(1 << bit);
            w[0..4].copy_from_slice(&lanes.to_le_bytes());
        }),
        wordf!("data.IB lane not active", &["E72"], ItsRunning, &[WKind::Data], ib_data, |w, _| w[9] = 0x27),
        wordf!("data.OB lane not active", &["E71"], ItsRunning, &[WKind::Data], ob_data, |w, p| {
            // a lane of the other connector pair is never active for this FEE
            w[9] = if p.words.iter().any(|x| x.kind == WKind::Data && (x.bytes[9] & 0x10) != 0) { 0x41 } else { 0x51 };
        }),
        wordf!("data.OB connector input 7", &["E73"], ItsRunning, &[WKind::Data], ob_data, |w, _| w[9] |= 0x07),
        wordf!("cdw.new user field with index != 0", &["E81"], ItsRunning, &[WKind::Cdw], cdw_not_first, |w, _| {
            w[0] ^= 0xFF;
            w[6] = 1;
        }),
    ]
}

/// Codes that belong to purely stateful (running) rules: must never appear in `check sanity` runs.
pub const RUNNING_CODES: &[&str] = &["E11", "E12", "E110", "E111", "E41", "E42", "E440", "E441", "E442", "E443", "E444", "E445", "E44", "E71", "E72", "E73", "E81", "E45"];
