//! C20 — user-configured checks are enforced exactly.
//!
//! (enum, CLI) conforming streams with known counts x the five custom-check keys at {truth-1, truth, truth+1} over
//! all 32 key subsets x {no file, generated all-default file, keys commented out}: a message with the documented
//! code iff observed != configured; "no file == default file" on complete outputs.
//! (xs) trigger period: product of the real TDH period check (inside a real `CdpRunningValidator`) with the model
//! over BC in {0, 1, P-1, P, 3563-P+1, 3563} x internal 0/1 for P in {1, 891, 3563}, to the fixpoint.
use crate::c02::split_cli_errors;
use crate::val::{self, CfgKey, Mode};
use crate::xs::{self, StepOut, Sys, Viol};
use fp_harness::cli::{Run, Scratch};
use fp_harness::par::par_map;
use fp_harness::{Reporter, Tier, Violation};
use fp_model::alpide;
use fp_model::grammar::{self, Ev, HbfShape, LinkCfg, PageShape};
use fp_model::rdh::Rdh;
use fp_model::rules;
use fp_model::util::hex;
use fp_model::words;
use serde_json::json;
use std::collections::BTreeSet;

const KEYS: [&str; 5] = ["cdps", "triggers_pht", "rdh_version", "chip_count_ob", "chip_orders_ob"];

struct Truth {
    bytes: Vec<u8>,
    cdps: u32,
    pht: u32,
    version: u8,
}

/// An outer-layer stave stream with ALPIDE frames (7 chips per lane, ids 0..6 / 8..14), some HBFs with PhT.
fn stream() -> Truth {
    stream_of(false)
}

/// The same shape on an outer-layer (layer 5) or a middle-layer (layer 3) stave: the two OB keys apply to both.
fn stream_of(middle: bool) -> Truth {
    let mut c = if middle { LinkCfg::ml(3, 12, false) } else { LinkCfg::ol(3, 12, false) };
    c.triggers = vec![grammar::TRG_SOC_HB_TF, grammar::TRG_PHT, grammar::TRG_HB, grammar::TRG_PHT];
    c.bc_step = 0x40;
    let ha = alpide::hit_alphabet();
    let frame = |bc: u8| alpide::conforming_frame(&c.lanes, bc, &[ha[0], ha[2]], false);
    let page = |evs: Vec<Ev>| PageShape { cont: None, evs };
    let hbfs: Vec<HbfShape> = (0..4)
        .map(|i| HbfShape {
            pages: if i % 2 == 0 {
                vec![page(vec![Ev::Data { words: frame(0x10 + i as u8), cdw: false, done: true }])]
            } else {
                vec![page(vec![Ev::NoData, Ev::Data { words: frame(0x20 + i as u8), cdw: false, done: true }]), page(vec![Ev::NoData])]
            },
        })
        .collect();
    let pk = grammar::render_link(&c, &hbfs);
    let pht = pk.iter().filter(|p| p.packet.rdh.trigger_type & 0x10 != 0).count() as u32;
    Truth { cdps: pk.len() as u32, pht, version: 7, bytes: grammar::contiguous(&[pk]).bytes() }
}

fn toml_for(subset: u32, wrong: Option<(usize, i64)>, t: &Truth) -> String {
    let mut s = String::from("# custom checks\n");
    for (i, k) in KEYS.iter().enumerate() {
        if subset & (1 << i) == 0 {
            s.push_str(&format!("#{k} = None # (Uncomment and set to enable)\n"));
            continue;
        }
        // (index 99: every configured key is wrong at the same time)
        let delta = match wrong {
            Some((wi, d)) if wi == i || wi == 99 => d,
            _ => 0,
        };
        match *k {
            "cdps" => s.push_str(&format!("cdps = {}\n", t.cdps as i64 + delta)),
            "triggers_pht" => s.push_str(&format!("triggers_pht = {}\n", t.pht as i64 + delta)),
            "rdh_version" => s.push_str(&format!("rdh_version = {}\n", t.version as i64 + delta)),
            "chip_count_ob" => s.push_str(&format!("chip_count_ob = {}\n", 7 + delta)),
            _ => {
                if delta == 0 {
                    s.push_str("chip_orders_ob = [[0, 1, 2, 3, 4, 5, 6], [8, 9, 10, 11, 12, 13, 14]]\n");
                } else if delta < 0 {
                    s.push_str("chip_orders_ob = [[0, 1, 2, 3, 4, 6, 5], [8, 9, 10, 11, 12, 13, 14]]\n");
                } else if delta == 2 {
                    s.push_str("chip_orders_ob = [[0, 1, 2, 3, 4, 5], [8, 9, 10, 11, 12, 13]]\n");
                } else if delta == 3 {
                    s.push_str("chip_orders_ob = [[0, 1, 2, 3, 4, 5, 6, 7], [8, 9, 10, 11, 12, 13, 14, 15]]\n");
                } else {
                    s.push_str("chip_orders_ob = [[1, 2, 3, 4, 5, 6, 7]]\n");
                }
            }
        }
    }
    s
}

fn code_of_key(i: usize) -> &'static str {
    ["E9001", "E9002", "E10", "E9004", "E9005"][i]
}

fn run_cli(t: &Truth, toml: Option<&str>, mode: &[&str]) -> Result<(BTreeSet<String>, String, Option<i32>), String> {
    let scratch = Scratch::new("c20");
    let mut a = vec![scratch.file("in.raw", &t.bytes).display().to_string()];
    a.extend(mode.iter().map(|s| s.to_string()));
    if let Some(tx) = toml {
        a.extend(["-c".to_string(), scratch.file("checks.toml", tx.as_bytes()).display().to_string()]);
    }
    a.extend(["-E".to_string(), "9".to_string()]);
    let r = Run::new(&a).cwd(&scratch.path).run();
    if r.crashed() {
        return Err(format!("crash: signal {:?}; {}", r.signal, r.stderr_str().lines().find(|l| l.contains("panicked")).unwrap_or("")));
    }
    let err = r.stderr_str();
    let mut codes = BTreeSet::new();
    for m in split_cli_errors(&err) {
        // custom statistics errors have no offset: collect every [Ennn] tag
        let mut rest = m.as_str();
        while let Some(i) = rest.find("[E") {
            if let Some(j) = rest[i..].find(']') {
                codes.insert(rest[i + 1..i + j].to_string());
                rest = &rest[i + j..];
            } else {
                break;
            }
        }
    }
    // normalised complete output for the equivalence check: stderr messages + report without the timing line
    let out = crate::c02::strip_ansi(&r.stdout_str()).lines().filter(|l| !l.contains("Processed in")).collect::<Vec<_>>().join("\n");
    Ok((codes, format!("{}\n----\n{}", crate::c02::strip_ansi(&err), out), r.status))
}

// ------------------------------------------------------------------------------- trigger period product

#[derive(Clone, Copy, Debug, PartialEq, Eq, Hash)]
struct TSym {
    bc: u16,
    internal: bool,
    /// false: a no-data TDH; true: a data event whose readout frame is split over two pages (TDT packet_done = 0,
    /// next page IHW + TDH with continuation = 1 and the same BC): the continuation TDH is not a new trigger
    split: bool,
}

struct PeriodProduct {
    period: u16,
    bcs: Vec<u16>,
}

impl Sys for PeriodProduct {
    type Sym = TSym;
    type Key = (Option<u16>, Vec<u8>);
    type Obs = bool;
    fn enabled(&self, _h: &[TSym]) -> Vec<TSym> {
        self.bcs.iter().flat_map(|b| [(false, false), (true, false), (true, true), (false, true)].into_iter().map(move |(i, sp)| TSym { bc: *b, internal: i, split: sp })).collect()
    }
    fn initial_key(&self) -> Self::Key {
        (None, vec![])
    }
    fn run(&self, hist: &[TSym]) -> Result<StepOut<Self::Key, bool>, Viol> {
        let cfg = val::cfg(&CfgKey { mode: Some(Mode::AllStave), trigger_period: Some(self.period), ..Default::default() });
        let mk = |p: String| Viol { signature: format!("panic:{}", val::panic_site(&p)), description: p };
        let mut st = val::CdpStepper::new(cfg);
        let r = Rdh::base();
        st.set_rdh(&r.encode(), 0).map_err(mk)?;
        st.word(&words::ihw(0x7)).map_err(mk)?;
        let mut last_internal: Option<u16> = None;
        let mut e45 = false;
        let mut page_pos = 0u64;
        let mut page_no = 0u16;
        let mut words_in_page = 1u64; // the IHW
        let frame = fp_model::alpide::conforming_frame(&[0x20, 0x21, 0x22], 0x12, &[], true);
        for (i, s) in hist.iter().enumerate() {
            let last = i + 1 == hist.len();
            let mut feed = |st: &mut val::CdpStepper, w: &[u8], words_in_page: &mut u64, page_pos: u64| -> Result<(bool, bool), Viol> {
                let msgs = val::error_texts(&st.word(w).map_err(mk)?);
                let off = page_pos + 64 + 10 * *words_in_page;
                *words_in_page += 1;
                let mut here = false;
                let mut elsewhere = false;
                for m in &msgs {
                    if let Some((o, codes)) = rules::parse_error_message(m) {
                        if codes.iter().any(|c| c == "E45") {
                            if o == off {
                                here = true;
                            } else {
                                elsewhere = true;
                            }
                        }
                    }
                }
                Ok((here, elsewhere))
            };
            let tdh = words::Tdh { trigger_type: 1, internal: s.internal, no_data: !s.split, continuation: false, bc: s.bc, orbit: r.orbit };
            let (here, elsewhere) = feed(&mut st, &tdh.encode(), &mut words_in_page, page_pos)?;
            if elsewhere {
                return Err(Viol { signature: "period:E45-not-at-the-TDH".into(), description: format!("E45 reported away from the TDH that caused it [TDH history {:?}]", hist) });
            }
            e45 = here;
            let want = match (s.internal, last_internal) {
                (true, Some(p)) => (s.bc as i32 - p as i32).rem_euclid(3564) as u16 != self.period,
                _ => false,
            };
            if last && e45 != want {
                return Err(Viol {
                    signature: format!("period:E45:{}", if want { "missed" } else { "false-alarm" }),
                    description: format!("period {}: internal-trigger BCs {:?} then {:?}: distance mod 3564 differs from the period = {want}, E45 reported = {e45} [TDH history {:?}]", self.period, last_internal, s, hist),
                });
            }
            if s.internal {
                last_internal = Some(s.bc);
            }
            if s.split {
                // lane 0 on this page, TDT packet_done = 0, next page: IHW, TDH continuation, lanes 1 and 2, TDT done
                let mut spurious = false;
                let r0 = feed(&mut st, &frame[0], &mut words_in_page, page_pos)?;
                let r1 = feed(&mut st, &words::Tdt::done(false), &mut words_in_page, page_pos)?;
                spurious |= r0.0 | r0.1 | r1.0 | r1.1;
                page_no += 1;
                page_pos += 0x2000;
                let mut r2 = r.clone();
                r2.pages_counter = page_no;
                st.set_rdh(&r2.encode(), page_pos).map_err(mk)?;
                words_in_page = 0;
                let ihw = feed(&mut st, &words::ihw(0x7), &mut words_in_page, page_pos)?;
                let cont = words::Tdh { continuation: true, no_data: false, ..tdh };
                let c = feed(&mut st, &cont.encode(), &mut words_in_page, page_pos)?;
                let d1 = feed(&mut st, &frame[1], &mut words_in_page, page_pos)?;
                let d2 = feed(&mut st, &frame[2], &mut words_in_page, page_pos)?;
                let t = feed(&mut st, &words::Tdt::done(true), &mut words_in_page, page_pos)?;
                for x in [ihw, c, d1, d2, t] {
                    spurious |= x.0 | x.1;
                }
                if last && spurious {
                    return Err(Viol {
                        signature: "period:E45:false-alarm:continuation".into(),
                        description: format!("period {}: E45 reported inside a readout frame continued over two pages (the continuation TDH repeats the BC of its trigger, it is not a new trigger) [TDH history {:?}]", self.period, hist),
                    });
                }
            }
        }
        let fp = st.v.verif_fingerprint();
        Ok(StepOut { key: (last_internal, fp), obs: e45 })
    }
}

/// What an [E45] message says about the two TDHs it compares: every sequence of three no-data internal TDHs over
/// (orbit, BC) in {o, o+1} x {0, 100, 3563}, one per page, period 100. Each message must quote the orbit_BC of the TDH
/// at its own offset as "Current" and that of the internal TDH before it as "Previous".
fn period_message_cases() -> (u64, u64, Option<(String, String)>) {
    let cfg = val::cfg(&CfgKey { mode: Some(Mode::AllStave), trigger_period: Some(100), ..Default::default() });
    let base = Rdh::base();
    let alphabet: Vec<(u32, u16)> = [0u32, 1].iter().flat_map(|o| [0u16, 100, 3563].into_iter().map(move |b| (base.orbit + o, b))).collect();
    let quote = |m: &str, key: &str| -> Option<(u64, u64)> {
        let i = m.find(key)?;
        let rest = m[i + key.len()..].lines().next()?.trim();
        let (o, b) = rest.split_once('_')?;
        Some((o.trim().parse().ok()?, b.trim().parse().ok()?))
    };
    let mut n = 0u64;
    let mut judged = 0u64;
    for a in &alphabet {
        for b in &alphabet {
            for c in &alphabet {
                let seq = [*a, *b, *c];
                let mut st = val::CdpStepper::new(cfg);
                let mut prev: Option<(u32, u16)> = None;
                for (i, (orbit, bc)) in seq.iter().enumerate() {
                    let mut r = base.clone();
                    r.pages_counter = i as u16;
                    let pos = 0x1000 * i as u64;
                    if st.set_rdh(&r.encode(), pos).is_err() {
                        return (n, judged, Some(("panic".into(), "set_rdh panicked".into())));
                    }
                    let _ = st.word(&words::ihw(0x7));
                    let tdh = words::Tdh { trigger_type: (r.trigger_type & 0xFFF) as u16, internal: true, no_data: true, continuation: false, bc: *bc, orbit: *orbit };
                    let msgs = match st.word(&tdh.encode()) {
                        Ok(m) => val::error_texts(&m),
                        Err(p) => return (n, judged, Some(("panic".into(), p))),
                    };
                    n += 1;
                    for m in msgs.iter().filter(|m| m.contains("[E45]")) {
                        judged += 1;
                        let cur = quote(m, "Current  TDH Orbit_BC:").or_else(|| quote(m, "Current TDH Orbit_BC:"));
                        let prv = quote(m, "Previous TDH Orbit_BC:");
                        let want_cur = Some((*orbit as u64, *bc as u64));
                        let want_prv = prev.map(|(o, b)| (o as u64, b as u64));
                        if cur != want_cur || prv != want_prv {
                            return (n, judged, Some(("period:E45:message-quotes-other-values".into(), format!("TDHs {:?}: the message at the third / current TDH quotes previous {:?} and current {:?}, the words hold previous {:?} and current {:?}: {}", seq, prv, cur, want_prv, want_cur, m.replace('\n', " | ")))));
                        }
                    }
                    prev = Some((*orbit, *bc));
                }
            }
        }
    }
    (n, judged, None)
}

pub fn run(tier: Tier) -> i32 {
    val::init_process();
    let mut rep = Reporter::new("C20", tier, "model_checking");
    {
        let (n, judged, bad) = period_message_cases();
        rep.cov("period_message_tdhs", json!(n));
        rep.cov("period_messages_judged", json!(judged));
        if judged == 0 && bad.is_none() {
            rep.machinery_error("no [E45] message was produced by the period-message sequences (vacuous)".into());
        }
        if let Some((sig, d)) = bad {
            rep.violation(Violation { signature: sig, description: d, replay: json!({"kind": "period-message"}) });
        }
    }
    let t = stream();
    let mode = ["check", "all", "its-stave"];
    // baseline: no file
    let base = match run_cli(&t, None, &mode) {
        Ok(b) => b,
        Err(e) => {
            rep.machinery_error(format!("baseline run failed: {e}"));
            return rep.finish();
        }
    };
    if !base.0.is_empty() || base.2 != Some(0) {
        rep.machinery_error(format!("the C20 stream is not clean without custom checks: {:?} exit {:?}", base.0, base.2));
    }
    // ---- subsets x values
    let mut cases: Vec<(u32, Option<(usize, i64)>)> = Vec::new();
    for subset in 0..32u32 {
        cases.push((subset, None));
        for k in 0..5 {
            if subset & (1 << k) != 0 {
                cases.push((subset, Some((k, -1))));
                cases.push((subset, Some((k, 1))));
                if k == 4 {
                    // configured orders that are strict prefixes / extensions of the observed chip lists
                    cases.push((subset, Some((k, 2))));
                    cases.push((subset, Some((k, 3))));
                }
            }
        }
        // every key of the subset wrong at once: every failing check is reported, not only the first
        if subset.count_ones() >= 2 {
            cases.push((subset, Some((99, -1))));
            cases.push((subset, Some((99, 1))));
        }
    }
    let res = par_map(&cases, |_, (subset, wrong)| {
        let toml = toml_for(*subset, *wrong, &t);
        (run_cli(&t, Some(&toml), &mode), toml)
    });
    let custom_codes: BTreeSet<&str> = ["E9001", "E9002", "E10", "E9004", "E9005"].into_iter().collect();
    for ((subset, wrong), (r, toml)) in cases.iter().zip(res.iter()) {
        match r {
            Err(e) => rep.violation(Violation { signature: "custom:crash".into(), description: format!("{e} [toml: {}]", toml.replace('\n', "; ")), replay: json!({"toml": toml}) }),
            Ok((codes, full, status)) => {
                let got: BTreeSet<&str> = codes.iter().map(|s| s.as_str()).filter(|c| custom_codes.contains(c)).collect();
                let want: BTreeSet<&str> = match wrong {
                    // all configured keys wrong; the chip order of a lane is only judged when its chip count is right
                    Some((99, _)) => (0..5).filter(|k| subset & (1 << k) != 0 && !(*k == 4 && subset & (1 << 3) != 0)).map(code_of_key).collect(),
                    Some((k, _)) => [code_of_key(*k)].into_iter().collect(),
                    None => BTreeSet::new(),
                };
                if got != want {
                    let kind = if want.is_subset(&got) { format!("false-alarm:{}", got.difference(&want).next().unwrap()) } else { format!("missed:{}", want.difference(&got).next().unwrap()) };
                    rep.violation(Violation {
                        signature: format!("custom:{kind}"),
                        description: format!("configured keys {:?}{}: codes {:?}, expected {:?}", KEYS.iter().enumerate().filter(|(i, _)| subset & (1 << i) != 0).map(|(_, k)| *k).collect::<Vec<_>>(), wrong.map(|(k, d)| format!(" with {} {}1", if k == 99 { "every key" } else { KEYS[k] }, if d < 0 { "-" } else { "+" })).unwrap_or_default(), got, want),
                        replay: json!({"toml": toml, "input_hex": hex(&t.bytes)}),
                    });
                }
                let want_status = if want.is_empty() { Some(0) } else { Some(9) };
                if *status != want_status {
                    rep.violation(Violation { signature: "custom:exit-status".into(), description: format!("exit {:?}, expected {:?} [toml: {}]", status, want_status, toml.replace('\n', "; ")), replay: json!({"toml": toml}) });
                }
                // subset 0 (every key commented out) == no file at all
                if *subset == 0 && *full != base.1 {
                    rep.violation(Violation { signature: "custom:default-file-changes-output".into(), description: "a file with every key commented out changes the output compared with no file".into(), replay: json!({"toml": toml}) });
                }
            }
        }
    }
    // ---- the keys that do not need stave mode (packet count, PhT count, RDH version) in the other modes in which the
    //      tool evaluates a custom-checks file: the three other check modes, and filtered writing to a file (no
    //      analysis runs there: the packet count comes from the reader; the RDH version is not judged in that mode)
    {
        let modes: Vec<(&str, Vec<String>, usize)> = vec![
            ("check-sanity", vec!["check".into(), "sanity".into()], 3),
            ("check-all", vec!["check".into(), "all".into()], 3),
            ("check-all-its", vec!["check".into(), "all".into(), "its".into()], 3),
            ("filter-to-file", vec!["--filter-link".into(), "3".into(), "-o".into(), "out.raw".into()], 2),
        ];
        let mut jobs: Vec<(usize, u32, Option<(usize, i64)>)> = Vec::new();
        for (mi, (_, _, nkeys)) in modes.iter().enumerate() {
            for subset in 1..(1u32 << nkeys) {
                jobs.push((mi, subset, None));
                for k in 0..*nkeys {
                    if subset & (1 << k) != 0 {
                        jobs.push((mi, subset, Some((k, -1))));
                        jobs.push((mi, subset, Some((k, 1))));
                    }
                }
            }
        }
        let res = par_map(&jobs, |_, (mi, subset, wrong)| {
            let toml = toml_for(*subset, *wrong, &t);
            let m: Vec<&str> = modes[*mi].1.iter().map(|s| s.as_str()).collect();
            (run_cli(&t, Some(&toml), &m), toml)
        });
        for ((mi, subset, wrong), (r, toml)) in jobs.iter().zip(res.iter()) {
            let tag = modes[*mi].0;
            match r {
                Err(e) => rep.violation(Violation { signature: format!("custom:{tag}:crash"), description: format!("{e} [toml: {}]", toml.replace('\n', "; ")), replay: json!({"toml": toml, "mode": tag}) }),
                Ok((codes, _, status)) => {
                    let got: BTreeSet<&str> = codes.iter().map(|s| s.as_str()).filter(|c| ["E9001", "E9002", "E10"].contains(c)).collect();
                    let want: BTreeSet<&str> = match wrong {
                        Some((k, _)) => [code_of_key(*k)].into_iter().collect(),
                        None => BTreeSet::new(),
                    };
                    if got != want {
                        let kind = if want.is_subset(&got) { format!("false-alarm:{}", got.difference(&want).next().unwrap()) } else { format!("missed:{}", want.difference(&got).next().unwrap()) };
                        rep.violation(Violation {
                            signature: format!("custom:{tag}:{kind}"),
                            description: format!("mode `{}`, configured keys {:?}{}: codes {:?}, expected {:?}", modes[*mi].1.join(" "), KEYS.iter().enumerate().filter(|(i, _)| subset & (1 << i) != 0).map(|(_, k)| *k).collect::<Vec<_>>(), wrong.map(|(k, d)| format!(" with {} {}1", KEYS[k], if d < 0 { "-" } else { "+" })).unwrap_or_default(), got, want),
                            replay: json!({"toml": toml, "mode": tag, "input_hex": hex(&t.bytes)}),
                        });
                    } else {
                        let want_status = if want.is_empty() { Some(0) } else { Some(9) };
                        if *status != want_status {
                            rep.violation(Violation { signature: format!("custom:{tag}:exit-status"), description: format!("exit {:?}, expected {:?} [toml: {}]", status, want_status, toml.replace('\n', "; ")), replay: json!({"toml": toml, "mode": tag}) });
                        }
                    }
                }
            }
        }
        rep.cov("custom_keys_in_other_modes_cases", json!(jobs.len()));
    }
    // ---- the two outer-barrel keys on a middle-layer stave (the keys cover middle and outer layers alike)
    {
        let tm = stream_of(true);
        let mut mcases: Vec<(u32, Option<(usize, i64)>)> = Vec::new();
        for subset in [0b01000u32, 0b10000, 0b11000] {
            mcases.push((subset, None));
            for k in 3..5 {
                if subset & (1 << k) != 0 {
                    mcases.push((subset, Some((k, -1))));
                    mcases.push((subset, Some((k, 1))));
                }
            }
        }
        let mres = par_map(&mcases, |_, (subset, wrong)| {
            let toml = toml_for(*subset, *wrong, &tm);
            (run_cli(&tm, Some(&toml), &mode), toml)
        });
        for ((subset, wrong), (r, toml)) in mcases.iter().zip(mres.iter()) {
            match r {
                Err(e) => rep.violation(Violation { signature: "custom:crash".into(), description: format!("{e} [middle-layer stave; toml: {}]", toml.replace('\n', "; ")), replay: json!({"toml": toml}) }),
                Ok((codes, _, status)) => {
                    let got: BTreeSet<&str> = codes.iter().map(|s| s.as_str()).filter(|c| custom_codes.contains(c)).collect();
                    let want: BTreeSet<&str> = wrong.map(|(k, _)| code_of_key(k)).into_iter().collect();
                    if got != want || *status != if want.is_empty() { Some(0) } else { Some(9) } {
                        let kind = if want.is_subset(&got) && got != want { format!("false-alarm:{}", got.difference(&want).next().unwrap()) } else if got != want { format!("missed:{}", want.difference(&got).next().unwrap()) } else { "exit-status".to_string() };
                        rep.violation(Violation {
                            signature: format!("custom:middle-layer:{kind}"),
                            description: format!("middle-layer stave, configured keys {:?}{}: codes {:?}, expected {:?}, exit {:?}", KEYS.iter().enumerate().filter(|(i, _)| subset & (1 << i) != 0).map(|(_, k)| *k).collect::<Vec<_>>(), wrong.map(|(k, d)| format!(" with {} {}1", KEYS[k], if d < 0 { "-" } else { "+" })).unwrap_or_default(), got, want, status),
                            replay: json!({"toml": toml, "input_hex": hex(&tm.bytes)}),
                        });
                    }
                }
            }
        }
    }
    // ---- the same configuration written otherwise: trailing comments, the generated template with keys uncommented
    //      (its hint left on the line), other key order, CRLF line ends, blank lines, spaces, integer forms; and files
    //      with a value its key cannot hold next to a wrong `cdps`. Oracle: a file the tool accepts means what the plain
    //      file means (same custom codes, same exit status); a file it refuses is refused before anything is analysed -
    //      never "accepted and ignored"
    {
        let wrong_cdps = t.cdps as i64 + 1;
        let template = {
            let scratch = Scratch::new("c20t");
            let _ = Run::new(&["--generate-checks-toml".to_string()]).cwd(&scratch.path).run();
            std::fs::read_to_string(scratch.join("custom_checks.toml")).unwrap_or_default()
        };
        let from_template = |sets: &[(&str, String)]| -> String {
            template
                .lines()
                .map(|l| {
                    for (k, v) in sets {
                        if let Some(rest) = l.strip_prefix(&format!("#{k} = ")) {
                            // "#cdps = None [ u32 ] # (Uncomment and set to enable)" -> "cdps = 11 # (Uncomment and set to enable)"
                            let hint = rest.find('#').map(|i| &rest[i..]).unwrap_or("");
                            return format!("{k} = {v} {hint}");
                        }
                    }
                    l.to_string()
                })
                .collect::<Vec<_>>()
                .join("\n")
        };
        // (text, expected custom codes if accepted)
        let e9001: BTreeSet<&str> = ["E9001"].into_iter().collect();
        let both: BTreeSet<&str> = ["E9001", "E9002"].into_iter().collect();
        let none: BTreeSet<&str> = BTreeSet::new();
        let mut files: Vec<(String, String, BTreeSet<&str>)> = vec![
            ("trailing comment".into(), format!("cdps = {wrong_cdps} # expected CDPs\n"), e9001.clone()),
            ("template, cdps set, hint kept".into(), from_template(&[("cdps", wrong_cdps.to_string())]), e9001.clone()),
            ("template, cdps and triggers_pht set".into(), from_template(&[("cdps", wrong_cdps.to_string()), ("triggers_pht", (t.pht + 1).to_string())]), both.clone()),
            ("template, true values".into(), from_template(&[("cdps", t.cdps.to_string()), ("triggers_pht", t.pht.to_string()), ("rdh_version", "7".into())]), none.clone()),
            ("CRLF line ends".into(), format!("cdps = {wrong_cdps}\r\ntriggers_pht = {}\r\n", t.pht), e9001.clone()),
            ("keys in reverse order, blank lines, spaces".into(), format!("\n\n   triggers_pht   =   {}\n\n cdps={wrong_cdps}\n\n", t.pht + 1), both.clone()),
            ("underscore and plus sign".into(), format!("cdps = +{}\ntriggers_pht = {}\n", wrong_cdps, if t.pht >= 1000 { format!("{}_{:03}", t.pht / 1000, t.pht % 1000) } else { t.pht.to_string() }), e9001.clone()),
            ("hexadecimal".into(), format!("cdps = {:#x}\n", wrong_cdps), e9001.clone()),
            ("comment lines in between".into(), format!("# a\ncdps = {wrong_cdps}\n# b\n#triggers_pht = 3\n"), e9001.clone()),
        ];
        // a value the key cannot hold, next to the wrong cdps: refused, or at least cdps still enforced
        for (label, extra) in [("chip_count_ob = 256", "chip_count_ob = 256"), ("rdh_version = 0x107", "rdh_version = 0x107"), ("triggers_pht = 2^32", "triggers_pht = 4_294_967_296"), ("negative triggers_pht", "triggers_pht = -1"), ("float cdps twin", "chip_count_ob = 7.0"), ("flat chip_orders_ob", "chip_orders_ob = [0, 1, 2]"), ("string value", "rdh_version = \"7\""), ("unknown key", "no_such_key = 1")] {
            files.push((format!("out-of-schema: {label}"), format!("cdps = {wrong_cdps}\n{extra}\n"), e9001.clone()));
        }
        let fres = par_map(&files, |_, (_, text, _)| run_cli(&t, Some(text), &mode));
        for ((label, text, want), r) in files.iter().zip(fres.iter()) {
            match r {
                // a crash of the tool on a file it cannot use counts as a refusal only if nothing was analysed: run_cli
                // reports signals; a panic exit (101) without a report is a refusal
                // a file whose values do not fit is outside the "well-formed configuration files" the tool must cope
                // with: being thrown out while the file is loaded (this tool panics there) is a refusal
                Err(_) if label.starts_with("out-of-schema") => {}
                Err(e) => rep.violation(Violation { signature: "custom:file-form:crash".into(), description: format!("{e} [{label}]"), replay: json!({"toml": text}) }),
                Ok((codes, full, status)) => {
                    let analysed = full.contains("Total RDHs");
                    if !analysed && *status != Some(0) {
                        continue; // refused before the analysis: acceptable for any spelling
                    }
                    let got: BTreeSet<&str> = codes.iter().map(|s| s.as_str()).filter(|c| custom_codes.contains(c)).collect();
                    let want_status = if want.is_empty() { Some(0) } else { Some(9) };
                    if got != *want || *status != want_status {
                        rep.violation(Violation {
                            signature: format!("custom:file-form:{}", if label.starts_with("out-of-schema") { "accepted-and-ignored" } else { "other-meaning-than-the-plain-file" }),
                            description: format!("checks file ({label}) was accepted (data analysed, exit {:?}) with custom codes {:?}; the plain file gives {:?} / exit {:?}", status, got, want, want_status),
                            replay: json!({"toml": text, "input_hex": hex(&t.bytes)}),
                        });
                    }
                }
            }
        }
    }
    // ---- a configured trigger period changes nothing but [E45]: every stave-mode witness, clean and with each fault of
    //      the catalogue at its first and last site, run with the stave filter alone and with the stave filter plus
    //      `-p P` - the messages other than [E45] are the same, message for message
    let mut period_neutral_runs = 0u64;
    {
        let cat = crate::faults::catalogue();
        let mut jobs: Vec<(String, Vec<u8>, String)> = Vec::new();
        for w in crate::c02::witnesses().into_iter().filter(|w| w.stave) {
            let fee = w.links[0][0].packet.rdh.fee_id;
            let stave = format!("L{}_{}", (fee >> 12) & 7, fee & 0x3F);
            jobs.push((format!("{} clean", w.name), grammar::interleave(&w.links, &w.order).bytes(), stave.clone()));
            for f in cat.iter() {
                let sites = crate::c02::sites(&w, f);
                for si in [0usize, sites.len().saturating_sub(1)].into_iter().filter(|i| *i < sites.len()).collect::<BTreeSet<_>>() {
                    let m = crate::c02::mutate(&w, f, sites[si]);
                    jobs.push((format!("{} + {} (site {si})", w.name, f.name), m.packets.iter().flat_map(|(_, p)| p.packet.bytes()).collect(), stave.clone()));
                }
            }
        }
        let pres = par_map(&jobs, |_, (_, bytes, stave)| -> Option<String> {
            let run = |period: Option<&str>| {
                let scratch = Scratch::new("c20p");
                let mut a = vec![scratch.file("in.raw", bytes).display().to_string(), "check".into(), "all".into(), "its-stave".into(), "--filter-its-stave".into(), stave.clone(), "-E".into(), "9".into()];
                if let Some(p) = period {
                    a.extend(["-p".to_string(), p.to_string()]);
                }
                Run::new(&a).cwd(&scratch.path).run()
            };
            let r0 = run(None);
            let r1 = run(Some("1234"));
            if r0.crashed() || r1.crashed() {
                return Some(format!("crash (signals {:?} / {:?})", r0.signal, r1.signal));
            }
            let keep = |r: &fp_harness::cli::RunResult| -> Vec<String> { split_cli_errors(&r.stderr_str()).into_iter().filter(|m| !m.contains("[E45]")).map(|m| crate::c02::strip_ansi(&m)).collect() };
            let (m0, m1) = (keep(&r0), keep(&r1));
            if m0 != m1 {
                let only0: Vec<&String> = m0.iter().filter(|m| !m1.contains(m)).collect();
                let only1: Vec<&String> = m1.iter().filter(|m| !m0.contains(m)).collect();
                return Some(format!("{} messages without -p, {} with -p (not counting [E45]); only without: {:?}; only with: {:?}", m0.len(), m1.len(), only0.first().map(|x| x.lines().next().unwrap_or("").to_string()), only1.first().map(|x| x.lines().next().unwrap_or("").to_string())));
            }
            None
        });
        for ((label, bytes, stave), r) in jobs.iter().zip(pres.iter()) {
            period_neutral_runs += 2;
            if let Some(d) = r {
                rep.violation(Violation { signature: "period:other-findings-change-with-the-period-option".into(), description: format!("{d} [{label}, --filter-its-stave {stave}]"), replay: json!({"input_hex": hex(bytes), "stave": stave}) });
            }
        }
    }
    rep.cov("period_neutral_runs", json!(period_neutral_runs));
    // generated default file == no file (in check all its too)
    {
        let scratch = Scratch::new("c20g");
        let g = Run::new(&["--generate-checks-toml".to_string()]).cwd(&scratch.path).run();
        let gen = std::fs::read_to_string(scratch.join("custom_checks.toml")).unwrap_or_default();
        if gen.is_empty() {
            rep.violation(Violation { signature: "custom:generate-template".into(), description: format!("--generate-checks-toml wrote no custom_checks.toml (exit {:?})", g.status), replay: json!({}) });
        } else {
            for m in [vec!["check", "all", "its-stave"], vec!["check", "all", "its"], vec!["check", "sanity"]] {
                let a = run_cli(&t, None, &m);
                let b = run_cli(&t, Some(&gen), &m);
                if let (Ok(a), Ok(b)) = (&a, &b) {
                    if a.1 != b.1 || a.2 != b.2 {
                        rep.violation(Violation { signature: "custom:default-file-changes-output".into(), description: format!("the generated all-default file changes the output of `{}`", m.join(" ")), replay: json!({"mode": m}) });
                    }
                }
            }
        }
    }
    // ---- a custom-checks file with the true values changes nothing else: faulty streams (OL stave stream and an
    //      inner-barrel stave stream, each with an ITS system-id fault, an RDH reserved bit and a TDT reserved bit) x
    //      3 ITS modes x {no file, all five keys at the truth, cdps only, OB keys only}: identical messages
    let mut meta_runs = 0u64;
    {
        let ib_clean = {
            let wsf = crate::c02::witnesses().into_iter().find(|x| x.name == "ib-fmt2-frames").expect("stave witness");
            grammar::interleave(&wsf.links, &wsf.order)
        };
        let ib_bytes_clean: Vec<u8> = ib_clean.packets.iter().flat_map(|(_, p)| p.packet.bytes()).collect();
        let ib_truth = Truth { cdps: ib_clean.packets.len() as u32, pht: ib_clean.packets.iter().filter(|(_, p)| p.packet.rdh.trigger_type & 0x10 != 0).count() as u32, version: 7, bytes: ib_bytes_clean };
        let spoil = |clean: &[u8]| -> Vec<u8> {
            let mut b = clean.to_vec();
            let (walked, _) = fp_model::stream::walk(&b);
            let o2 = walked[2].offset as usize;
            b[o2 + 5] = 0x21; // system id of the third RDH
            let o3 = walked[3].offset as usize;
            b[o3 + 52] |= 0x01; // a reserved byte of RDH3 of the fourth RDH
            b
        };
        for (sname, tr) in [("OL stave stream", &t), ("IB stave stream", &ib_truth)] {
            for faulty in [false, true] {
                let bytes = if faulty { spoil(&tr.bytes) } else { tr.bytes.clone() };
                let tt = Truth { bytes, cdps: tr.cdps, pht: tr.pht, version: tr.version };
                for mode in [vec!["check", "sanity", "its"], vec!["check", "all", "its"], vec!["check", "all", "its-stave"]] {
                    let reference = run_cli(&tt, None, &mode);
                    for (fname, subset) in [("all keys at the truth", 0b11111u32), ("cdps only", 0b00001), ("OB chip keys only", 0b11000), ("rdh_version only", 0b00100)] {
                        meta_runs += 1;
                        let with = run_cli(&tt, Some(&toml_for(subset, None, &tt)), &mode);
                        match (&reference, &with) {
                            (Ok(a), Ok(b)) => {
                                if a.0 != b.0 || a.2 != b.2 {
                                    rep.violation(Violation {
                                        signature: format!("custom:file-with-true-values-changes-findings:{}", if a.0.difference(&b.0).next().is_some() { "lost" } else { "added" }),
                                        description: format!("{sname}{}, `{}`: codes without a checks file {:?} (exit {:?}), with {fname} {:?} (exit {:?})", if faulty { " with faults" } else { "" }, mode.join(" "), a.0, a.2, b.0, b.2),
                                        replay: json!({"mode": mode, "subset": subset, "stream": sname, "faulty": faulty}),
                                    });
                                }
                            }
                            (Err(e), _) | (_, Err(e)) => rep.violation(Violation { signature: "custom:crash".into(), description: e.clone(), replay: json!({"mode": mode, "subset": subset}) }),
                        }
                    }
                }
            }
        }
    }
    rep.cov("true_value_file_metamorphic_runs", json!(meta_runs));
    // ---- trigger period product
    let mut states = 0u64;
    let mut transitions = 0u64;
    let mut fix = true;
    // periods 3564 and 891 + 3564 can never equal a distance modulo 3564: every consecutive internal pair is an error
    for p in [1u16, 891, 3563, 3564, 4455] {
        let mut bcs = if p <= 3563 { vec![0u16, 1, p - 1, p, 3563 - p + 1, 3563] } else { vec![0u16, 1, p - 3564, 890, 891, 3563] };
        bcs.sort();
        bcs.dedup();
        let sys = PeriodProduct { period: p, bcs };
        let xr = xs::bfs(&sys, 12, 400_000, false);
        states += xr.states;
        transitions += xr.transitions;
        fix &= xr.fixpoint;
        for (h, v) in &xr.violations {
            rep.violation(Violation { signature: v.signature.clone(), description: v.description.clone(), replay: json!({"period": p, "tdh_history": format!("{:?}", h)}) });
        }
        for f in &xr.abstraction_failures {
            rep.machinery_error(format!("abstraction check failed (period {p}): {f}"));
        }
    }
    if !fix {
        rep.machinery_error("trigger-period product did not reach a fixpoint".into());
    }
    rep.cov("states", json!(states));
    rep.cov("transitions", json!(transitions));
    rep.cov("traces_validated_against_impl", json!(transitions + cases.len() as u64));
    rep.cov("fixpoint", json!(fix));
    rep.cov("custom_check_cli_cases", json!(cases.len()));
    rep.cov("exhaustive", json!(true));
    rep.sample(json!({"toml": toml_for(0b10011, Some((1, 1)), &t)}));
    rep.sample(json!({"period": 891, "tdh_history": "[bc 3563 internal, bc 890 internal] -> distance 891 mod 3564: no E45"}));
    rep.assume("configured values are truth-1 / truth / truth+1 (chip orders: correct, two chips swapped, shifted list)");
    rep.finish()
}

pub fn replay(v: &serde_json::Value) -> i32 {
    // the cases of this check are enumerated, not stored: re-run the deterministic enumeration for the signature
    fp_harness::report::replay_by_rerun(v, &|tier| run(tier))
}
