//! C02 — every documented violation is detected with its code and location.
//!
//! Complete enumeration: witness streams (every grammar production occurs) x fault catalogue x every applicable
//! position x check modes, through real `LinkValidator`s fed the way the dispatcher feeds them (per link, per FEE id
//! in stave mode); one CLI run per fault x mode for stderr and the exit status. Oracle: in every mode in which the
//! rule is active, at least one message of the rule's code family at the byte offset of the mutated RDH / word;
//! running codes never appear in `check sanity` runs.
use crate::faults::{self, Fault, Site, RUNNING_CODES};
use crate::val::{self, Mode};
use fp_harness::cli::{Run, Scratch};
use fp_harness::par::par_map;
use fp_harness::{Reporter, Tier, Violation};
use fp_model::grammar::{self, HbfShape, LinkCfg, PacketT, WKind};
use fp_model::rules;
use fp_model::util::hex;
use fp_model::words;
use serde_json::json;
use std::collections::BTreeMap;

pub struct Witness {
    pub name: &'static str,
    pub links: Vec<Vec<PacketT>>,
    /// file order as a sequence of link indices
    pub order: Vec<usize>,
    pub stave: bool,
}

pub fn witnesses() -> Vec<Witness> {
    let mut v = Vec::new();
    let shapes = |cfg: &LinkCfg, stave: bool| -> Vec<HbfShape> {
        let s = if stave { grammar::stave_hbf_shapes(cfg) } else { grammar::basic_hbf_shapes(cfg) };
        s.into_iter().map(|x| x.1).collect()
    };
    for stave in [false, true] {
        // inner barrel, format 2, internal triggers, two CDWs on the link
        let mut c = LinkCfg::ib(0, 3);
        c.bc_step = 0x40;
        let mut sh = shapes(&c, stave);
        if !stave {
            // a second CDW-carrying HBF so that "CDW with new user field" has a site
            sh.push(sh[4].clone());
        } else {
            sh.push(sh[3].clone());
        }
        let l0 = grammar::render_link(&c, &sh);
        v.push(Witness { name: if stave { "ib-fmt2-frames" } else { "ib-fmt2" }, order: vec![0; l0.len()], links: vec![l0], stave });
        // outer layer, format 0, physics triggers, not internal
        let mut c = LinkCfg::ol(5, 17, false);
        c.data_format = 0;
        c.internal = false;
        c.triggers = vec![grammar::TRG_PHT, grammar::TRG_SOC_HB_TF | 0x10];
        c.bc_step = 0x40;
        c.rdh_bcs = vec![3];
        let l = grammar::render_link(&c, &shapes(&c, stave));
        v.push(Witness { name: if stave { "ol-fmt0-frames" } else { "ol-fmt0" }, order: vec![0; l.len()], links: vec![l], stave });
        // two interleaved links (middle layer + inner barrel), round robin
        let mut a = LinkCfg::ml(2, 9, true);
        a.bc_step = 0x40;
        let mut b = LinkCfg::ib(7, 11);
        b.lanes = vec![0x23, 0x24, 0x25];
        b.bc_step = 0x40;
        let sa: Vec<HbfShape> = shapes(&a, stave).into_iter().take(4).collect();
        let sb: Vec<HbfShape> = shapes(&b, stave).into_iter().skip(3).collect();
        let la = grammar::render_link(&a, &sa);
        let lb = grammar::render_link(&b, &sb);
        let mut order = Vec::new();
        let (mut i, mut j) = (0, 0);
        while i < la.len() || j < lb.len() {
            if i < la.len() {
                order.push(0);
                i += 1;
            }
            if j < lb.len() {
                order.push(1);
                j += 1;
            }
        }
        v.push(Witness { name: if stave { "ml+ib-interleaved-frames" } else { "ml+ib-interleaved" }, links: vec![la, lb], order, stave });
    }
    v
}

/// A mutated copy of the witness: the flat packet list in file order with offsets, plus the offset the report must
/// point at.
pub struct Mutated {
    pub packets: Vec<(u64, PacketT)>,
    pub site_offset: u64,
    pub desc: String,
}

/// All (link, packet index, word index or None) sites where `f` applies.
pub fn sites(w: &Witness, f: &Fault) -> Vec<(usize, usize, Option<usize>)> {
    let mut out = Vec::new();
    for (li, link) in w.links.iter().enumerate() {
        for (pi, p) in link.iter().enumerate() {
            match &f.site {
                Site::Rdh { applicable, .. } => {
                    if applicable(p, pi, link) {
                        out.push((li, pi, None));
                    }
                }
                Site::Word { kinds, applicable, .. } => {
                    for (wi, wd) in p.words.iter().enumerate() {
                        if kinds.contains(&wd.kind) && applicable(p, pi, link, wi) {
                            out.push((li, pi, Some(wi)));
                        }
                    }
                }
                Site::Padding | Site::PaddingOnly => {
                    if p.packet.rdh.data_format == 2 {
                        out.push((li, pi, None));
                    }
                }
                Site::SameOrbitHbf => {
                    if p.hbf >= 1 && p.page == 0 {
                        out.push((li, pi, None));
                    }
                }
            }
        }
    }
    out
}

pub fn mutate(w: &Witness, f: &Fault, site: (usize, usize, Option<usize>)) -> Mutated {
    let (li, pi, wi) = site;
    let mut links = w.links.clone();
    let mut site_word: Option<usize> = wi;
    match &f.site {
        Site::Rdh { apply, .. } => {
            apply(&mut links[li][pi].packet.rdh);
            // ITS running faults on the RDH are reported at a word of the packet
            if f.families.contains(&"E12") {
                site_word = links[li][pi].words.iter().position(|x| x.kind == WKind::Ihw);
            } else if f.families.contains(&"E110") || f.families.contains(&"E111") {
                site_word = links[li][pi].words.iter().position(|x| x.kind == WKind::Ddw0);
            }
        }
        Site::Word { apply, .. } => {
            let wi = wi.unwrap();
            let snapshot = links[li][pi].clone();
            let p = &mut links[li][pi];
            let mut wb = p.words[wi].bytes;
            apply(&mut wb, &snapshot);
            p.words[wi].bytes = wb;
            let off = p.word_rel_offset(wi) - 64;
            p.packet.payload[off..off + 10].copy_from_slice(&wb);
            if f.name == "ihw.lane of the first data word switched off" {
                // the consequence shows at the data word, not at the IHW
                site_word = p.words.iter().position(|x| x.kind == WKind::Data && words::is_valid_data_id(x.bytes[9]));
            }
        }
        Site::Padding => {
            let p = &mut links[li][pi];
            // strip the format-2 padding, then add 16 bytes of 0xFF
            let body = p.words.len() * 10;
            p.packet.payload.truncate(body);
            p.packet.payload.extend(std::iter::repeat(0xFF).take(16));
            let sz = (64 + p.packet.payload.len()) as u16;
            p.packet.rdh.memory_size = sz;
            p.packet.rdh.offset_next = sz;
        }
        Site::PaddingOnly => {
            let p = &mut links[li][pi];
            p.packet.payload = vec![0xFF; 16];
            p.packet.rdh.memory_size = 80;
            p.packet.rdh.offset_next = 80;
        }
        Site::SameOrbitHbf => {
            let hbf = links[li][pi].hbf;
            let prev_orbit = links[li].iter().find(|p| p.hbf == hbf - 1).unwrap().packet.rdh.orbit;
            for p in links[li].iter_mut().filter(|p| p.hbf == hbf) {
                p.packet.rdh.orbit = prev_orbit;
                for wi in 0..p.words.len() {
                    if matches!(p.words[wi].kind, WKind::Tdh | WKind::TdhAfter | WKind::TdhCont) {
                        let mut t = words::Tdh::decode(&p.words[wi].bytes);
                        t.orbit = prev_orbit;
                        let wb = t.encode();
                        p.words[wi].bytes = wb;
                        let off = p.word_rel_offset(wi) - 64;
                        p.packet.payload[off..off + 10].copy_from_slice(&wb);
                    }
                }
            }
        }
    }
    let s = grammar::interleave(&links, &w.order);
    // locate the mutated packet in file order
    let mut seen = vec![0usize; links.len()];
    let mut site_offset = 0;
    for (k, &l) in w.order.iter().enumerate() {
        if l == li && seen[l] == pi {
            let (off, p) = &s.packets[k];
            site_offset = match site_word {
                Some(wi) => off + p.word_rel_offset(wi) as u64,
                None => *off,
            };
        }
        seen[l] += 1;
    }
    Mutated { packets: s.packets, site_offset, desc: format!("{} at link {} packet {} word {:?}", f.name, li, pi, wi) }
}

/// Feeds the stream to real validators the way the dispatcher does: one validator per link id (per FEE id in
/// stave mode), packets in file order. Returns all error messages (and the first panic).
pub fn run_dispatched(packets: &[(u64, PacketT)], mode: Mode) -> (Vec<String>, Option<String>) {
    run_dispatched_cfg(packets, mode, false)
}

/// `custom`: the same mode with a custom-checks file in force that only states what the witnesses satisfy anyway
/// (`rdh_version = 7`); every documented violation must still be found where it is (the validators are then built
/// along their "custom checks" paths).
pub fn run_dispatched_cfg(packets: &[(u64, PacketT)], mode: Mode, custom: bool) -> (Vec<String>, Option<String>) {
    let cfg = if custom { val::cfg(&val::CfgKey { mode: Some(mode), rdh_version: Some(7), ..Default::default() }) } else { val::mode_cfg(mode) };
    let mut groups: BTreeMap<u32, Vec<val::RawPacket>> = BTreeMap::new();
    for (off, p) in packets {
        let id = if mode == Mode::AllStave { p.packet.rdh.fee_id as u32 } else { p.packet.rdh.link_id as u32 };
        groups.entry(id).or_default().push((p.packet.rdh.encode().to_vec(), p.packet.payload.clone(), *off));
    }
    let mut msgs = Vec::new();
    let mut panic = None;
    for (_, g) in groups {
        let o = val::validate_link(cfg, &g);
        msgs.extend(o.errors());
        if panic.is_none() {
            panic = o.panic;
        }
    }
    (msgs, panic)
}

fn family_hit(msgs: &[String], families: &[&str], offset: u64) -> bool {
    msgs.iter().any(|m| match rules::parse_error_message(m) {
        Some((off, codes)) if off == offset => {
            if families.contains(&"PAYLOAD") {
                m.contains("Payload error following RDH")
            } else {
                codes.iter().any(|c| families.iter().any(|f| rules::code_in_family(c, f)))
            }
        }
        _ => false,
    })
}

fn judge(f: &Fault, mode: Mode, m: &Mutated, msgs: &[String], panic: &Option<String>) -> Option<(String, String)> {
    if let Some(p) = panic {
        return Some((format!("panic:{}", val::panic_site(p)), format!("{p} [{}]", m.desc)));
    }
    if f.scope.active(mode) {
        if !family_hit(msgs, f.families, m.site_offset) {
            let near: Vec<String> = msgs.iter().take(4).map(|m| m.lines().next().unwrap_or("").chars().take(160).collect()).collect();
            return Some((
                format!("missed:{}:{}", f.name, mode.name().replace(' ', "-")),
                format!("no {:?} message at {:#x} for [{}] in mode {}; messages: {:?}", f.families, m.site_offset, m.desc, mode.name(), near),
            ));
        }
    }
    if !mode.running() {
        // a purely stateful violation is not reported by `check sanity`
        for msg in msgs {
            if let Some((_, codes)) = rules::parse_error_message(msg) {
                if let Some(c) = codes.iter().find(|c| RUNNING_CODES.contains(&c.as_str())) {
                    return Some((format!("running-code-in-sanity:{c}"), format!("{c} reported in {}: {msg} [{}]", mode.name(), m.desc)));
                }
            }
        }
    }
    None
}

fn cli_run(f: &Fault, mode: Mode, m: &Mutated) -> Option<(String, String)> {
    let bytes: Vec<u8> = m.packets.iter().flat_map(|(_, p)| p.packet.bytes()).collect();
    let scratch = Scratch::new("c02");
    let input = scratch.file("in.raw", &bytes);
    // rotating: source (file / stdin) and an input filter on the link that carries the fault
    let variant = (fp_model::util::fnv(f.name.as_bytes()) as usize + mode as usize) % 4;
    let stdin = variant % 2 == 1;
    let mut args: Vec<String> = if stdin { vec![] } else { vec![input.display().to_string()] };
    if variant >= 2 {
        if let Some((_, p)) = m.packets.iter().rev().find(|(off, _)| *off <= m.site_offset) {
            args.extend(["--filter-link".to_string(), p.packet.rdh.link_id.to_string()]);
        }
    }
    args.extend(mode.cli_args().iter().map(|s| s.to_string()));
    args.extend(["-E".to_string(), "9".to_string()]);
    let mut run = Run::new(&args).cwd(&scratch.path);
    if stdin {
        run = run.stdin(&bytes);
    }
    let res = run.run();
    if res.crashed() {
        return Some((format!("cli-crash:{}", f.name), format!("signal {:?} timed out {}: {}", res.signal, res.timed_out, res.stderr_str().chars().take(300).collect::<String>())));
    }
    let err = res.stderr_str();
    let msgs: Vec<String> = split_cli_errors(&err);
    if f.scope.active(mode) {
        if res.status != Some(9) {
            return Some((format!("exit-status:{}", mode.name().replace(' ', "-")), format!("exit {:?} instead of the configured 9 for [{}]", res.status, m.desc)));
        }
        if !family_hit(&msgs, f.families, m.site_offset) {
            return Some((format!("cli-missed:{}:{}", f.name, mode.name().replace(' ', "-")), format!("CLI printed no {:?} at {:#x} [{}]: {:?}", f.families, m.site_offset, m.desc, msgs.iter().take(3).collect::<Vec<_>>())));
        }
    }
    None
}

/// Splits the stderr of the CLI into error messages: a message starts on a line beginning with `ERROR ` and runs
/// until the next line that begins with a log level (`ERROR `, `WARN `, `INFO `, `DEBUG `, `TRACE `).
pub fn split_cli_errors(stderr: &str) -> Vec<String> {
    let clean = strip_ansi(stderr);
    let mut out: Vec<String> = Vec::new();
    let mut in_error = false;
    for line in clean.lines() {
        let level = ["ERROR ", "WARN ", "INFO ", "DEBUG ", "TRACE "].iter().find(|l| line.starts_with(**l));
        match level {
            Some(&"ERROR ") => {
                out.push(line[6..].trim_start().to_string());
                in_error = true;
            }
            Some(_) => in_error = false,
            None => {
                if in_error {
                    if let Some(last) = out.last_mut() {
                        last.push('\n');
                        last.push_str(line);
                    }
                }
            }
        }
    }
    out
}

pub fn strip_ansi(s: &str) -> String {
    let mut out = String::with_capacity(s.len());
    let mut it = s.chars().peekable();
    while let Some(c) = it.next() {
        if c == '\u{1b}' {
            if it.peek() == Some(&'[') {
                it.next();
                for d in it.by_ref() {
                    if d.is_ascii_alphabetic() {
                        break;
                    }
                }
            }
        } else {
            out.push(c);
        }
    }
    out
}

pub fn run(tier: Tier) -> i32 {
    val::init_process();
    let mut rep = Reporter::new("C02", tier, "exploration");
    let ws = witnesses();
    let cat = faults::catalogue();
    // sanity of the harness: witnesses are clean in every mode
    for w in &ws {
        let s = grammar::interleave(&w.links, &w.order);
        for mode in val::ALL_MODES {
            if (mode == Mode::AllStave) != w.stave && mode == Mode::AllStave {
                continue;
            }
            let (msgs, panic) = run_dispatched(&s.packets, mode);
            if panic.is_some() || !msgs.is_empty() {
                rep.machinery_error(format!("witness {} is not clean in {}: {:?} {:?}", w.name, mode.name(), panic, msgs.first()));
            }
        }
    }
    struct Job<'a> {
        w: &'a Witness,
        f: &'a Fault,
        site: (usize, usize, Option<usize>),
        mode: Mode,
        cli: bool,
    }
    let mut jobs: Vec<Job> = Vec::new();
    let mut fault_sites: BTreeMap<&str, usize> = BTreeMap::new();
    for w in &ws {
        for f in &cat {
            let all = sites(w, f);
            *fault_sites.entry(f.name).or_default() += all.len();
            // quick: first / middle / last position per witness; thorough: every position
            let chosen: Vec<(usize, usize, Option<usize>)> = if true || tier.is_thorough() || all.len() <= 3 {
                all.clone()
            } else {
                vec![all[0], all[all.len() / 2], all[all.len() - 1]]
            };
            // the CLI tier takes the first chosen site that is not in the first packet of the file (RDH0-level
            // faults there end the run at start-up: unrecognisable input, C16)
            let cli_k = chosen.iter().position(|s| !(w.order[0] == s.0 && s.1 == 0)).unwrap_or(usize::MAX);
            for (k, s) in chosen.iter().enumerate() {
                for mode in val::ALL_MODES {
                    // stave mode is run on the frame-carrying witnesses, the other modes on the plain ones
                    if (mode == Mode::AllStave) != w.stave {
                        continue;
                    }
                    jobs.push(Job { w, f, site: *s, mode, cli: k == cli_k });
                }
            }
        }
    }
    for (name, n) in &fault_sites {
        if *n == 0 {
            rep.machinery_error(format!("fault {name} has no applicable site in any witness (vacuous)"));
        }
    }
    let res = par_map(&jobs, |_, j| {
        let m = mutate(j.w, j.f, j.site);
        let (msgs, panic) = run_dispatched(&m.packets, j.mode);
        let mut r = judge(j.f, j.mode, &m, &msgs, &panic);
        if r.is_none() {
            // the same with a custom-checks file in force (wave 23: a validator built along its custom-checks path
            // had lost the target's rules)
            let (msgs_c, panic_c) = run_dispatched_cfg(&m.packets, j.mode, true);
            r = judge(j.f, j.mode, &m, &msgs_c, &panic_c).map(|(sig, d)| (format!("custom-checks-file:{sig}"), format!("{d} [with a custom-checks file `rdh_version = 7`]")));
        }
        if r.is_none() && j.cli {
            r = cli_run(j.f, j.mode, &m);
        }
        (r, hex(&m.packets.iter().flat_map(|(_, p)| p.packet.bytes()).collect::<Vec<u8>>()))
    });
    let mut active = 0u64;
    for (j, (r, bytes_hex)) in jobs.iter().zip(res.iter()) {
        if j.f.scope.active(j.mode) {
            active += 1;
        }
        if let Some((sig, d)) = r {
            rep.violation(Violation {
                signature: sig.clone(),
                description: format!("{d} [witness {}]", j.w.name),
                replay: json!({"mode": j.mode.name(), "fault": j.f.name, "witness": j.w.name, "site": format!("{:?}", j.site), "stream_hex": bytes_hex, "custom": sig.starts_with("custom-checks-file:")}),
            });
        }
    }
    // ---- the same fault at two sites of one stream: the later occurrence is reported like the first (single-link
    //      witnesses; sites = the first applicable one and the last one; faults that do not change packet lengths)
    {
        struct J2<'a> {
            w: &'a Witness,
            f: &'a Fault,
            s1: (usize, usize, Option<usize>),
            s2: (usize, usize, Option<usize>),
            mode: Mode,
        }
        let mut j2: Vec<J2> = Vec::new();
        for w in ws.iter().filter(|w| w.links.len() == 1) {
            for f in cat.iter().filter(|f| !matches!(f.site, faults::Site::Padding | faults::Site::PaddingOnly | faults::Site::SameOrbitHbf)) {
                let all = sites(w, f);
                if all.len() < 2 {
                    continue;
                }
                let (s1, s2) = (all[0], all[all.len() - 1]);
                if s1.1 == s2.1 {
                    continue; // two sites in one packet: the second word may be shadowed by the first error
                }
                for mode in val::ALL_MODES {
                    if (mode == Mode::AllStave) != w.stave || !f.scope.active(mode) {
                        continue;
                    }
                    j2.push(J2 { w, f, s1, s2, mode });
                }
            }
        }
        let r2 = par_map(&j2, |_, j| {
            let m1 = mutate(j.w, j.f, j.s1);
            let mut links: Vec<Vec<PacketT>> = vec![Vec::new(); j.w.links.len()];
            for (k, (_, p)) in m1.packets.iter().enumerate() {
                links[j.w.order[k]].push(p.clone());
            }
            let w1 = Witness { name: j.w.name, links, order: j.w.order.clone(), stave: j.w.stave };
            let m2 = mutate(&w1, j.f, j.s2);
            let (msgs, panic) = run_dispatched(&m2.packets, j.mode);
            if let Some(p) = panic {
                return Some((format!("panic:{}", val::panic_site(&p)), p));
            }
            let first = family_hit(&msgs, j.f.families, m1.site_offset);
            let second = family_hit(&msgs, j.f.families, m2.site_offset);
            if !first || !second {
                return Some((
                    format!("missed-on-repetition:{}:{}", j.f.name, if !second { "second" } else { "first" }),
                    format!("the same fault at {:#x} and {:#x}: reported at the first = {first}, at the second = {second} [{} | {} | {}]", m1.site_offset, m2.site_offset, m1.desc, m2.desc, j.mode.name()),
                ));
            }
            None
        });
        for (j, r) in j2.iter().zip(r2.iter()) {
            if let Some((sig, d)) = r {
                rep.violation(Violation { signature: sig.clone(), description: d.clone(), replay: json!({"kind": "repetition", "fault": j.f.name, "mode": j.mode.name(), "witness": j.w.name}) });
            }
        }
        rep.cov("same_fault_twice_cases", json!(j2.len()));
    }
    rep.cov("evaluations", json!(jobs.len()));
    rep.cov("distinct_nontrivial", json!(active));
    rep.cov("faults", json!(cat.len()));
    rep.cov("witnesses", json!(ws.iter().map(|w| w.name).collect::<Vec<_>>()));
    rep.cov("sites_per_fault", json!(fault_sites));
    rep.cov("all_positions", json!(true));
    rep.cov("exhaustive", json!(true));
    rep.cov("rule", json!("witness streams x fault catalogue x every applicable position x the check modes (stave mode on frame-carrying witnesses); first site of each (witness, fault, mode) also through the CLI with -E 9. non-trivial = the rule is active in the mode, so a report at the site is required"));
    if let Some(j) = jobs.get(jobs.len() / 2) {
        let m = mutate(j.w, j.f, j.site);
        rep.sample(json!({"witness": j.w.name, "fault": j.f.name, "site_offset": format!("{:#x}", m.site_offset), "mode": j.mode.name()}));
    }
    rep.assume("RDH0-level faults in the first 8 bytes of a file end the CLI run at start-up (exit 1, no E10): the CLI tier uses the first applicable site, which for header faults may be the first packet; such (fault, site) pairs are judged in-process only");
    rep.finish()
}

pub fn replay(v: &serde_json::Value) -> i32 {
    val::init_process();
    let r = &v["replay"];
    let bytes = fp_model::util::unhex(r["stream_hex"].as_str().unwrap());
    let mode = val::ALL_MODES.iter().copied().find(|m| m.name() == r["mode"].as_str().unwrap()).unwrap();
    let (walked, _) = fp_model::stream::walk(&bytes);
    let mut groups: BTreeMap<u32, Vec<val::RawPacket>> = BTreeMap::new();
    for w in &walked {
        let id = if mode == Mode::AllStave { w.rdh.fee_id as u32 } else { w.rdh.link_id as u32 };
        groups.entry(id).or_default().push((bytes[w.offset as usize..w.offset as usize + 64].to_vec(), bytes[w.payload.0..w.payload.1].to_vec(), w.offset));
    }
    println!("REPLAY: messages of mode {} for fault {} at {}:", mode.name(), r["fault"], r["site"]);
    let custom = r["custom"].as_bool().unwrap_or(false);
    let cfg = if custom { val::cfg(&val::CfgKey { mode: Some(mode), rdh_version: Some(7), ..Default::default() }) } else { val::mode_cfg(mode) };
    for (_, g) in groups {
        let o = val::validate_link(cfg, &g);
        for e in o.errors() {
            println!("  {}", e.lines().next().unwrap_or(""));
        }
        if let Some(p) = o.panic {
            println!("  PANIC {p}");
        }
    }
    1
}
