//! Developer aid: render grammar streams to a directory for manual CLI runs.
use fp_model::grammar::*;

pub fn run(dir: &str) -> i32 {
    std::fs::create_dir_all(dir).unwrap();
    for (name, cfg) in [("ib", LinkCfg::ib(0, 3)), ("ml", LinkCfg::ml(1, 4, false)), ("ol", LinkCfg::ol(2, 7, true))] {
        for fmt in [0u8, 2] {
            let mut cfg = cfg.clone();
            cfg.data_format = fmt;
            let shapes = basic_hbf_shapes(&cfg);
            let hbfs: Vec<HbfShape> = shapes.iter().map(|s| s.1.clone()).collect();
            let link = render_link(&cfg, &hbfs);
            let s = contiguous(&[link]);
            std::fs::write(format!("{dir}/{name}_fmt{fmt}.raw"), s.bytes()).unwrap();
        }
    }
    for (name, cfg) in [("ib", LinkCfg::ib(0, 3)), ("ml", LinkCfg::ml(1, 4, false)), ("ol", LinkCfg::ol(2, 7, true))] {
        for fmt in [0u8, 2] {
            let mut cfg = cfg.clone();
            cfg.data_format = fmt;
            let hbfs: Vec<HbfShape> = stave_hbf_shapes(&cfg).iter().map(|s| s.1.clone()).collect();
            let link = render_link(&cfg, &hbfs);
            std::fs::write(format!("{dir}/stave_{name}_fmt{fmt}.raw"), contiguous(&[link]).bytes()).unwrap();
        }
    }
    let links: Vec<Vec<PacketT>> = (0..3)
        .map(|i| {
            let cfg = LinkCfg::ib(i, i);
            let hbfs: Vec<HbfShape> = basic_hbf_shapes(&cfg).iter().map(|s| s.1.clone()).collect();
            render_link(&cfg, &hbfs)
        })
        .collect();
    std::fs::write(format!("{dir}/rr3.raw"), round_robin(&links).bytes()).unwrap();
    0
}
