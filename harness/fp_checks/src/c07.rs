//! C07 — reported offsets and quoted bytes are truthful.
//!
//! Every error message produced over exhaustive menus (the C02 fault enumeration in all modes; streams whose every
//! payload word / header field is replaced by arbitrary bytes in both data formats; the same through the real
//! scanner with link / FEE / stave filters on interleaved links; truncated inputs; a CLI tier) is checked against
//! the bytes: leading offset inside the input and at the start of an RDH or word slot, quoted word bytes equal
//! the bytes at that offset, `current`/`previous` RDH rows equal the decoded RDHs of that link.
use crate::c02::{self, split_cli_errors, witnesses};
use crate::faults;
use crate::lite::run_lite;
use crate::truth::{check_message, Layout};
use crate::val::{self, Mode};
use fp_harness::cli::{Run, Scratch};
use fp_harness::par::par_map;
use fp_harness::{Reporter, Tier, Violation};
use fp_model::grammar;
use fp_model::stream::{self, Filter};
use fp_model::util::{fnv, hex};
use serde_json::json;
use std::sync::Arc;

struct Case {
    label: String,
    bytes: Arc<Vec<u8>>,
    mode: Mode,
    filter: Option<Filter>,
    pipe: bool,
    cli: bool,
}

fn garble(bytes: &[u8], salt: u64, what: u8) -> Vec<u8> {
    // what = 0: every payload byte arbitrary (layout kept: slot padding of format 0 stays zero, 0xFF tail kept)
    // what = 1: non-framing header bytes arbitrary as well
    // what = 2: as 1, and the memory size of every second packet is smaller than the offset to the next RDH (a page
    //           followed by filler up to the next header; only for the modes that step over payloads by the offset)
    let (walked, _) = fp_model::stream::walk(bytes);
    let mut out = bytes.to_vec();
    for w in &walked {
        let fmt0 = w.rdh.data_format == 0;
        let (p0, p1) = w.payload;
        let slot = if fmt0 { 16 } else { 10 };
        let nwords = if fmt0 { (p1 - p0) / 16 } else { (p1 - p0 - fp_model::payload::trailing_ff(&bytes[p0..p1])) / 10 };
        for i in 0..nwords {
            for j in 0..10 {
                let h = fnv(&[salt.to_le_bytes().as_slice(), &(p0 as u32 + (i * slot + j) as u32).to_le_bytes()].concat());
                let mut b = (h >> 9) as u8;
                if j == 9 && b == 0xFF {
                    b = 0xFE; // a word never ends in 0xFF (it would be indistinguishable from padding)
                }
                if !fmt0 && i == 1 && j < 6 && b == 0 {
                    b = 1; // the second word of a format-2 payload does not start with zeros (format detector row)
                }
                out[p0 + i * slot + j] = b;
            }
        }
        if what >= 1 {
            let o = w.offset as usize;
            for j in 0..64 {
                // keep: FEE id (2,3 -> dispatch), offset/memory size (8..12), link (12), data format (24)
                if matches!(j, 2..=3 | 8..=12 | 24) {
                    continue;
                }
                out[o + j] = (fnv(&[salt.to_le_bytes().as_slice(), &(o as u32 + j as u32).to_le_bytes(), &[7]].concat()) >> 17) as u8;
            }
            if what == 2 && (w.offset / 16) % 2 == 1 && w.rdh.offset_next > 64 {
                let ms = 64 + (w.rdh.offset_next - 64) / 2;
                out[o + 10..o + 12].copy_from_slice(&ms.to_le_bytes());
            }
        }
    }
    out
}

fn run_case(c: &Case) -> Vec<(String, String)> {
    let mut v = Vec::new();
    let lay = Layout::of(&c.bytes);
    let by_fee = c.mode == Mode::AllStave;
    let msgs: Vec<String> = if c.cli {
        let scratch = Scratch::new("c07");
        let mut args: Vec<String> = Vec::new();
        if !c.pipe {
            args.push(scratch.file("in.raw", &c.bytes).display().to_string());
        }
        args.extend(crate::c03::filter_args(c.filter));
        args.extend(c.mode.cli_args().iter().map(|s| s.to_string()));
        let mut run = Run::new(&args).cwd(&scratch.path);
        if c.pipe {
            run = run.stdin(&c.bytes);
        }
        let res = run.run();
        // crashes are C04's subject; whatever was printed before is still judged
        split_cli_errors(&res.stderr_str())
    } else {
        let out = run_lite(c.bytes.clone(), c.mode, c.filter, c.pipe);
        out.errors // a panic (C04's subject) just ends the message list
    };
    for m in &msgs {
        if let Some(x) = check_message(m, &c.bytes, &lay, by_fee) {
            v.push(x);
        }
    }
    if let Some(x) = crate::truth::check_sortable(&msgs) {
        v.push(x);
    }
    if msgs.is_empty() {
        v.push(("__nomsg".into(), String::new()));
    }
    v
}

pub fn run(tier: Tier) -> i32 {
    val::init_process();
    let mut rep = Reporter::new("C07", tier, "exploration");
    let ws = witnesses();
    let cat = faults::catalogue();
    let mut cases: Vec<Case> = Vec::new();
    // 1. the C02 menu (every fault x site; quick: every 3rd site) in the modes of that witness
    for w in &ws {
        for f in &cat {
            for (k, s) in c02::sites(w, f).into_iter().enumerate() {
                if !tier.is_thorough() && k % 3 != 0 {
                    continue;
                }
                let m = c02::mutate(w, f, s);
                let bytes = Arc::new(m.packets.iter().flat_map(|(_, p)| p.packet.bytes()).collect::<Vec<u8>>());
                let modes: Vec<Mode> = if w.stave { vec![Mode::AllStave] } else { vec![Mode::SanityIts, Mode::All, Mode::AllIts] };
                for mode in modes {
                    cases.push(Case { label: format!("{} / {}", w.name, m.desc), bytes: bytes.clone(), mode, filter: None, pipe: false, cli: false });
                }
            }
        }
    }
    // 2. arbitrary contents in both formats, with and without filters, file-like and pipe-like, interleaved links
    for w in &ws {
        let clean = grammar::interleave(&w.links, &w.order);
        let base = clean.bytes();
        let fees: Vec<u16> = w.links.iter().map(|l| l[0].packet.rdh.fee_id).collect();
        let links: Vec<u8> = w.links.iter().map(|l| l[0].packet.rdh.link_id).collect();
        let mut filters: Vec<Option<Filter>> = vec![None];
        for l in &links {
            filters.push(Some(Filter::Link(*l)));
        }
        for f in &fees {
            filters.push(Some(Filter::Fee(*f)));
            filters.push(Some(Filter::LayerStave(*f)));
        }
        let salts: Vec<u64> = if tier.is_thorough() { (0..24).collect() } else { (0..6).collect() };
        for salt in salts {
            for what in [0u8, 1, 2] {
                if what == 2 && w.stave {
                    continue;
                }
                let bytes = Arc::new(garble(&base, salt, what));
                let modes: Vec<Mode> = if w.stave { vec![Mode::AllStave] } else if what == 2 { vec![Mode::Sanity, Mode::All] } else { vec![Mode::Sanity, Mode::SanityIts, Mode::All, Mode::AllIts] };
                for mode in modes {
                    for f in &filters {
                        for pipe in [false, true] {
                            if pipe && f.is_none() && !tier.is_thorough() {
                                continue;
                            }
                            cases.push(Case { label: format!("{} garbled salt {salt} kind {what}", w.name), bytes: bytes.clone(), mode, filter: *f, pipe, cli: false });
                        }
                    }
                }
                // CLI tier: first salts only
                if salt < 2 {
                    for f in filters.iter().take(3) {
                        for pipe in [false, true] {
                            let mode = if w.stave { Mode::AllStave } else { Mode::AllIts };
                            // the CLI needs a recognisable first RDH: header garbling (kind 1) keeps bytes 0..3 but not 4..7
                            if what >= 1 {
                                continue;
                            }
                            cases.push(Case { label: format!("CLI {} garbled salt {salt}", w.name), bytes: bytes.clone(), mode, filter: *f, pipe, cli: true });
                        }
                    }
                }
            }
        }
        // 2a. the header's data format may also be 1 (accepted by the RDH checks): words are packed as in format 2, and
        //     every message points at a 10-byte word slot
        let base_fmt2 = w.links.iter().all(|l| l.iter().all(|p| p.packet.rdh.data_format == 2));
        if !w.stave && base_fmt2 {
            for salt in 0..2u64 {
                let mut b = garble(&base, 60 + salt, 0);
                let (walked, _) = fp_model::stream::walk(&b);
                for wk in &walked {
                    b[wk.offset as usize + 24] = 1;
                }
                let bytes = Arc::new(b);
                for mode in [Mode::SanityIts, Mode::AllIts] {
                    for f in filters.iter().take(2) {
                        cases.push(Case { label: format!("{} with data format 1, garbled salt {salt}", w.name), bytes: bytes.clone(), mode, filter: *f, pipe: salt % 2 == 1, cli: salt == 0 && f.is_none() });
                    }
                }
            }
        }
        // 2b. empty-payload packets (offset to the next RDH = 64) of a foreign and of the same link in between: they
        //     are stepped over by the scanner in RDH-only modes and under a filter; offsets behind them must not shift
        for what in [0u8, 1] {
            let g = garble(&base, 3, what);
            let (walked, _) = stream::walk(&g);
            for (variant, foreign) in [(0usize, true), (1, false), (2, true)] {
                let mut out: Vec<u8> = Vec::new();
                for (i, wk) in walked.iter().enumerate() {
                    let end = if i + 1 < walked.len() { walked[i + 1].offset as usize } else { g.len() };
                    out.extend_from_slice(&g[wk.offset as usize..end]);
                    let here = match variant {
                        0 => i == 0,
                        1 => i == 1 || i + 2 == walked.len(),
                        _ => i % 2 == 0,
                    };
                    if here {
                        let mut r = wk.rdh.clone();
                        if foreign {
                            r.link_id = 27;
                            r.fee_id = fp_model::rdh::Rdh::its_fee_id(6, 40, 1);
                        }
                        r.memory_size = 64;
                        r.offset_next = 64;
                        out.extend_from_slice(&r.encode());
                    }
                }
                let bytes = Arc::new(out);
                let modes: Vec<Mode> = if w.stave { vec![Mode::AllStave] } else { vec![Mode::Sanity, Mode::All, Mode::SanityIts, Mode::AllIts] };
                for mode in modes {
                    for f in filters.iter().take(4) {
                        for pipe in [false, true] {
                            cases.push(Case { label: format!("{} garbled kind {what} with empty packets (variant {variant})", w.name), bytes: bytes.clone(), mode, filter: *f, pipe, cli: false });
                        }
                    }
                }
                if what == 0 && !w.stave {
                    cases.push(Case { label: format!("CLI {} with empty packets (variant {variant})", w.name), bytes: bytes.clone(), mode: Mode::AllIts, filter: filters.get(1).copied().flatten(), pipe: false, cli: true });
                }
            }
        }
        // 2d. one link whose packets alternate between data formats 2 and 0 (each payload laid out as its own header
        //     says): offsets and quoted bytes must follow the format of the packet the word is in
        if !w.stave && w.links.len() == 1 {
            let mut pk: Vec<fp_model::stream::Packet> = Vec::new();
            for (i, p) in w.links[0].iter().enumerate() {
                let fmt = if i % 2 == 1 { 2 - p.packet.rdh.data_format.min(2) } else { p.packet.rdh.data_format };
                let ws: Vec<[u8; 10]> = p.words.iter().map(|x| x.bytes).collect();
                let mut r = p.packet.rdh.clone();
                r.data_format = fmt;
                pk.push(fp_model::stream::Packet::framed(r, fp_model::payload::pack(&ws, fmt)));
            }
            let mixed = fp_model::stream::to_bytes(&pk);
            for salt in 0..3u64 {
                let bytes = Arc::new(garble(&mixed, 40 + salt, 0));
                for mode in [Mode::SanityIts, Mode::AllIts] {
                    for f in filters.iter().take(2) {
                        cases.push(Case { label: format!("{} with alternating data formats, garbled salt {salt}", w.name), bytes: bytes.clone(), mode, filter: *f, pipe: salt % 2 == 1, cli: salt == 0 && f.is_none() });
                    }
                }
            }
        }
        // 2c. format-2 payloads whose second word begins with 1..5 zero bytes (six is the known finding of C12): the
        //     words are still cut every 10 bytes, so offsets and quoted bytes of the messages must stay truthful
        if !w.stave {
            let (walked, _) = stream::walk(&base);
            for k in 1..=5usize {
                let mut g = base.clone();
                let mut touched = false;
                for wk in &walked {
                    if wk.rdh.data_format == 2 && wk.payload.1 - wk.payload.0 >= 30 {
                        for b in 0..6 {
                            let i = wk.payload.0 + 10 + b;
                            g[i] = if b < k { 0 } else if g[i] == 0 { 0x5A } else { g[i] };
                        }
                        touched = true;
                    }
                }
                if touched {
                    let bytes = Arc::new(g);
                    for mode in [Mode::SanityIts, Mode::AllIts] {
                        cases.push(Case { label: format!("{} second word of every payload starts with {k} zero bytes", w.name), bytes: bytes.clone(), mode, filter: None, pipe: false, cli: false });
                    }
                }
            }
        }
        // 3. truncation inside the last payload (E100 / E101 messages)
        for cutback in [1usize, 7, 20] {
            let t = Arc::new(base[..base.len() - cutback].to_vec());
            for (mode, pipe) in [(Mode::AllIts, false), (Mode::All, true), (Mode::All, false)] {
                if w.stave {
                    continue;
                }
                cases.push(Case { label: format!("{} truncated by {cutback}", w.name), bytes: t.clone(), mode, filter: None, pipe, cli: false });
            }
        }
    }
    let res = par_map(&cases, |_, c| run_case(c));
    let mut with_msgs = 0u64;
    let mut total_checked = 0u64;
    for (c, r) in cases.iter().zip(res.iter()) {
        if !r.iter().any(|x| x.0 == "__nomsg") {
            with_msgs += 1;
        }
        for (sig, d) in r {
            if sig == "__nomsg" {
                continue;
            }
            total_checked += 1;
            rep.violation(Violation {
                signature: format!("truth:{sig}"),
                description: format!("{d} [{} mode {} filter {:?} pipe {} cli {}]", c.label, c.mode.name(), c.filter, c.pipe, c.cli),
                replay: json!({"mode": c.mode.name(), "filter": format!("{:?}", c.filter), "pipe": c.pipe, "cli": c.cli, "stream_hex": hex(&c.bytes)}),
            });
        }
    }
    let _ = total_checked;
    rep.cov("evaluations", json!(cases.len()));
    rep.cov("distinct_nontrivial", json!(with_msgs));
    rep.cov("exhaustive", json!(true));
    rep.cov("rule", json!("every message of: the C02 fault x site menu (every 3rd site in quick, all in thorough) x modes; witness streams with all payload words / non-framing header bytes replaced by arbitrary bytes (6 / 24 salts) x modes x {no filter, each link, each FEE id, each layer-stave} x {file-like, pipe-like}; the same with empty-payload packets (foreign / same link) inserted at 3 position patterns; format-2 payloads whose second word begins with 1..5 zero bytes; a link whose packets alternate between data formats 2 and 0; truncated tails; a CLI subset. non-trivial = the run produced at least one message to check"));
    rep.sample(json!({"check": "every run's messages pass through a real StatsCollector (collect, finalize): no panic in its offset parser, sorted ascending; 0x<offset> in input and at an RDH/word start; [b0..b9] == input[offset..offset+10]; `current :` row == decoded RDH at offset; `previous:` rows == the same link's two preceding RDHs"}));
    rep.assume("panics / crashes are not judged here (C04); the messages printed before are");
    rep.assume("payload layout agrees with the header's data format (the property's premise); words never end in 0xFF and the second word of a format-2 payload does not start with six zero bytes");
    rep.finish()
}

pub fn replay(v: &serde_json::Value) -> i32 {
    val::init_process();
    let r = &v["replay"];
    let bytes = Arc::new(fp_model::util::unhex(r["stream_hex"].as_str().unwrap()));
    let mode = val::ALL_MODES.iter().copied().find(|m| m.name() == r["mode"].as_str().unwrap()).unwrap();
    let out = run_lite(bytes.clone(), mode, None, r["pipe"].as_bool().unwrap_or(false));
    let lay = Layout::of(&bytes);
    let mut bad = 0;
    for m in &out.errors {
        if let Some((s, d)) = check_message(m, &bytes, &lay, mode == Mode::AllStave) {
            println!("REPLAY: {s}: {d}");
            bad += 1;
        }
    }
    if bad > 0 { 1 } else { 0 }
}
