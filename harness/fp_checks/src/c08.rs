//! C08 — filtered output is exact, lossless and partitions the input.
//!
//! Complete enumeration on the real CLI: streams x every filter kind x every value present in the stream plus an
//! absent one x destination {-o file, implicit stdout, -o stdout} x source {file, stdin}. Oracle: the model's
//! chain walk + filter predicate; partition and idempotence are checked on the produced files themselves.
use crate::c03::{filter_args, filter_class};
use crate::gen;
use fp_harness::cli::{Run, Scratch};
use fp_harness::par::par_map;
use fp_harness::{Reporter, Tier, Violation};
use fp_model::rdh::Rdh;
use fp_model::stream::{self, Filter, Packet};
use fp_model::util::{hex, unhex};
use serde_json::{json, Value};

#[derive(Clone, Copy, Debug, PartialEq, Eq)]
enum Dest {
    File,
    ImplicitStdout,
    ExplicitStdout,
}

#[derive(Clone)]
struct Case {
    bytes: Vec<u8>,
    filter: Filter,
    dest: Dest,
    stdin: bool,
    label: String,
}

fn expected_output(bytes: &[u8], f: Filter) -> (Vec<u8>, usize, usize) {
    let (walked, end) = stream::walk(bytes);
    assert_eq!(end, stream::WalkEnd::Clean);
    let mut out = Vec::new();
    let mut n = 0;
    for w in &walked {
        if f.matches(&w.rdh) {
            out.extend_from_slice(&bytes[w.offset as usize..w.payload.1]);
            n += 1;
        }
    }
    (out, n, walked.len())
}

fn run_once(bytes: &[u8], f: Filter, dest: Dest, stdin: bool, want_stats: bool) -> Result<(Vec<u8>, Option<Value>), String> {
    let scratch = Scratch::new("c08");
    let mut args: Vec<String> = Vec::new();
    if !stdin {
        args.push(scratch.file("in.raw", bytes).display().to_string());
    }
    args.extend(filter_args(Some(f)));
    let outp = scratch.join("out.raw");
    match dest {
        Dest::File => {
            // the destination may exist already: nothing (1 of 3), a short stale file, a stale file longer than any
            // output - the result must be the new output alone in all three cases
            match (bytes.len() / 16 + stdin as usize) % 3 {
                1 => std::fs::write(&outp, [0xABu8; 7]).map_err(|e| e.to_string())?,
                2 => std::fs::write(&outp, vec![0xCDu8; bytes.len() + 4096]).map_err(|e| e.to_string())?,
                _ => {}
            }
            args.extend(["-o".to_string(), outp.display().to_string()])
        }
        Dest::ExplicitStdout => args.extend(["-o".to_string(), "stdout".to_string()]),
        Dest::ImplicitStdout => {}
    }
    let statp = scratch.join("stats.json");
    if want_stats {
        args.extend(["-S".to_string(), statp.display().to_string(), "-D".to_string(), "json".to_string()]);
    }
    let mut run = Run::new(&args).cwd(&scratch.path);
    if stdin {
        run = run.stdin(bytes);
        // a slow producer for every other stdin run (short reads in the tool)
        match (bytes.len() / 16 + args.len()) % 4 {
            1 => run = run.stdin_chunk(61),
            3 => run = run.stdin_chunk(1000),
            _ => {}
        }
    }
    let res = run.run();
    if res.crashed() || res.status != Some(0) {
        return Err(format!("exit {:?} signal {:?} timed_out {}: {}", res.status, res.signal, res.timed_out, res.stderr_str()));
    }
    let out = match dest {
        Dest::File => std::fs::read(&outp).map_err(|e| format!("output file missing: {e}"))?,
        _ => res.stdout.clone(),
    };
    let stats = if want_stats {
        let t = std::fs::read_to_string(&statp).map_err(|e| format!("stats file missing: {e}"))?;
        Some(serde_json::from_str(&t).map_err(|e| format!("stats file not JSON: {e}"))?)
    } else {
        None
    };
    Ok((out, stats))
}

fn first_diff(a: &[u8], b: &[u8]) -> usize {
    a.iter().zip(b.iter()).position(|(x, y)| x != y).unwrap_or(a.len().min(b.len()))
}

fn run_case(c: &Case) -> Option<(String, String)> {
    let (want, n_match, _total) = expected_output(&c.bytes, c.filter);
    let want_stats = c.dest == Dest::File;
    let (out, stats) = match run_once(&c.bytes, c.filter, c.dest, c.stdin, want_stats) {
        Ok(x) => x,
        Err(e) => return Some(("run".into(), e)),
    };
    if out != want {
        let d = first_diff(&out, &want);
        return Some((
            "bytes".into(),
            format!("output has {} bytes, expected {} (first difference at output byte {d}, i.e. byte {} of a packet header if < 64)", out.len(), want.len(), d),
        ));
    }
    // the output is itself well-framed
    let (ow, oend) = stream::walk(&out);
    if oend != stream::WalkEnd::Clean || ow.len() != n_match {
        return Some(("framing".into(), format!("output does not walk cleanly: {:?}, {} packets vs {}", oend, ow.len(), n_match)));
    }
    if let Some(st) = stats {
        let got = st["rdh_stats"]["rdhs_filtered"].as_u64();
        if got != Some(n_match as u64) {
            return Some(("filter-stats".into(), format!("rdhs_filtered = {:?}, {} packets match", got, n_match)));
        }
    }
    // idempotence: filtering the output again with the same filter reproduces it
    if c.dest == Dest::File && !ow.is_empty() && gen::rdh0_recognisable(&ow[0].rdh) {
        match run_once(&out, c.filter, Dest::File, false, false) {
            Ok((again, _)) => {
                if again != out {
                    return Some(("idempotence".into(), format!("re-filtering the output gives {} bytes instead of {}", again.len(), out.len())));
                }
            }
            Err(e) => return Some(("run".into(), format!("re-filter run: {e}"))),
        }
    }
    None
}

fn filters_for(packets: &[Packet]) -> Vec<Filter> {
    let mut v = Vec::new();
    let mut links: Vec<u8> = packets.iter().map(|p| p.rdh.link_id).collect();
    links.sort();
    links.dedup();
    let mut fees: Vec<u16> = packets.iter().map(|p| p.rdh.fee_id).collect();
    fees.sort();
    fees.dedup();
    for l in &links {
        v.push(Filter::Link(*l));
    }
    v.push(Filter::Link(11)); // absent
    for f in &fees {
        v.push(Filter::Fee(*f));
    }
    v.push(Filter::Fee(0x6123)); // absent
    let mut ls: Vec<u16> = fees.iter().map(|f| f & 0x703F).collect();
    ls.sort();
    ls.dedup();
    for f in &ls {
        v.push(Filter::LayerStave(*f));
    }
    v.push(Filter::LayerStave(Rdh::its_fee_id(4, 20, 0))); // absent
    v
}

fn build_cases(tier: Tier) -> Vec<Case> {
    let mut cases = Vec::new();
    let max_len = if tier.is_thorough() { 5 } else { 4 };
    let pats = gen::sequences(&[0, 1, 2], max_len);
    for (pi, p) in pats.iter().enumerate() {
        if p.is_empty() {
            continue;
        }
        let pk = gen::recognisable_pattern_stream(p, 800 + pi as u64);
        let bytes = stream::to_bytes(&pk);
        for f in filters_for(&pk) {
            for dest in [Dest::File, Dest::ImplicitStdout, Dest::ExplicitStdout] {
                for stdin in [false, true] {
                    // quick tier: stdout destinations only for every 3rd pattern
                    if !tier.is_thorough() && dest != Dest::File && pi % 3 != 0 {
                        continue;
                    }
                    cases.push(Case { bytes: bytes.clone(), filter: f, dest, stdin, label: format!("pattern {:?}", p) });
                }
            }
        }
    }
    // batch multiples
    let counts: &[usize] = if tier.is_thorough() { &[99, 100, 101, 200, 201, 300] } else { &[100, 201] };
    for &n in counts {
        let pattern: Vec<u8> = (0..n).map(|i| ((i * 7 + i / 3) % 3) as u8).collect();
        let pk = gen::recognisable_pattern_stream(&pattern, 5000 + n as u64);
        let bytes = stream::to_bytes(&pk);
        for f in [Filter::Link(0), Filter::Link(2), Filter::LayerStave(gen::fee_of_link(0)), Filter::Fee(gen::fee_of_link(1))] {
            for (dest, stdin) in [(Dest::File, false), (Dest::File, true), (Dest::ImplicitStdout, false)] {
                cases.push(Case { bytes: bytes.clone(), filter: f, dest, stdin, label: format!("count {n}") });
            }
        }
    }
    // every header byte of a non-first packet takes 0x00 / 0xFF / 0xA5 (re-serialisation must keep every field)
    for byte in 0..64usize {
        if (8..13).contains(&byte) || byte == 2 || byte == 3 {
            continue;
        }
        for val in [0x00u8, 0xFF, 0xA5] {
            let mut pk = gen::recognisable_pattern_stream(&[1, 0, 1], 77);
            let mut hb = pk[2].rdh.encode();
            hb[byte] = val;
            pk[2].rdh = Rdh::decode(&hb);
            let bytes = stream::to_bytes(&pk);
            cases.push(Case { bytes, filter: Filter::Link(1), dest: Dest::File, stdin: false, label: format!("header byte {byte}={val:#x}") });
        }
    }
    // filter predicates bit by bit on the CLI: FEE ids (link ids) that differ in exactly one bit
    for bit in 0..16u16 {
        let a = Rdh::its_fee_id(5, 3, 0);
        let b = a ^ (1 << bit);
        let pk: Vec<Packet> = (0..6).map(|i| gen::recognisable_framed(4, if i % 2 == 0 { a } else { b }, 16 + 16 * (i % 3), 41_000 + (bit as u64) * 10 + i as u64)).collect();
        let bytes = stream::to_bytes(&pk);
        cases.push(Case { bytes: bytes.clone(), filter: Filter::LayerStave(a), dest: Dest::File, stdin: false, label: format!("fee ids differ in bit {bit}") });
        cases.push(Case { bytes: bytes.clone(), filter: Filter::Fee(a), dest: Dest::File, stdin: true, label: format!("fee ids differ in bit {bit}") });
        if gen::rdh0_recognisable(&pk[1].rdh) && (b & 0x3F) <= 47 && ((b >> 12) & 7) <= 6 {
            cases.push(Case { bytes: bytes.clone(), filter: Filter::LayerStave(b), dest: Dest::File, stdin: false, label: format!("fee ids differ in bit {bit}") });
            cases.push(Case { bytes: bytes.clone(), filter: Filter::Fee(b), dest: Dest::ImplicitStdout, stdin: false, label: format!("fee ids differ in bit {bit}") });
        }
    }
    for bit in 0..8u8 {
        let pk: Vec<Packet> = (0..6).map(|i| gen::recognisable_framed(if i % 2 == 0 { 2 } else { 2 ^ (1 << bit) }, gen::fee_of_link(0), 32, 42_000 + (bit as u64) * 10 + i as u64)).collect();
        let bytes = stream::to_bytes(&pk);
        for l in [2u8, 2 ^ (1 << bit)] {
            cases.push(Case { bytes: bytes.clone(), filter: Filter::Link(l), dest: Dest::File, stdin: false, label: format!("link ids differ in bit {bit}") });
        }
    }
    // stdout is line buffered by the runtime: contents with newlines at chosen places, sizes around the buffer
    // (1 KiB), the pipe page (4 KiB / 8 KiB) and the pipe capacity (64 KiB)
    for (ci, content) in ["zeros", "all-newlines", "newline-first", "newline-every-1500", "crlf-pairs"].iter().enumerate() {
        for &(count, size) in &[(1usize, 16usize), (2, 2000), (3, 10_000), (9, 10_000)] {
            let pk: Vec<Packet> = (0..count)
                .map(|i| {
                    let mut p = gen::recognisable_framed((i % 2) as u8, gen::fee_of_link((i % 2) as u8), size, 6500 + (ci * 100 + i) as u64);
                    // every header byte that the CLI does not need is zero as well: no stray newline in the header
                    let mut r = Rdh::base();
                    r.link_id = (i % 2) as u8;
                    r.fee_id = gen::fee_of_link((i % 2) as u8);
                    r.packet_counter = 0;
                    r.orbit = 0;
                    r.trigger_type = 1;
                    r.cru_id = 0;
                    let body: Vec<u8> = (0..size)
                        .map(|j| match *content {
                            "zeros" => 0,
                            "all-newlines" => 0x0A,
                            "newline-first" => if j == 0 { 0x0A } else { 0 },
                            "newline-every-1500" => if j % 1500 == 7 { 0x0A } else { 0x20 },
                            _ => if j % 2 == 0 { 0x0D } else { 0x0A },
                        })
                        .collect();
                    p = Packet::framed(r, body);
                    p
                })
                .collect();
            let bytes = stream::to_bytes(&pk);
            for f in [Filter::Link(0), Filter::Link(1)] {
                for (dest, stdin) in [(Dest::ImplicitStdout, false), (Dest::ExplicitStdout, true), (Dest::File, false)] {
                    cases.push(Case { bytes: bytes.clone(), filter: f, dest, stdin, label: format!("content {content} x{count} size {size}") });
                }
            }
        }
    }
    // large payloads: totals beyond 2^16
    let pk: Vec<Packet> = (0..12).map(|i| gen::recognisable_framed((i % 2) as u8, gen::fee_of_link((i % 2) as u8), [10000, 9984, 8000][i % 3], 6000 + i as u64)).collect();
    let bytes = stream::to_bytes(&pk);
    for f in [Filter::Link(0), Filter::Link(1)] {
        for (dest, stdin) in [(Dest::File, false), (Dest::File, true), (Dest::ImplicitStdout, true)] {
            cases.push(Case { bytes: bytes.clone(), filter: f, dest, stdin, label: "large payloads".into() });
        }
    }
    cases
}

fn filter_json(f: Filter) -> Value {
    match f {
        Filter::Link(l) => json!({"link": l}),
        Filter::Fee(x) => json!({"fee": x}),
        Filter::LayerStave(x) => json!({"layer_stave": x}),
    }
}

pub fn run(tier: Tier) -> i32 {
    let mut rep = Reporter::new("C08", tier, "exploration");
    let cases = build_cases(tier);
    let results = par_map(&cases, |_, c| run_case(c));
    let mut nontrivial = std::collections::BTreeSet::new();
    for (c, r) in cases.iter().zip(results.iter()) {
        let (_, n, total) = expected_output(&c.bytes, c.filter);
        if n > 0 && n < total {
            nontrivial.insert((fp_model::util::fnv(&c.bytes), format!("{:?}{:?}{}", c.filter, c.dest, c.stdin)));
        }
        if let Some((aspect, detail)) = r {
            rep.violation(Violation {
                signature: format!("write:{}:{}", aspect, filter_class(Some(c.filter))),
                description: format!("{detail} [{} dest={:?} stdin={}]", c.label, c.dest, c.stdin),
                replay: json!({"input_hex": hex(&c.bytes), "filter": filter_json(c.filter), "dest": format!("{:?}", c.dest), "stdin": c.stdin}),
            });
        }
    }
    // spellings: the same filter / the same destination written in another way the tool accepts gives the same
    // result; a spelling the tool rejects leaves nothing behind. (Staves 2, 12 and 35 so that zero-padded and
    // two-digit numbers differ.)
    let mut spellings = 0u64;
    {
        let staves = [(3u8, 2u8), (3, 12), (5, 35)];
        let pk: Vec<Packet> = (0..18).map(|i| gen::recognisable_framed((i % 3) as u8, Rdh::its_fee_id(staves[i % 3].0, staves[i % 3].1, 0), 16 + 16 * (i % 4), 91_000 + i as u64)).collect();
        let bytes = stream::to_bytes(&pk);
        let mut jobs: Vec<(Filter, Vec<String>, String, &str)> = Vec::new(); // (model filter, filter arguments, destination, kind)
        for (li, (layer, stave)) in staves.iter().enumerate() {
            let fee = Rdh::its_fee_id(*layer, *stave, 0);
            let f = Filter::LayerStave(fee);
            for sp in [format!("L{layer}_{stave}"), format!("l{layer}_{stave}"), format!("L{layer}_{stave:02}"), format!("L{layer}_{stave:03}"), format!("l{layer}_{stave:03}"), format!("L{layer}_{stave:04}")] {
                jobs.push((f, vec!["--filter-its-stave".into(), sp.clone()], "out.raw".into(), "filter"));
                jobs.push((f, vec![format!("--filter-its-stave={sp}")], "out.raw".into(), "filter"));
            }
            let l = li as u8;
            for sp in [format!("{l}"), format!("{l:02}"), format!("{l:03}"), format!("+{l}")] {
                jobs.push((Filter::Link(l), vec!["--filter-link".into(), sp.clone()], "out.raw".into(), "filter"));
                jobs.push((Filter::Link(l), vec![format!("--filter-link={sp}")], "out.raw".into(), "filter"));
                jobs.push((Filter::Link(l), vec!["-f".into(), sp.clone()], "out.raw".into(), "filter"));
            }
            for sp in [format!("{fee}"), format!("{fee:07}"), format!("+{fee}")] {
                jobs.push((Filter::Fee(fee), vec!["--filter-fee".into(), sp.clone()], "out.raw".into(), "filter"));
                jobs.push((Filter::Fee(fee), vec![format!("--filter-fee={sp}")], "out.raw".into(), "filter"));
            }
            for dest in ["./out.raw", "-", "sub/out.raw", "sub/../out2.raw", "a b.raw", "\u{fc}n\u{ef}.raw", "out", ".hidden.raw", "stdout.raw", "STDOUT"] {
                jobs.push((Filter::Link(l), vec!["--filter-link".into(), format!("{l}")], dest.to_string(), "destination"));
            }
        }
        // layer / stave numbers no RDH can carry (the FEE ID holds 3 bits of layer and 6 bits of stave): such a filter
        // selects nothing, or is refused - it is not another stave's filter (8 + 3 = L3 and 64 + 2 = stave 2 if wrapped)
        for sp in ["L11_2", "L3_66", "L3_76", "L8_35", "L13_35", "l19_12", "L3_130", "L255_255"] {
            let none = Filter::LayerStave(Rdh::its_fee_id(7, 63, 0));
            jobs.push((none, vec!["--filter-its-stave".into(), sp.to_string()], "out.raw".into(), "out-of-range-filter"));
            jobs.push((none, vec!["-s".into(), sp.to_string()], "-".into(), "out-of-range-filter"));
        }
        let res = par_map(&jobs, |_, (f, fargs, dest, kind)| -> Option<(String, String)> {
            if *kind == "out-of-range-filter" {
                let scratch = Scratch::new("c08r");
                let mut a = vec![scratch.file("in.raw", &bytes).display().to_string()];
                a.extend(fargs.iter().cloned());
                if dest != "-" {
                    a.extend(["-o".to_string(), dest.clone()]);
                }
                let r = Run::new(&a).cwd(&scratch.path).run();
                if r.timed_out {
                    return Some((format!("{kind}:timeout"), "the run did not end".into()));
                }
                let written = if dest == "-" { r.stdout.clone() } else { std::fs::read(scratch.join(dest)).unwrap_or_default() };
                // stdout may carry the report; packets are recognised by the first header of the stream's staves
                let has_packet = pk.iter().any(|p| { let b = p.bytes(); written.windows(64).any(|w| w == &b[..64]) });
                if has_packet {
                    return Some((format!("{kind}:packets-of-another-stave-written"), format!("exit {:?}: the output holds packets although no header can carry this layer / stave", r.status)));
                }
                return None;
            }
            let scratch = Scratch::new("c08s");
            let _ = std::fs::create_dir_all(scratch.join("sub"));
            let mut a = vec![scratch.file("in.raw", &bytes).display().to_string()];
            a.extend(fargs.iter().cloned());
            a.extend(["-o".to_string(), dest.clone()]);
            let r = Run::new(&a).cwd(&scratch.path).run();
            if r.crashed() || r.stderr_str().contains("panicked at") {
                return Some((format!("{kind}-spelling:crash"), format!("signal {:?} / panic: {}", r.signal, r.stderr_str().lines().find(|l| l.contains("panicked")).unwrap_or(""))));
            }
            let (want, _, _) = expected_output(&bytes, *f);
            let outp = scratch.join(dest);
            let got = std::fs::read(&outp).ok();
            let data_on_stdout = want.len() >= 64 && r.stdout.windows(64).any(|w| w == &want[..64]);
            if r.status == Some(0) {
                if got.as_deref() != Some(&want[..]) {
                    return Some((format!("{kind}-spelling:accepted-but-other-result"), format!("accepted (exit 0), the file {dest:?} holds {:?} bytes, the selected packets make {} bytes", got.map(|g| g.len()), want.len())));
                }
                if data_on_stdout {
                    return Some((format!("{kind}-spelling:data-also-on-stdout"), format!("the packets went to stdout although the destination is the file {dest:?}")));
                }
            } else if got.map_or(false, |g| !g.is_empty()) || data_on_stdout {
                return Some((format!("{kind}-spelling:rejected-but-output-written"), format!("exit {:?}, yet data was written", r.status)));
            }
            None
        });
        for ((_, fargs, dest, _), r) in jobs.iter().zip(res.iter()) {
            spellings += 1;
            if let Some((sig, d)) = r {
                rep.violation(Violation { signature: format!("write:{sig}"), description: format!("{d} [{} -o {dest}]", fargs.join(" ")), replay: json!({"input_hex": hex(&bytes), "args": fargs, "dest": dest}) });
            }
        }
    }
    // a destination whose name is a legal path but not valid UTF-8 (Latin-1 "d\xe9j\xe0.raw"): written like any other
    {
        use std::os::unix::ffi::OsStrExt;
        use std::os::unix::process::ExitStatusExt;
        let pk: Vec<Packet> = (0..12).map(|i| gen::recognisable_framed((i % 3) as u8, gen::fee_of_link((i % 3) as u8), 16 + 16 * (i % 4), 93_000 + i as u64)).collect();
        let bytes = stream::to_bytes(&pk);
        let scratch = Scratch::new("c08u");
        let inp = scratch.file("in.raw", &bytes);
        let name = std::ffi::OsStr::from_bytes(b"d\xe9j\xe0.raw");
        let out = std::process::Command::new(fp_harness::cli::cli_bin()).arg(&inp).args(["--filter-link", "1", "-o"]).arg(name).current_dir(&scratch.path).env("RUST_BACKTRACE", "0").output();
        spellings += 1;
        match out {
            Err(e) => rep.machinery_error(format!("spawn: {e}")),
            Ok(o) => {
                let (want, _, _) = expected_output(&bytes, Filter::Link(1));
                let got = std::fs::read(scratch.path.join(name)).ok();
                let err = String::from_utf8_lossy(&o.stderr).to_string();
                if o.status.signal().is_some() || err.contains("panicked at") {
                    rep.violation(Violation { signature: "write:destination-spelling:crash:non-utf8-file-name".into(), description: format!("signal {:?}: {}", o.status.signal(), err.lines().find(|l| l.contains("panicked")).unwrap_or("")), replay: json!({"input_hex": hex(&bytes), "dest": "d\\xe9j\\xe0.raw"}) });
                } else if o.status.code() == Some(0) && got.as_deref() != Some(&want[..]) {
                    rep.violation(Violation { signature: "write:destination-spelling:accepted-but-other-result:non-utf8-file-name".into(), description: format!("the file holds {:?} bytes, the selected packets make {}", got.map(|g| g.len()), want.len()), replay: json!({"input_hex": hex(&bytes)}) });
                }
            }
        }
    }
    rep.cov("spelling_cases", json!(spellings));
    // the writer's buffer: in the tool it holds 2^20 packets, so only streams beyond a million selected packets make it
    // flush in mid-run. The real `BufferedWriter` is driven here with buffer sizes 1..=5: every sequence of up to 5
    // batches of 1..=3 packets, through `push_cdp_vec` and `push_cdp_arr` (the entry point the writer thread uses): the file holds
    // the pushed packets, each once, in order
    let mut writer_seqs = 0u64;
    {
        use alice_protocol_reader::cdp_wrapper::cdp_array::CdpArray;
        use alice_protocol_reader::cdp_wrapper::cdp_vec::CdpVec;
        use alice_protocol_reader::prelude::*;
        use fastpasta::config::prelude::MockConfig;
        use fastpasta::write::writer::{BufferedWriter, Writer};
        let scratch = Scratch::new("c08w");
        let seqs: Vec<Vec<u8>> = gen::sequences(&[1u8, 2, 3], 5).into_iter().filter(|q| !q.is_empty()).collect();
        'w: for max in 1usize..=5 {
            // (the separate `push_rdhs` / `push_payload` entry points are not used by the tool: a flush between the two
            // halves of a packet is a misuse of the API, not a behaviour of the tool)
            for via in 0..2u8 {
                for (qi, q) in seqs.iter().enumerate() {
                    let path = scratch.join(&format!("w{max}_{via}_{}.raw", qi % 8));
                    let mut cfg = MockConfig::new();
                    cfg.output = Some(path.clone());
                    let mut want: Vec<u8> = Vec::new();
                    let r = crate::val::guarded(|| {
                        let mut w = BufferedWriter::<RdhCru>::new(&cfg, max);
                        let mut no = 0u32;
                        for &k in q {
                            let mut pk: Vec<(RdhCru, Vec<u8>)> = Vec::new();
                            for _ in 0..k {
                                let p = gen::recognisable_framed((no % 3) as u8, gen::fee_of_link((no % 3) as u8), 16 + 16 * (no as usize % 3), 88_000 + no as u64);
                                let bytes = p.bytes();
                                want.extend_from_slice(&bytes);
                                pk.push((RdhCru::load(&mut &bytes[..64]).unwrap(), bytes[64..].to_vec()));
                                no += 1;
                            }
                            match via {
                                0 => {
                                    let mut v = CdpVec::with_capacity(pk.len());
                                    for (r, p) in pk {
                                        v.push(r, p, 0);
                                    }
                                    w.push_cdp_vec(v);
                                }
                                1 => {
                                    let mut a = CdpArray::<RdhCru, 3>::new();
                                    for (r, p) in pk {
                                        a.push(r, p, 0);
                                    }
                                    w.push_cdp_arr(a);
                                }
                                _ => {
                                    for (r, p) in pk {
                                        w.push_rdhs(vec![r]);
                                        w.push_payload(p);
                                    }
                                }
                            }
                        }
                        drop(w);
                    });
                    writer_seqs += 1;
                    let got = std::fs::read(&path).unwrap_or_default();
                    let problem = match r {
                        Err(p) => Some(format!("panic: {p}")),
                        Ok(()) if got != want => Some(format!("the file holds {} bytes, the pushed packets make {} bytes (first difference at {})", got.len(), want.len(), first_diff(&got, &want))),
                        _ => None,
                    };
                    if let Some(d) = problem {
                        rep.violation(Violation { signature: format!("write:buffered-writer:{}", if d.starts_with("panic") { "panic" } else { "file-differs-from-pushed-packets" }), description: format!("{d} [buffer of {max} packets, batches {:?}, via {}]", q, ["push_cdp_vec", "push_cdp_arr", "push_rdhs + push_payload"][via as usize]), replay: json!({"kind": "writer", "max": max, "via": via, "batches": q}) });
                        break 'w;
                    }
                }
            }
        }
    }
    rep.cov("buffered_writer_sequences", json!(writer_seqs));
    // thorough: the real thing once - 1 200 000 header-only packets (77 MB), 1 050 000 of them selected, so the writer's
    // 2^20-packet buffer is flushed in mid-run; file and stdin source
    if tier.is_thorough() {
        let n = 1_200_000usize;
        let mut bytes: Vec<u8> = Vec::with_capacity(n * 64);
        let mut want: Vec<u8> = Vec::with_capacity(n * 64);
        let proto = gen::recognisable_framed(0, gen::fee_of_link(0), 0, 70_000);
        for i in 0..n {
            let mut r = proto.rdh.clone();
            r.link_id = if i % 8 == 7 { 1 } else { 0 };
            r.orbit = i as u32; // a sequence number: every packet is distinguishable
            r.memory_size = 64;
            r.offset_next = 64;
            let e = r.encode();
            bytes.extend_from_slice(&e);
            if r.link_id == 0 {
                want.extend_from_slice(&e);
            }
        }
        for stdin in [false, true] {
            let scratch = Scratch::new("c08big");
            let mut a: Vec<String> = Vec::new();
            if !stdin {
                a.push(scratch.file("in.raw", &bytes).display().to_string());
            }
            a.extend(["--filter-link".to_string(), "0".to_string(), "-o".to_string(), "out.raw".to_string()]);
            let mut run = Run::new(&a).cwd(&scratch.path).timeout_s(120);
            if stdin {
                run = run.stdin(&bytes);
            }
            let r = run.run();
            let got = std::fs::read(scratch.join("out.raw")).unwrap_or_default();
            if r.crashed() || r.status != Some(0) || got != want {
                rep.violation(Violation { signature: "write:bytes:beyond-the-writer-buffer".into(), description: format!("1 050 000 selected packets (stdin = {stdin}): exit {:?} signal {:?}, output {} bytes, expected {} bytes, first difference at byte {}", r.status, r.signal, got.len(), want.len(), first_diff(&got, &want)), replay: json!({"kind": "big", "stdin": stdin}) });
            }
        }
        rep.cov("beyond_writer_buffer_runs", json!(2));
        // ... and one flush of more than 2^31 bytes (the most a single write call takes): 216 000 selected packets with
        // 10 000-byte payloads (2.17 GB, fewer than 2^20 packets) from stdin to a file; the file is compared on the fly
        {
            let mut r = proto.rdh.clone();
            r.link_id = 0;
            r.memory_size = 10_064;
            r.offset_next = 10_064;
            let mut unit = r.encode().to_vec();
            unit.extend((0..10_000u32).map(|i| (i % 251) as u8));
            let times = 216_000usize;
            let scratch = Scratch::new("c08huge");
            let a: Vec<String> = vec!["--filter-link".into(), "0".into(), "-o".into(), "out.raw".into()];
            let res = Run::new(&a).cwd(&scratch.path).timeout_s(600).stdin_repeat(unit.clone(), times, vec![]).run();
            let outp = scratch.join("out.raw");
            let size = std::fs::metadata(&outp).map(|m| m.len()).unwrap_or(0);
            let mut ok = res.status == Some(0) && !res.crashed() && size == (unit.len() * times) as u64;
            if ok {
                use std::io::Read;
                let mut f = std::io::BufReader::with_capacity(1 << 20, std::fs::File::open(&outp).unwrap());
                let mut buf = vec![0u8; unit.len()];
                for _ in 0..times {
                    if f.read_exact(&mut buf).is_err() || buf != unit {
                        ok = false;
                        break;
                    }
                }
            }
            if !ok {
                rep.violation(Violation { signature: "write:bytes:one-flush-beyond-2-gib".into(), description: format!("216 000 selected packets of 10 064 bytes: exit {:?} signal {:?}, output {} bytes, expected {} bytes", res.status, res.signal, size, unit.len() * times), replay: json!({"kind": "huge"}) });
            }
            rep.cov("flush_beyond_2_gib_runs", json!(1));
        }
    }
    // partition: for every pattern stream, the link-filter outputs over all link values add up to the input
    let mut partitions = 0u64;
    let pats = gen::sequences(&[0, 1, 2], if tier.is_thorough() { 5 } else { 4 });
    let part_inputs: Vec<Vec<u8>> = pats.iter().enumerate().filter(|(_, p)| !p.is_empty()).map(|(pi, p)| stream::to_bytes(&gen::recognisable_pattern_stream(p, 800 + pi as u64))).collect();
    let part_results = par_map(&part_inputs, |_, bytes| {
        let (walked, _) = stream::walk(bytes);
        let mut links: Vec<u8> = walked.iter().map(|w| w.rdh.link_id).collect();
        links.sort();
        links.dedup();
        let mut outs = Vec::new();
        for l in &links {
            match run_once(bytes, Filter::Link(*l), Dest::File, false, false) {
                Ok((o, _)) => outs.push(o),
                Err(e) => return Some(format!("run: {e}")),
            }
        }
        let total: usize = outs.iter().map(|o| o.len()).sum();
        if total != bytes.len() {
            return Some(format!("outputs over all links hold {total} bytes, input has {}", bytes.len()));
        }
        // every input packet is found in exactly one output, at the position its per-link order dictates
        let mut cursors = vec![0usize; links.len()];
        for w in &walked {
            let li = links.iter().position(|l| *l == w.rdh.link_id).unwrap();
            let pkt = &bytes[w.offset as usize..w.payload.1];
            let o = &outs[li];
            if o.len() < cursors[li] + pkt.len() || &o[cursors[li]..cursors[li] + pkt.len()] != pkt {
                return Some(format!("packet at {:#x} is not at its place in the output of link {}", w.offset, w.rdh.link_id));
            }
            cursors[li] += pkt.len();
        }
        None
    });
    for (bytes, r) in part_inputs.iter().zip(part_results.iter()) {
        partitions += 1;
        if let Some(d) = r {
            rep.violation(Violation {
                signature: "write:partition".into(),
                description: d.clone(),
                replay: json!({"input_hex": hex(bytes), "partition": true}),
            });
        }
    }
    rep.cov("evaluations", json!(cases.len() as u64 + partitions));
    rep.cov("partition_checks", json!(partitions));
    rep.cov("distinct_nontrivial", json!(nontrivial.len()));
    rep.cov("exhaustive", json!(true));
    rep.cov("rule", json!("CLI runs for: all link patterns over 3 links up to the tier's length x every present link/FEE/layer-stave value + one absent each x {-o file, implicit stdout, -o stdout} x {file, stdin}; batch multiples; each header byte of a non-first packet in {0,0xFF,0xA5}; payload totals > 2^16; the -o destination does not exist / holds 7 stale bytes / holds a stale file longer than the output (rotating). non-trivial = the filter selects a proper non-empty subset of the packets"));
    if let Some(c) = cases.get(cases.len() / 3) {
        rep.sample(json!({"label": c.label, "filter": filter_json(c.filter), "dest": format!("{:?}", c.dest), "stdin": c.stdin, "input_bytes": c.bytes.len()}));
    }
    rep.assume("first packet of every stream carries a recognisable RDH0 (the CLI refuses other input at start-up; that path is C16's)");
    rep.finish()
}

pub fn replay(v: &Value) -> i32 {
    let r = &v["replay"];
    let bytes = unhex(r["input_hex"].as_str().unwrap());
    if r.get("partition").is_some() {
        println!("REPLAY: partition case; input of {} bytes - run ./check C08 to re-evaluate", bytes.len());
        return 2;
    }
    let f = &r["filter"];
    let filter = if let Some(l) = f.get("link") {
        Filter::Link(l.as_u64().unwrap() as u8)
    } else if let Some(x) = f.get("fee") {
        Filter::Fee(x.as_u64().unwrap() as u16)
    } else {
        Filter::LayerStave(f["layer_stave"].as_u64().unwrap() as u16)
    };
    let dest = match r["dest"].as_str().unwrap() {
        "File" => Dest::File,
        "ImplicitStdout" => Dest::ImplicitStdout,
        _ => Dest::ExplicitStdout,
    };
    let c = Case { bytes, filter, dest, stdin: r["stdin"].as_bool().unwrap(), label: "replay".into() };
    match run_case(&c) {
        Some((a, d)) => {
            println!("REPLAY: violation reproduced: {a}: {d}");
            1
        }
        None => {
            println!("REPLAY: no violation");
            0
        }
    }
}
