//! One binary, one sub-command per property: `fp_checks <ID> --tier quick|thorough` or `fp_checks <ID> --replay <file>`.
mod imp;
mod gen;
mod c01;
mod c02;
mod c03;
mod c04;
mod faults;
mod c06;
mod c07;
mod c08;
mod c09;
mod c10;
mod c11;
mod c12;
mod c13;
mod c14;
mod c15;
mod c16;
mod c18;
mod c19;
mod c20;
mod lite;
mod truth;
mod xs;
mod val;
mod smoke;

use fp_harness::Tier;

fn main() {
    fp_harness::cli::ignore_sigpipe();
    let args: Vec<String> = std::env::args().collect();
    if args.len() < 2 {
        eprintln!("usage: fp_checks <ID> [--tier quick|thorough] [--replay <file>]");
        std::process::exit(2);
    }
    let id = args[1].to_uppercase();
    let mut tier = match std::env::var("VERIF_TIER").as_deref() {
        Ok("thorough") => Tier::Thorough,
        _ => Tier::Quick,
    };
    let mut replay: Option<String> = None;
    let mut i = 2;
    while i < args.len() {
        match args[i].as_str() {
            "--tier" => {
                tier = if args.get(i + 1).map(|s| s.as_str()) == Some("thorough") { Tier::Thorough } else { Tier::Quick };
                i += 1;
            }
            "--replay" => {
                replay = args.get(i + 1).cloned();
                i += 1;
            }
            other => {
                eprintln!("unknown argument {other}");
                std::process::exit(2);
            }
        }
        i += 1;
    }
    // keep the repository's own logging quiet
    let code = if let Some(path) = replay {
        let txt = std::fs::read_to_string(&path).expect("replay file");
        let v: serde_json::Value = serde_json::from_str(&txt).expect("replay json");
        match id.as_str() {
            "C01" => c01::replay(&v),
            "C02" => c02::replay(&v),
            "C03" => c03::replay(&v),
            "C04" => c04::replay(&v),
            "C06" => c06::replay(&v),
            "C07" => c07::replay(&v),
            "C08" => c08::replay(&v),
            "C09" => c09::replay(&v),
            "C10" => c10::replay(&v),
            "C11" => c11::replay(&v),
            "C12" => c12::replay(&v),
            "C13" => c13::replay(&v),
            "C14" => c14::replay(&v),
            "C15" => c15::replay(&v),
            "C16" => c16::replay(&v),
            "C18" => c18::replay(&v),
            "C19" => c19::replay(&v),
            "C20" => c20::replay(&v),
            _ => {
                eprintln!("no replay for {id}");
                2
            }
        }
    } else {
        match id.as_str() {
            "C01" => c01::run(tier),
            "C02" => c02::run(tier),
            "C03" => c03::run(tier),
            "C04" => c04::run(tier),
            "C06" => c06::run(tier),
            "C07" => c07::run(tier),
            "C08" => c08::run(tier),
            "C09" => c09::run(tier),
            "C10" => c10::run(tier),
            "C11" => c11::run(tier),
            "C12" => c12::run(tier),
            "C13" => c13::run(tier),
            "C14" => c14::run(tier),
            "C15" => c15::run(tier),
            "C16" => c16::run(tier),
            "C18" => c18::run(tier),
            "C19" => c19::run(tier),
            "C20" => c20::run(tier),
            "SMOKE" => smoke::run("/tmp/x/smoke"),
            _ => {
                eprintln!("unknown property {id}");
                2
            }
        }
    };
    std::process::exit(code);
}
