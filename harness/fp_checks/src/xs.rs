//! `xs` — explicit-state breadth-first search over the product (real component x reference model).
//!
//! A state is represented by a history of symbols that reaches it (live validators are not `Clone`: a fresh one
//! is built and the history replayed) plus a canonical key (model state, implementation fingerprint). The search
//! runs level by level to the fixpoint of the key set (or to a depth / state cap, reported as such).
//! Abstraction check: the first time a *different* history reaches an already known key, its next-step
//! observations on the full enabled alphabet are compared with those recorded for the representative; a
//! disagreement means the key is too coarse and is reported as a machinery failure, never as a verdict.
use fp_harness::par::par_map;
use std::collections::HashMap;
use std::fmt::Debug;
use std::hash::Hash;

pub struct StepOut<K, O> {
    pub key: K,
    /// observation of the last step (what the next-step comparison of the abstraction check looks at)
    pub obs: O,
}

#[derive(Clone, Debug)]
pub struct Viol {
    pub signature: String,
    pub description: String,
}

pub trait Sys: Sync {
    type Sym: Clone + Debug + Send + Sync + PartialEq;
    type Key: Hash + Eq + Clone + Send + Sync + Debug;
    type Obs: PartialEq + Debug + Clone + Send + Sync;
    /// Symbols enabled after `hist` (decided by the model side only).
    fn enabled(&self, hist: &[Self::Sym]) -> Vec<Self::Sym>;
    /// Builds fresh implementation + model, replays `hist`, checks the invariants on the last step.
    fn run(&self, hist: &[Self::Sym]) -> Result<StepOut<Self::Key, Self::Obs>, Viol>;
    fn initial_key(&self) -> Self::Key;
}

pub struct XsResult<S: Sys> {
    pub states: u64,
    pub transitions: u64,
    pub depth: usize,
    pub fixpoint: bool,
    pub merges_checked: u64,
    pub violations: Vec<(Vec<S::Sym>, Viol)>,
    pub abstraction_failures: Vec<String>,
    /// one representative history per state (for samples / follow-up sweeps)
    pub representatives: Vec<Vec<S::Sym>>,
    pub transition_log: Vec<(S::Key, S::Sym, S::Key)>,
}

struct StateInfo<S: Sys> {
    rep: Vec<S::Sym>,
    next_obs: Option<Vec<(S::Sym, Option<S::Obs>)>>,
    merge_checked: bool,
}

pub fn bfs<S: Sys>(sys: &S, max_depth: usize, max_states: usize, keep_transitions: bool) -> XsResult<S> {
    let mut states: HashMap<S::Key, StateInfo<S>> = HashMap::new();
    states.insert(sys.initial_key(), StateInfo { rep: vec![], next_obs: None, merge_checked: true });
    let mut frontier: Vec<(S::Key, Vec<S::Sym>)> = vec![(sys.initial_key(), vec![])];
    let mut res = XsResult {
        states: 0,
        transitions: 0,
        depth: 0,
        fixpoint: false,
        merges_checked: 0,
        violations: Vec::new(),
        abstraction_failures: Vec::new(),
        representatives: Vec::new(),
        transition_log: Vec::new(),
    };
    let mut depth = 0;
    let mut waiting: Vec<(S::Key, Vec<S::Sym>)> = Vec::new();
    while !frontier.is_empty() {
        if depth >= max_depth || states.len() >= max_states {
            break;
        }
        // expand every frontier state on its full enabled alphabet
        let work: Vec<(usize, S::Sym)> = frontier
            .iter()
            .enumerate()
            .flat_map(|(i, (_, h))| sys.enabled(h).into_iter().map(move |s| (i, s)))
            .collect();
        let outs = par_map(&work, |_, (i, sym)| {
            let mut h = frontier[*i].1.clone();
            h.push(sym.clone());
            sys.run(&h)
        });
        let mut next: Vec<(S::Key, Vec<S::Sym>)> = Vec::new();
        let mut pending_merges: Vec<(S::Key, Vec<S::Sym>)> = Vec::new();
        let mut obs_by_src: HashMap<usize, Vec<(S::Sym, Option<S::Obs>)>> = HashMap::new();
        for ((i, sym), out) in work.iter().zip(outs.into_iter()) {
            res.transitions += 1;
            let mut h = frontier[*i].1.clone();
            h.push(sym.clone());
            match out {
                Err(v) => {
                    obs_by_src.entry(*i).or_default().push((sym.clone(), None));
                    if !res.violations.iter().any(|(_, x)| x.signature == v.signature) {
                        res.violations.push((h, v));
                    }
                }
                Ok(o) => {
                    obs_by_src.entry(*i).or_default().push((sym.clone(), Some(o.obs.clone())));
                    if keep_transitions {
                        res.transition_log.push((frontier[*i].0.clone(), sym.clone(), o.key.clone()));
                    }
                    match states.get(&o.key) {
                        None => {
                            states.insert(o.key.clone(), StateInfo { rep: h.clone(), next_obs: None, merge_checked: false });
                            next.push((o.key, h));
                        }
                        Some(info) => {
                            if !info.merge_checked && info.rep != h {
                                pending_merges.push((o.key.clone(), h));
                                states.get_mut(&o.key).unwrap().merge_checked = true;
                            }
                        }
                    }
                }
            }
        }
        for (i, (k, _)) in frontier.iter().enumerate() {
            if let Some(info) = states.get_mut(k) {
                info.next_obs = obs_by_src.remove(&i).or(Some(vec![]));
            }
        }
        // abstraction check for merged histories whose representative has been expanded already; the others
        // wait until their representative (in `next`) has been expanded in a following round
        waiting.extend(pending_merges.drain(..));
        let (ready, still): (Vec<_>, Vec<_>) =
            waiting.drain(..).partition(|(k, _)| states.get(k).map_or(false, |i| i.next_obs.is_some()));
        waiting = still;
        let checks = par_map(&ready, |_, (k, h)| {
            let want = states.get(k).unwrap().next_obs.as_ref().unwrap();
            for (sym, obs) in want {
                let mut hh = h.clone();
                hh.push(sym.clone());
                let got = sys.run(&hh).ok().map(|o| o.obs);
                if got != *obs {
                    return Some(format!(
                        "key {:?}: after history {:?} symbol {:?} gives {:?}, representative {:?} gave {:?}",
                        k,
                        h,
                        sym,
                        got,
                        states.get(k).unwrap().rep,
                        obs
                    ));
                }
            }
            None
        });
        for c in checks {
            res.merges_checked += 1;
            if let Some(f) = c {
                if res.abstraction_failures.len() < 5 {
                    res.abstraction_failures.push(f);
                }
            }
        }
        frontier = next;
        depth += 1;
        // a violation ends the search of this system after the level in which it was found: the verdict is settled,
        // and a broken implementation need not have a finite product any more
        if !res.violations.is_empty() {
            break;
        }
    }
    res.fixpoint = frontier.is_empty();
    res.depth = depth;
    res.states = states.len() as u64;
    res.representatives = states.values().map(|i| i.rep.clone()).collect();
    res.representatives.sort_by_key(|r| r.len());
    res
}
