//! C07 oracle: is an error message truthful about the bytes it points at?
use crate::c03::expected_rdh_tokens;
use fp_model::rdh::Rdh;
use fp_model::rules;
use fp_model::stream::{self, Walked};

pub struct Layout {
    pub walked: Vec<Walked>,
    pub len: u64,
}
impl Layout {
    pub fn of(bytes: &[u8]) -> Self {
        let (walked, _) = stream::walk(bytes);
        Layout { walked, len: bytes.len() as u64 }
    }
    fn packet_at(&self, off: u64) -> Option<&Walked> {
        self.walked.iter().find(|w| w.offset == off)
    }
    /// the packet whose payload contains `off` as the start of a word slot
    fn word_at(&self, off: u64) -> Option<(&Walked, usize)> {
        for w in &self.walked {
            let p0 = w.payload.0 as u64;
            let p1 = w.payload.1 as u64;
            if off >= p0 && off < p1 {
                let slot = if w.rdh.data_format == 0 { 16 } else { 10 };
                if (off - p0) % slot == 0 && off + 10 <= p1 {
                    return Some((w, ((off - p0) / slot) as usize));
                }
                return None;
            }
        }
        None
    }
}

/// Returns a description of what is untruthful about `msg`, or None.
/// `by_fee`: previous-RDH rows are those of the same FEE id (stave mode) instead of the same link.
pub fn check_message(msg: &str, bytes: &[u8], lay: &Layout, by_fee: bool) -> Option<(String, String)> {
    let Some((off, codes)) = rules::parse_error_message(msg) else {
        return Some(("no-offset".into(), format!("message has no leading offset: {}", first_line(msg))));
    };
    if off >= lay.len {
        let code = codes.first().cloned().unwrap_or_else(|| "no-code".into());
        return Some((format!("offset-outside-input:{code}"), format!("offset {off:#x} is outside the {}-byte input: {}", lay.len, first_line(msg))));
    }
    let is_rdh = lay.packet_at(off).is_some();
    let word = lay.word_at(off);
    if !is_rdh && word.is_none() {
        let code = codes.first().cloned().unwrap_or_else(|| "no-code".into());
        return Some((format!("offset-not-a-start:{code}"), format!("offset {off:#x} is neither the start of an RDH nor of a payload word slot: {}", first_line(msg))));
    }
    // quoted word bytes: "[b0 b1 ... b9]" = ten two-digit hex bytes
    if let Some(dump) = extract_dump(msg) {
        let o = off as usize;
        if o + 10 > bytes.len() || bytes[o..o + 10] != dump[..] {
            let code = codes.first().cloned().unwrap_or_else(|| "no-code".into());
            return Some((format!("dump-mismatch:{code}"), format!("quoted bytes {:02X?} are not the bytes stored at {off:#x}: {}", dump, first_line(msg))));
        }
    }
    // header field values quoted in the first line of an RDH-level message ("pages_counter = 5 expected: 2",
    // "BC = 0xdec", "Orbit changed from 0x1 to 0x2", ...): the value said to be the RDH's is the one stored there
    if let Some(w) = lay.packet_at(off) {
        let line = msg.lines().next().unwrap_or("").to_string();
        let r = &w.rdh;
        let same = |x: &Rdh| if by_fee { x.fee_id == r.fee_id } else { x.link_id == r.link_id };
        let prev = lay.walked.iter().filter(|x| x.offset < off && same(&x.rdh)).last().map(|x| &x.rdh);
        let mut quotes: Vec<(&str, u64)> = vec![
            ("pages_counter = ", r.pages_counter as u64),
            ("stop_bit = ", r.stop_bit as u64),
            ("stop bit = ", r.stop_bit as u64),
            ("BC = ", r.bc as u64),
            ("Header ID = ", r.header_id as u64),
            ("Header size = ", r.header_size as u64),
            ("system_id = ", r.system_id as u64),
            ("Priority bit = ", r.priority as u64),
            ("dw = ", r.dw as u64),
            ("data format = ", r.data_format as u64),
            ("stave number = ", (r.fee_id & 0x3F) as u64),
            ("layer = ", ((r.fee_id >> 12) & 7) as u64),
            ("Orbit same as previous ", r.orbit as u64),
        ];
        if let Some(p) = prev {
            quotes.push(("Orbit changed from ", p.orbit as u64));
            quotes.push(("Trigger type changed from ", p.trigger_type as u64));
            quotes.push(("FeeId changed from ", p.fee_id as u64));
        }
        for (key, want) in quotes {
            if let Some(got) = quoted_number(&line, key) {
                if got != want {
                    let code = codes.first().cloned().unwrap_or_else(|| "no-code".into());
                    return Some((format!("quoted-field-mismatch:{code}:{}", key.trim().trim_end_matches('=').trim().replace(' ', "_")), format!("the message quotes `{key}{got}` but the RDH at {off:#x} holds {want} ({want:#x}): {line}")));
                }
            }
        }
        for (key, want) in [("Orbit changed from ", r.orbit as u64), ("Trigger type changed from ", r.trigger_type as u64), ("FeeId changed from ", r.fee_id as u64)] {
            // "... changed from A to B": B is the current RDH's value
            if let Some(i) = line.find(key) {
                if let Some(j) = line[i..].find(" to ") {
                    if let Some(got) = quoted_number(&line[i + j..], " to ") {
                        if got != want {
                            let code = codes.first().cloned().unwrap_or_else(|| "no-code".into());
                            return Some((format!("quoted-field-mismatch:{code}:changed-to"), format!("the message says the value changed to {got:#x} but the RDH at {off:#x} holds {want:#x}: {line}")));
                        }
                    }
                }
            }
        }
    }
    // RDH context rows
    let mut prev_rows: Vec<Vec<String>> = Vec::new();
    let mut cur_row: Option<Vec<String>> = None;
    for line in msg.lines() {
        let t = line.trim_start();
        if let Some(rest) = t.strip_prefix("previous:") {
            prev_rows.push(rest.split_whitespace().map(|s| s.to_string()).collect());
        } else if let Some(rest) = t.strip_prefix("current :") {
            let rest = rest.split("<---").next().unwrap_or(rest);
            cur_row = Some(rest.split_whitespace().map(|s| s.to_string()).collect());
        }
    }
    if let Some(cur) = cur_row {
        let Some(w) = lay.packet_at(off) else {
            return Some(("rdh-row-at-non-rdh".into(), format!("message with an RDH row does not point at an RDH: {off:#x}")));
        };
        let want = expected_rdh_tokens(&w.rdh);
        if cur != want {
            return Some(("current-row-mismatch".into(), format!("`current` row {:?} differs from the RDH at {off:#x}: {:?}", cur, want)));
        }
        // the same link's (FEE's) preceding RDHs, oldest first, at most two
        let same = |r: &Rdh| if by_fee { r.fee_id == w.rdh.fee_id } else { r.link_id == w.rdh.link_id };
        let before: Vec<&Walked> = lay.walked.iter().filter(|x| x.offset < off && same(&x.rdh)).collect();
        let expect_prev: Vec<Vec<String>> = before.iter().rev().take(2).rev().map(|x| expected_rdh_tokens(&x.rdh)).collect();
        if prev_rows != expect_prev {
            return Some(("previous-rows-mismatch".into(), format!("`previous` rows {:?} differ from the preceding RDHs of the same link {:?}", prev_rows, expect_prev)));
        }
    }
    None
}

/// The number that follows `key` in `line` (0x-prefixed hexadecimal or decimal).
fn quoted_number(line: &str, key: &str) -> Option<u64> {
    let i = line.find(key)? + key.len();
    let rest = &line[i..];
    if let Some(h) = rest.strip_prefix("0x").or_else(|| rest.strip_prefix("0X")) {
        let d: String = h.chars().take_while(|c| c.is_ascii_hexdigit()).collect();
        u64::from_str_radix(&d, 16).ok()
    } else {
        let d: String = rest.chars().take_while(|c| c.is_ascii_digit()).collect();
        d.parse().ok()
    }
}

/// The statistics thread sorts the collected messages by their leading offset and extracts their codes: every
/// message must be acceptable to that stage (it parses `0x` + upper-case hex digits), and the sorted list must be
/// in ascending order of the offsets the messages really carry.
pub fn check_sortable(msgs: &[String]) -> Option<(String, String)> {
    use fastpasta::stats::stats_collector::StatsCollector;
    use fastpasta::stats::{StatType, SystemId};
    if msgs.is_empty() {
        return None;
    }
    let r = crate::val::guarded(|| {
        let mut c = StatsCollector::with_alpide_stats();
        c.collect(StatType::SystemId(SystemId::ITS));
        // the analysis thread announces the layer / stave of every RDH it sees (any 3-bit layer, 6-bit stave)
        for layer in 0..8u8 {
            for stave in 0..64u8 {
                c.collect(StatType::LayerStaveSeen { layer, stave });
            }
        }
        for m in msgs {
            c.collect(StatType::Error(m.clone().into_boxed_str()));
        }
        c.finalize(false);
        serde_json::to_value(&c).ok()
    });
    match r {
        Err(p) => {
            let bad = msgs.iter().find(|m| !m.starts_with("0x") || m[2..].chars().take_while(|c| *c != ':').any(|c| !(c.is_ascii_digit() || ('A'..='F').contains(&c)))).cloned().unwrap_or_default();
            Some((format!("message-rejected-by-the-error-sorter:{}", crate::val::panic_site(&p)), format!("the statistics collector panics on these messages ({p}); e.g. {}", first_line(&bad))))
        }
        Ok(v) => {
            let listed: Vec<u64> = v
                .as_ref()
                .and_then(|v| v["error_stats"]["reported_errors"].as_array().cloned())
                .unwrap_or_default()
                .iter()
                .filter_map(|m| m.as_str().and_then(rules::parse_error_message).map(|x| x.0))
                .collect();
            if listed.windows(2).any(|w| w[0] > w[1]) {
                let i = listed.windows(2).position(|w| w[0] > w[1]).unwrap();
                return Some(("messages-not-sorted-by-offset".into(), format!("after the collector's sort the message at {:#X} precedes the one at {:#X}", listed[i], listed[i + 1])));
            }
            None
        }
    }
}

fn first_line(m: &str) -> String {
    m.lines().next().unwrap_or("").chars().take(200).collect()
}

/// Finds the `[XX XX XX XX XX XX XX XX XX XX]` dump that ends the first line of a word-level message (dumps in
/// the context lines of frame-level messages quote *other* words and are not judged).
fn extract_dump(msg: &str) -> Option<Vec<u8>> {
    let msg = msg.lines().next().unwrap_or("").trim_end();
    if !msg.ends_with(']') {
        return None;
    }
    for (i, _) in msg.match_indices('[').collect::<Vec<_>>().into_iter().rev().take(1) {
        if let Some(j) = msg[i..].find(']') {
            let inner = &msg[i + 1..i + j];
            let toks: Vec<&str> = inner.split(' ').collect();
            if toks.len() == 10 && toks.iter().all(|t| t.len() == 2 && t.chars().all(|c| c.is_ascii_hexdigit())) {
                return Some(toks.iter().map(|t| u8::from_str_radix(t, 16).unwrap()).collect());
            }
        }
    }
    None
}
