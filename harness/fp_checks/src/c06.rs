//! C06 — each link is validated as if it were alone.
//!
//! Complete enumeration of order-preserving merges of 2-3 per-link packet sequences (conforming and corrupted) for
//! the shapes (3,3), (2,2,2), (4,4), (3,2,2); each merged stream goes through (1) the real multi-threaded CLI,
//! (2) the real scanner with --filter-link / --filter-fee / --filter-its-stave (in-process and CLI), (3) the
//! physically extracted single-link file, (4) one synchronous `LinkValidator` pass over the link's packets.
//! Differential oracle: per owning link, the ordered list of messages is the same in all of them once the leading
//! offsets are rewritten through the layout map.
use crate::c02::split_cli_errors;
use crate::lite::run_lite;
use crate::val::{self, Mode};
use fp_harness::cli::{Run, Scratch};
use fp_harness::par::par_map;
use fp_harness::{Reporter, Tier, Violation};
use fp_model::grammar::{self, HbfShape, LinkCfg, PacketT};
use fp_model::rules;
use fp_model::stream::Filter;
use fp_model::util::{hex, merges};
use serde_json::json;
use std::sync::Arc;

/// A per-link packet sequence with a name.
#[derive(Clone)]
struct Seq {
    name: String,
    packets: Vec<PacketT>,
}

fn link_sequences(link: u8, len: usize, stave: bool) -> Vec<Seq> {
    let mut cfg = match link {
        0 => LinkCfg::ib(0, 3),
        // links 1 and 2: same layer, staves that differ only in the top bit of the stave number (3 vs 35)
        1 => {
            let mut c = LinkCfg::ol(1, 3, false);
            c.data_format = 0;
            c
        }
        _ => LinkCfg::ol(2, 35, false),
    };
    if stave && link == 2 {
        // stave mode validates per FEE id: let two FEE ids share one link id (link 1), so that --filter-link selects
        // both and they must still be validated apart
        cfg.link_id = 1;
    }
    cfg.bc_step = 0x40;
    let shapes: Vec<HbfShape> = if stave { grammar::stave_hbf_shapes(&cfg) } else { grammar::basic_hbf_shapes(&cfg) }.into_iter().map(|s| s.1).collect();
    // HBF choices by requested length: 2 = one page + stop; 3 = continuation (2 pages + stop); 4 = two HBFs
    let hbfs: Vec<HbfShape> = match (len, stave) {
        (2, _) => vec![shapes[0].clone()],
        (3, false) => vec![shapes[6].clone()],
        (3, true) => vec![shapes[4].clone()],
        (_, false) => vec![shapes[2].clone(), shapes[1].clone()],
        (_, true) => vec![shapes[2].clone(), shapes[1].clone()],
    };
    let clean = grammar::render_link(&cfg, &hbfs);
    assert_eq!(clean.len(), len, "sequence length");
    let mut v = vec![Seq { name: format!("link{link}-clean"), packets: clean.clone() }];
    // corrupted variants (no fatal framing error, no RDH0 fault in the first packet)
    let mut a = clean.clone();
    {
        // TDT reserved bit in the first packet + running fault (page counter) in the last
        let p = &mut a[0];
        if let Some(wi) = p.words.iter().position(|w| w.kind == grammar::WKind::Tdt).or(Some(p.words.len() - 1)) {
            let off = p.word_rel_offset(wi) - 64;
            p.packet.payload[off + 7] |= 0x01;
        }
        let last = a.len() - 1;
        a[last].packet.rdh.pages_counter += 3;
    }
    v.push(Seq { name: format!("link{link}-tdt-reserved+page-counter"), packets: a });
    let mut b = clean.clone();
    {
        // a wrong identifier in the second packet's first word and a sanity fault in the last RDH
        let p = &mut b[1];
        p.packet.payload[9] = 0x3D;
        let last = b.len() - 1;
        b[last].packet.rdh.rdh1_reserved = 1;
        b[last].packet.rdh.detector_field |= 1 << 13;
    }
    v.push(Seq { name: format!("link{link}-bad-id+rdh-sanity"), packets: b });
    // header-only packets (memory size = offset to next = 64): stepped over without any payload to skip when another
    // link is selected by a filter
    let mut h = clean.clone();
    for p in h.iter_mut() {
        p.packet = fp_model::stream::Packet::framed(p.packet.rdh.clone(), Vec::new());
        p.words.clear();
    }
    v.push(Seq { name: format!("link{link}-header-only"), packets: h });
    // memory size smaller than the offset to the next RDH (the bytes in between are slot filler): harmless where
    // payloads are stepped over by the offset (RDH-only modes); used in `check all` only
    let mut m = clean.clone();
    for p in m.iter_mut().skip(1) {
        p.packet.rdh.memory_size = 64;
    }
    v.push(Seq { name: format!("link{link}-memory-size-below-offset"), packets: m });
    v
}

struct Layout {
    bytes: Arc<Vec<u8>>,
    /// per packet in file order: (offset in merged stream, owning link index, offset in that link's extracted file)
    map: Vec<(u64, usize, u64, u64)>, // merged offset, link, extracted offset, packet length
}

fn build(seqs: &[Seq], order: &[usize]) -> Layout {
    let mut cur = vec![0usize; seqs.len()];
    let mut ext = vec![0u64; seqs.len()];
    let mut bytes = Vec::new();
    let mut map = Vec::new();
    for &l in order {
        let p = &seqs[l].packets[cur[l]];
        cur[l] += 1;
        let pb = p.packet.bytes();
        map.push((bytes.len() as u64, l, ext[l], pb.len() as u64));
        ext[l] += pb.len() as u64;
        bytes.extend_from_slice(&pb);
    }
    Layout { bytes: Arc::new(bytes), map }
}

impl Layout {
    /// (owning link, offset rewritten to the link's extracted layout)
    fn rewrite(&self, off: u64) -> Option<(usize, u64)> {
        self.map.iter().find(|(m, _, _, len)| off >= *m && off < *m + *len).map(|(m, l, e, _)| (*l, e + (off - m)))
    }
    /// Splits messages per owning link with rewritten offsets (every `0x..` that points into the stream).
    fn per_link(&self, msgs: &[String], nlinks: usize) -> Result<Vec<Vec<String>>, String> {
        let mut out = vec![Vec::new(); nlinks];
        for m in msgs {
            let Some((off, _)) = rules::parse_error_message(m) else { return Err(format!("unparsable message {m}")) };
            let Some((l, _)) = self.rewrite(off) else { return Err(format!("message offset {off:#x} outside every packet: {}", m.lines().next().unwrap_or(""))) };
            out[l].push(self.rewrite_text(m));
        }
        Ok(out)
    }
    fn rewrite_text(&self, m: &str) -> String {
        // rewrite the leading offset and any "ending at 0x.." offset (stave-mode frame messages)
        let mut s = String::new();
        let mut rest = m;
        let mut first = true;
        while let Some(i) = rest.find("0x") {
            let (a, b) = rest.split_at(i);
            s.push_str(a);
            let hexlen = b[2..].chars().take_while(|c| c.is_ascii_hexdigit()).count();
            let tok = &b[..2 + hexlen];
            let is_offset = first || a.ends_with("ending at ");
            first = false;
            if is_offset && hexlen > 0 {
                let v = u64::from_str_radix(&b[2..2 + hexlen], 16).unwrap();
                match self.rewrite(v) {
                    Some((_, e)) => s.push_str(&format!("{:#X}", e)),
                    None => s.push_str(tok),
                }
            } else {
                s.push_str(tok);
            }
            rest = &b[2 + hexlen..];
        }
        s.push_str(rest);
        s
    }
}

fn reference(seq: &Seq, mode: Mode) -> Vec<String> {
    let mut off = 0u64;
    let pk: Vec<val::RawPacket> = seq
        .packets
        .iter()
        .map(|p| {
            let r = (p.packet.rdh.encode().to_vec(), p.packet.payload.clone(), off);
            off += p.packet.len() as u64;
            r
        })
        .collect();
    let o = val::validate_link(val::mode_cfg(mode), &pk);
    let mut v = o.errors();
    if let Some(p) = o.panic {
        v.push(format!("PANIC {p}"));
    }
    v.iter().map(|m| normalise(m)).collect()
}

fn normalise(m: &str) -> String {
    // offsets in messages are upper-case hex with 0x; keep as is but trim trailing whitespace of every line
    m.lines().map(|l| l.trim_end()).collect::<Vec<_>>().join("\n").trim_end().to_string()
}

fn compare(what: &str, got: &[String], want: &[String], link: usize) -> Option<(String, String)> {
    let g: Vec<String> = got.iter().map(|m| normalise(m)).collect();
    if g != want {
        let missing: Vec<&String> = want.iter().filter(|x| !g.contains(x)).collect();
        let extra: Vec<&String> = g.iter().filter(|x| !want.contains(x)).collect();
        let kind = if missing.is_empty() && extra.is_empty() { "order" } else if !extra.is_empty() { "extra" } else { "missing" };
        return Some((
            format!("isolation:{what}:{kind}"),
            format!(
                "link {link}: {what} differs from the single sequential pass: missing {:?}, extra {:?}",
                missing.first().map(|s| s.lines().next().unwrap_or("").chars().take(120).collect::<String>()),
                extra.first().map(|s| s.lines().next().unwrap_or("").chars().take(120).collect::<String>())
            ),
        ));
    }
    None
}

fn cli_messages(bytes: &[u8], mode: Mode, filter: Option<Filter>) -> Result<Vec<String>, String> {
    let scratch = Scratch::new("c06");
    let mut a = vec![scratch.file("in.raw", bytes).display().to_string()];
    a.extend(crate::c03::filter_args(filter));
    a.extend(mode.cli_args().iter().map(|s| s.to_string()));
    let r = Run::new(&a).cwd(&scratch.path).run();
    if r.crashed() {
        return Err(format!("crash signal {:?}: {}", r.signal, r.stderr_str().lines().find(|l| l.contains("panicked")).unwrap_or("")));
    }
    Ok(split_cli_errors(&r.stderr_str()))
}

struct Case {
    seqs: Vec<Seq>,
    order: Vec<usize>,
    mode: Mode,
    cli: bool,
}

fn run_case(c: &Case) -> Option<(String, String)> {
    let lay = build(&c.seqs, &c.order);
    let n = c.seqs.len();
    let refs: Vec<Vec<String>> = c.seqs.iter().map(|s| reference(s, c.mode)).collect();
    // (1)/(2) in-process: full run and filtered runs through the real scanner
    let full = run_lite(lay.bytes.clone(), c.mode, None, false);
    if let Some(p) = full.panic {
        return Some((format!("panic:{}", val::panic_site(&p)), p));
    }
    match lay.per_link(&full.errors, n) {
        Err(e) => return Some(("isolation:offset".into(), e)),
        Ok(per) => {
            for l in 0..n {
                if let Some(x) = compare("full-run", &per[l], &refs[l], l) {
                    return Some(x);
                }
            }
        }
    }
    for l in 0..n {
        let r0 = &c.seqs[l].packets[0].packet.rdh;
        for (fname, f) in [("filter-link", Filter::Link(r0.link_id)), ("filter-fee", Filter::Fee(r0.fee_id)), ("filter-stave", Filter::LayerStave(r0.fee_id))] {
            let o = run_lite(lay.bytes.clone(), c.mode, Some(f), false);
            if let Some(p) = o.panic {
                return Some((format!("panic:{}", val::panic_site(&p)), p));
            }
            match lay.per_link(&o.errors, n) {
                Err(e) => return Some((format!("isolation:{fname}:offset"), e)),
                Ok(per) => {
                    if let Some(x) = compare(fname, &per[l], &refs[l], l) {
                        return Some(x);
                    }
                    for other in 0..n {
                        if other == l {
                            continue;
                        }
                        let o0 = &c.seqs[other].packets[0].packet.rdh;
                        if f.matches(o0) {
                            // another unit selected by the same filter value (two FEE ids on one link): judged alone too
                            if let Some(x) = compare(fname, &per[other], &refs[other], other) {
                                return Some(x);
                            }
                        } else if !per[other].is_empty() {
                            return Some((format!("isolation:{fname}:leak"), format!("filtering for link {l} reported messages owned by link {other}")));
                        }
                    }
                }
            }
        }
    }
    if c.cli {
        // (1) the real multi-threaded pipeline
        match cli_messages(&lay.bytes, c.mode, None) {
            Err(e) => return Some(("cli-crash".into(), e)),
            Ok(msgs) => match lay.per_link(&msgs, n) {
                Err(e) => return Some(("isolation:cli:offset".into(), e)),
                Ok(per) => {
                    for l in 0..n {
                        if let Some(x) = compare("cli-full-run", &per[l], &refs[l], l) {
                            return Some(x);
                        }
                    }
                }
            },
        }
        // (3) the extracted single-link file, and (2) the filter on the CLI, for one link in rotation (stave mode: the
        //     unit whose link id is shared by two FEE ids, when there is one)
        let shared = (0..n).find(|u| (0..n).any(|v| v != *u && c.seqs[v].packets[0].packet.rdh.link_id == c.seqs[*u].packets[0].packet.rdh.link_id));
        let l = shared.unwrap_or(c.order.len() % n);
        let ext: Vec<u8> = c.seqs[l].packets.iter().flat_map(|p| p.packet.bytes()).collect();
        match cli_messages(&ext, c.mode, None) {
            Err(e) => return Some(("cli-crash".into(), e)),
            Ok(msgs) => {
                if let Some(x) = compare("cli-extracted-file", &msgs, &refs[l], l) {
                    return Some(x);
                }
            }
        }
        let r0 = &c.seqs[l].packets[0].packet.rdh;
        match cli_messages(&lay.bytes, c.mode, Some(Filter::Link(r0.link_id))) {
            Err(e) => return Some(("cli-crash".into(), e)),
            Ok(msgs) => match lay.per_link(&msgs, n) {
                Err(e) => return Some(("isolation:cli-filter:offset".into(), e)),
                Ok(per) => {
                    for u in 0..n {
                        if c.seqs[u].packets[0].packet.rdh.link_id == r0.link_id {
                            if let Some(x) = compare("cli-filter-link", &per[u], &refs[u], u) {
                                return Some(x);
                            }
                        }
                    }
                }
            },
        }
    }
    None
}

pub fn run(tier: Tier) -> i32 {
    val::init_process();
    let mut rep = Reporter::new("C06", tier, "exploration");
    let shapes: Vec<Vec<usize>> = if tier.is_thorough() { vec![vec![3, 3], vec![2, 2, 2], vec![4, 4], vec![3, 2, 2]] } else { vec![vec![3, 3], vec![2, 2, 2]] };
    let mut cases: Vec<Case> = Vec::new();
    for sh in &shapes {
        let all_merges = merges(sh);
        for (mode, stave) in [(Mode::AllIts, false), (Mode::All, false), (Mode::AllStave, true)] {
            // sequence variants per link: clean / two corrupted; combinations: all-clean, one corrupted link at a time,
            // all corrupted
            let per_link: Vec<Vec<Seq>> = sh.iter().enumerate().map(|(l, len)| link_sequences(l as u8, *len, stave)).collect();
            let mut combos: Vec<Vec<usize>> = vec![vec![0; sh.len()], vec![1; sh.len()], vec![2; sh.len()]];
            for l in 0..sh.len() {
                let mut c = vec![0; sh.len()];
                c[l] = 1 + l % 2;
                combos.push(c);
            }
            if mode == Mode::All {
                for l in 0..sh.len() {
                    let mut c = vec![1; sh.len()];
                    c[l] = 4;
                    combos.insert(1, c);
                }
            }
            // one link made of header-only packets beside corrupted ones (three links: the header-only packet is then
            // also the second of two stepped-over packets for some filter)
            if !stave {
                let mut c = vec![1; sh.len()];
                c[sh.len() - 1] = 3;
                combos.insert(1, c);
            }
            for (ci, combo) in combos.iter().enumerate() {
                if !tier.is_thorough() && mode != Mode::AllIts && ci > 1 && !combo.iter().any(|v| *v >= 3) {
                    continue;
                }
                let seqs: Vec<Seq> = combo.iter().enumerate().map(|(l, v)| per_link[l][*v].clone()).collect();
                for (mi, order) in all_merges.iter().enumerate() {
                    cases.push(Case { seqs: seqs.clone(), order: order.clone(), mode, cli: tier.is_thorough() || (mi + ci) % 5 == 0 });
                }
            }
        }
    }
    // long streams (more than two reader batches of 100 packets): header corruption on link A right before / at /
    // after a batch boundary of the merged file must not change what is reported for link B
    {
        let mut ca = LinkCfg::ib(0, 3);
        ca.bc_step = 0x10;
        let mut cb = LinkCfg::ol(1, 3, false);
        cb.data_format = 0;
        cb.bc_step = 0x10;
        let one = |c: &LinkCfg| grammar::basic_hbf_shapes(c)[0].1.clone();
        let a_clean = grammar::render_link(&ca, &vec![one(&ca); 53]);
        let mut b_err = grammar::render_link(&cb, &vec![one(&cb); 53]);
        {
            let last = b_err.len() - 1;
            b_err[last].packet.rdh.pages_counter += 3;
            let p = &mut b_err[60];
            if let Some(wi) = p.words.iter().position(|w| w.kind == grammar::WKind::Tdt) {
                let off = p.word_rel_offset(wi) - 64;
                p.packet.payload[off + 7] |= 0x01;
            }
        }
        let order: Vec<usize> = (0..a_clean.len() + b_err.len()).map(|i| i % 2).collect();
        let kinds: Vec<(&str, Box<dyn Fn(&mut fp_model::rdh::Rdh)>)> = vec![
            ("system id 0", Box::new(|r| r.system_id = 0)),
            ("system id 0xFF", Box::new(|r| r.system_id = 0xFF)),
            ("header version 6", Box::new(|r| r.header_id = 6)),
            ("orbit jump", Box::new(|r| r.orbit = r.orbit.wrapping_add(0x1000))),
            ("trigger type 0", Box::new(|r| r.trigger_type = 0)),
            ("data format 0xFF", Box::new(|r| r.data_format = 0xFF)),
        ];
        for (kname, k) in &kinds {
            for ai in [49usize, 50, 51, 100] {
                let mut a = a_clean.clone();
                k(&mut a[ai].packet.rdh);
                let seqs = vec![Seq { name: format!("linkA-{kname}-at-file-packet-{}", 2 * ai), packets: a }, Seq { name: "linkB-tdt-reserved+page-counter".into(), packets: b_err.clone() }];
                cases.push(Case { seqs, order: order.clone(), mode: Mode::AllIts, cli: true });
            }
        }
    }
    let res = par_map(&cases, |_, c| run_case(c));
    let mut with_errors = 0u64;
    for (c, r) in cases.iter().zip(res.iter()) {
        if c.seqs.iter().any(|s| !s.name.ends_with("clean")) {
            with_errors += 1;
        }
        if let Some((sig, d)) = r {
            let lay = build(&c.seqs, &c.order);
            rep.violation(Violation {
                signature: sig.clone(),
                description: format!("{d} [sequences {:?}, merge {:?}, {}]", c.seqs.iter().map(|s| s.name.clone()).collect::<Vec<_>>(), c.order, c.mode.name()),
                replay: json!({"mode": c.mode.name(), "merge": c.order, "sequences": c.seqs.iter().map(|s| s.name.clone()).collect::<Vec<_>>(), "stream_hex": hex(&lay.bytes)}),
            });
        }
    }
    rep.cov("evaluations", json!(cases.len()));
    rep.cov("distinct_nontrivial", json!(with_errors));
    rep.cov("cli_cases", json!(cases.iter().filter(|c| c.cli).count()));
    rep.cov("shapes", json!(shapes));
    rep.cov("exhaustive", json!(true));
    rep.cov("rule", json!("every order-preserving merge of per-link sequences for the listed shapes x {all clean, all corrupted (2 variants), one corrupted link at a time} x {check all its, check all, check all its-stave (frames)}; legs: in-process scanner+validators (full run, --filter-link/-fee/-its-stave for every link), CLI full run / extracted file / --filter-link (every 5th merge in quick, all in thorough), reference = one synchronous LinkValidator pass; two links x 106 packets round robin (3 reader batches) with 6 kinds of header corruption (none that changes which filter selects the packet) on one link at merged-file packets 98/100/102/200 and errors on the other. non-trivial = at least one link carries errors"));
    rep.sample(json!({"shape": [3, 3], "merge": [0, 1, 1, 0, 0, 1], "sequences": ["link0-tdt-reserved+page-counter", "link1-clean"]}));
    rep.assume("excluded, as by the property's reading in DESIGN.md: streams with a fatal framing error or unknown system id; sequences whose first packet has an RDH0 fault (extraction / filter legs)");
    rep.finish()
}

pub fn replay(v: &serde_json::Value) -> i32 {
    // the cases of this check are enumerated, not stored: re-run the deterministic enumeration for the signature
    fp_harness::report::replay_by_rerun(v, &|tier| run(tier))
}
