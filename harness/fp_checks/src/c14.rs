//! C14 — statistics equal ground truth computed from the input.
//!
//! CLI enumeration: streams (arbitrary header values, interleavings, counts beyond a batch, payload totals beyond
//! 2^16, conforming multi-link streams, streams with k known faults) x modes (5 checks, 3 views, filtered writing)
//! x filters, statistics file (JSON and TOML) and report table compared with an independent calculator.
use crate::c02::{strip_ansi, witnesses};
use crate::c03::filter_args;
use crate::gen;
use fp_harness::cli::{Run, Scratch};
use fp_harness::par::par_map;
use fp_harness::{Reporter, Tier, Violation};
use fp_model::grammar;
use fp_model::stream::{self, Filter};
use fp_model::util::hex;
use serde_json::{json, Value};

#[derive(Clone, Debug, PartialEq)]
pub struct Expected {
    pub rdhs_seen: u64,
    pub rdhs_filtered: u64,
    pub payload_size: u64,
    pub links: Vec<u64>,
    pub fee_ids: Vec<u64>,
    pub rdh_version: u64,
    pub data_format: u64,
    pub run_trigger: u64,
    pub hbfs: u64,
    pub layer_staves: Vec<(u64, u64)>,
    pub trigger_bits: Vec<u64>, // 20 counters in the documented order
    /// detector name of the first RDH's system id (ALICE source-id table), None if unknown
    pub system_name: Option<&'static str>,
}

/// ALICE detector source ids (O2 DAQ source-id table).
pub fn system_name(id: u8) -> Option<&'static str> {
    Some(match id {
        3 => "TPC",
        4 => "TRD",
        5 => "TOF",
        6 => "HMP",
        7 => "PHS",
        8 => "CPV",
        10 => "MCH",
        15 => "ZDC",
        17 => "TRG",
        18 => "EMC",
        19 => "TST",
        32 => "ITS",
        33 => "FDD",
        34 => "FT0",
        35 => "FV0",
        36 => "MFT",
        37 => "MID",
        38 => "DCS",
        39 => "FOC",
        255 => "Unloaded",
        _ => return None,
    })
}

pub const TRIGGER_FIELDS: [(&str, u32); 20] = [
    ("orbit", 0), ("hb", 1), ("hbr", 2), ("hc", 3), ("pht", 4), ("pp", 5), ("cal", 6), ("sot", 7), ("eot", 8), ("soc", 9),
    ("eoc", 10), ("tf", 11), ("fe_rst", 12), ("rt", 13), ("rs", 14), ("lhc_gap1", 27), ("lhc_gap2", 28), ("tpc_sync", 29), ("tpc_rst", 30), ("tof", 31),
];

/// The independent calculator. `analysed`: packets are analysed (check / view modes), not just written.
pub fn expected(bytes: &[u8], filter: Option<Filter>, analysed: bool) -> Expected {
    let (walked, _) = stream::walk(bytes);
    let delivered: Vec<&stream::Walked> = walked.iter().filter(|w| filter.map_or(true, |f| f.matches(&w.rdh))).collect();
    let mut links: Vec<u64> = walked.iter().map(|w| w.rdh.link_id as u64).collect();
    links.sort();
    links.dedup();
    let mut fee_ids: Vec<u64> = Vec::new();
    for w in &walked {
        if !fee_ids.contains(&(w.rdh.fee_id as u64)) {
            fee_ids.push(w.rdh.fee_id as u64);
        }
    }
    let mut layer_staves: Vec<(u64, u64)> = Vec::new();
    let mut trig = vec![0u64; 20];
    let mut hbfs = 0;
    if analysed {
        for w in &delivered {
            let ls = (((w.rdh.fee_id >> 12) & 7) as u64, (w.rdh.fee_id & 0x3F) as u64);
            if !layer_staves.contains(&ls) {
                layer_staves.push(ls);
            }
            for (i, (_, bit)) in TRIGGER_FIELDS.iter().enumerate() {
                if w.rdh.trigger_type & (1u32 << bit) != 0 {
                    trig[i] += 1;
                }
            }
            if w.rdh.stop_bit == 1 {
                hbfs += 1;
            }
        }
    }
    Expected {
        rdhs_seen: walked.len() as u64,
        rdhs_filtered: if filter.is_some() { delivered.len() as u64 } else { 0 },
        payload_size: delivered.iter().map(|w| (w.payload.1 - w.payload.0) as u64).sum(),
        links,
        fee_ids,
        rdh_version: walked[0].rdh.header_id as u64,
        data_format: walked[0].rdh.data_format as u64,
        run_trigger: walked[0].rdh.trigger_type as u64,
        hbfs,
        layer_staves,
        trigger_bits: trig,
        system_name: system_name(walked[0].rdh.system_id),
    }
}

/// Compares the `rdh_stats` object of a statistics file with the expectation; returns the first differing field.
pub fn compare_stats(st: &Value, e: &Expected) -> Option<(String, String)> {
    let r = &st["rdh_stats"];
    let num = |v: &Value| v.as_u64();
    let checks: Vec<(&str, Option<u64>, u64)> = vec![
        ("rdhs_seen", num(&r["rdhs_seen"]), e.rdhs_seen),
        ("rdhs_filtered", num(&r["rdhs_filtered"]), e.rdhs_filtered),
        ("payload_size", num(&r["payload_size"]), e.payload_size),
        ("rdh_version", num(&r["rdh_version"]), e.rdh_version),
        ("data_format", num(&r["data_format"]), e.data_format),
        ("hbfs_seen", num(&r["hbfs_seen"]), e.hbfs),
        ("run_trigger_type", num(&r["run_trigger_type"][0]), e.run_trigger),
    ];
    for (name, got, want) in checks {
        if got != Some(want) {
            return Some((name.to_string(), format!("{name} = {:?}, computed from the input: {want}", got)));
        }
    }
    let arr = |v: &Value| -> Vec<u64> { v.as_array().map(|a| a.iter().filter_map(|x| x.as_u64()).collect()).unwrap_or_default() };
    if arr(&r["links"]) != e.links {
        return Some(("links".into(), format!("links = {:?}, expected sorted set {:?}", arr(&r["links"]), e.links)));
    }
    if arr(&r["fee_id"]) != e.fee_ids {
        return Some(("fee_id".into(), format!("fee_id = {:?}, expected first-seen order {:?}", arr(&r["fee_id"]), e.fee_ids)));
    }
    if r["system_id"].as_str() != e.system_name {
        return Some(("system_id".into(), format!("system_id = {}, the first RDH's system id means {:?}", r["system_id"], e.system_name)));
    }
    if e.system_name != Some("ITS") {
        // layer / stave pairs are an ITS statistic
        return trigger_compare(r, e);
    }
    let ls: Vec<(u64, u64)> = r["its_stats"]["layer_staves_seen"].as_array().map(|a| a.iter().map(|p| (p[0].as_u64().unwrap_or(99), p[1].as_u64().unwrap_or(99))).collect()).unwrap_or_default();
    if ls != e.layer_staves {
        return Some(("layer_staves_seen".into(), format!("layer_staves_seen = {:?}, expected {:?}", ls, e.layer_staves)));
    }
    trigger_compare(r, e)
}

fn trigger_compare(r: &Value, e: &Expected) -> Option<(String, String)> {
    for (i, (name, _)) in TRIGGER_FIELDS.iter().enumerate() {
        if r["trigger_stats"][*name].as_u64() != Some(e.trigger_bits[i]) {
            return Some((format!("trigger_stats.{name}"), format!("trigger_stats.{name} = {}, expected {}", r["trigger_stats"][*name], e.trigger_bits[i])));
        }
    }
    None
}

struct Case {
    label: String,
    bytes: Vec<u8>,
    mode: Vec<&'static str>,
    filter: Option<Filter>,
    /// expected total errors / distinct codes when known
    errors: Option<(u64, Vec<&'static str>)>,
    toml: bool,
    stdin: bool,
}

fn analysed(mode: &[&str]) -> bool {
    mode[0] == "check" || mode[0] == "view"
}

pub fn toml_to_json(t: &str) -> Option<Value> {
    toml::from_str::<Value>(t).ok()
}

fn run_case(c: &Case) -> Option<(String, String)> {
    let scratch = Scratch::new("c14");
    let mut a: Vec<String> = Vec::new();
    if !c.stdin {
        a.push(scratch.file("in.raw", &c.bytes).display().to_string());
    }
    a.extend(filter_args(c.filter));
    if let Some(t) = c.label.strip_prefix("CUSTOM:") {
        a.extend(["-c".to_string(), scratch.file("checks.toml", t.as_bytes()).display().to_string()]);
    }
    let statp = scratch.join(if c.toml { "st.toml" } else { "st.json" });
    a.extend(["-S".to_string(), statp.display().to_string(), "-D".to_string(), if c.toml { "toml" } else { "json" }.to_string()]);
    let mut mode: Vec<String> = c.mode.iter().map(|s| s.to_string()).collect();
    if mode[0] == "-o" {
        mode[1] = scratch.join("out.raw").display().to_string();
    }
    if mode[0] == "SCAN" {
        mode.clear();
    }
    a.extend(mode);
    // every other case finds an older, longer statistics file at the destination: it must be replaced, not patched
    if fp_model::util::fnv(format!("{}{:?}{}", c.label, c.mode, c.bytes.len()).as_bytes()) % 2 == 0 {
        let stale = if c.toml { "# stale\n".repeat(40_000) } else { format!("{{\"stale\": \"{}\"}}", "x".repeat(300_000)) };
        let _ = std::fs::write(&statp, stale);
    }
    let mut run = Run::new(&a).cwd(&scratch.path);
    if c.stdin {
        run = run.stdin(&c.bytes);
    }
    let r = run.run();
    if r.crashed() {
        return Some(("crash".into(), format!("signal {:?} / timeout {}", r.signal, r.timed_out)));
    }
    let text = match std::fs::read_to_string(&statp) {
        Ok(t) => t,
        Err(e) => return Some(("no-stats-file".into(), format!("{e}; stderr: {}", r.stderr_str().chars().take(200).collect::<String>()))),
    };
    let st: Value = if c.toml {
        match toml_to_json(&text) {
            Some(v) => v,
            None => return Some(("stats-unreadable".into(), "TOML statistics could not be read".into())),
        }
    } else {
        match serde_json::from_str(&text) {
            Ok(v) => v,
            Err(e) => return Some(("stats-unreadable".into(), format!("JSON: {e}"))),
        }
    };
    let e = expected(&c.bytes, c.filter, analysed(&c.mode));
    if let Some((f, d)) = compare_stats(&st, &e) {
        return Some((format!("stat:{f}"), d));
    }
    // whatever the input: the code list of the statistics names every code that occurs in the listed messages, once
    {
        let es = &st["error_stats"];
        let got: Vec<String> = es["unique_error_codes"].as_array().map(|a| a.iter().map(|x| x.as_str().unwrap_or("").to_string()).collect()).unwrap_or_default();
        let mut want: Vec<String> = Vec::new();
        let mut listed = 0u64;
        for key in ["reported_errors", "custom_checks_stats_errors"] {
            for m in es[key].as_array().cloned().unwrap_or_default() {
                listed += 1;
                let m = m.as_str().unwrap_or("").to_string();
                let mut rest = m.as_str();
                while let Some(i) = rest.find("[E") {
                    let tail = &rest[i + 2..];
                    let digits: String = tail.chars().take_while(|c| c.is_ascii_digit()).collect();
                    if (2..=4).contains(&digits.len()) && tail[digits.len()..].starts_with(']') && !want.contains(&digits) {
                        want.push(digits);
                    }
                    rest = tail;
                }
            }
        }
        let mut g = got.clone();
        g.sort();
        let mut w = want.clone();
        w.sort();
        if g != w {
            return Some(("stat:unique_error_codes:vs-listed-messages".into(), format!("unique_error_codes = {:?}, the listed messages carry the codes {:?}", got, want)));
        }
        // a message that quotes the per-bit trigger counts quotes the counters of this very file
        for m in es["custom_checks_stats_errors"].as_array().cloned().unwrap_or_default() {
            let m = m.as_str().unwrap_or("").to_string();
            if let Some(i) = m.find("Trigger statistics:") {
                for line in m[i..].lines().skip(1) {
                    let mut it = line.split(':');
                    let (Some(name), Some(val)) = (it.next(), it.next()) else { continue };
                    let (name, val) = (name.trim().to_lowercase(), val.trim());
                    if name.is_empty() || val.is_empty() {
                        continue;
                    }
                    let counter = &st["rdh_stats"]["trigger_stats"][name.as_str()];
                    if counter.as_u64().map(|c| c.to_string()) != Some(val.to_string()) {
                        return Some(("stat:trigger-counts-quoted-in-message".into(), format!("the [E9002] message quotes {name} = {val}, rdh_stats.trigger_stats.{name} = {counter}")));
                    }
                }
            }
        }
        if es["total_errors"].as_u64().is_some() && es["total_errors"].as_u64() != Some(listed) {
            return Some(("stat:total_errors:vs-listed-messages".into(), format!("total_errors = {}, {} messages are listed", es["total_errors"], listed)));
        }
    }
    if let Some((n, codes)) = &c.errors {
        if st["error_stats"]["total_errors"].as_u64() != Some(*n) {
            return Some(("stat:total_errors".into(), format!("total_errors = {}, the input carries {n} faults", st["error_stats"]["total_errors"])));
        }
        let got: Vec<String> = st["error_stats"]["unique_error_codes"].as_array().map(|a| a.iter().map(|x| x.as_str().unwrap_or("").to_string()).collect()).unwrap_or_default();
        let want: Vec<String> = codes.iter().map(|s| s.to_string()).collect();
        if got != want {
            return Some(("stat:unique_error_codes".into(), format!("unique_error_codes = {:?}, expected {:?}", got, want)));
        }
        let listed = st["error_stats"]["reported_errors"].as_array().map(|a| a.len() as u64).unwrap_or(0) + st["error_stats"]["custom_checks_stats_errors"].as_array().map(|a| a.len() as u64).unwrap_or(0);
        if listed != *n {
            return Some(("stat:reported_errors".into(), "reported_errors length differs from total_errors".into()));
        }
    }
    // the report table (not printed for views / data on stdout)
    if c.mode[0] == "check" || c.mode[0] == "-o" {
        let out = strip_ansi(&r.stdout_str());
        let row = |name: &str| -> Option<String> {
            out.lines().find(|l| l.contains(name)).map(|l| l.split(name).nth(1).unwrap_or("").split_whitespace().next().unwrap_or("").trim_matches('│').to_string())
        };
        if row("Total RDHs").as_deref() != Some(&e.rdhs_seen.to_string()) {
            return Some(("report:Total RDHs".into(), format!("report shows Total RDHs {:?}, input has {}", row("Total RDHs"), e.rdhs_seen)));
        }
        if let Some((n, _)) = &c.errors {
            if row("Total Errors").as_deref() != Some(&n.to_string()) {
                return Some(("report:Total Errors".into(), format!("report shows Total Errors {:?}, expected {n}", row("Total Errors"))));
            }
        }
        // the other rows of the report: the whole cell up to the next column (two blanks) or the table border
        let cell = |name: &str| -> Option<String> {
            out.lines().find(|l| l.contains(name)).map(|l| {
                let rest = l.split(name).nth(1).unwrap_or("").trim_start();
                let end = rest.find("  ").unwrap_or(rest.len());
                rest[..end].trim_matches(|ch| ch == '│' || ch == '|' || ch == ' ').to_string()
            })
        };
        let nums = |s: &str| -> Vec<u64> { s.split(|ch: char| !ch.is_ascii_digit()).filter(|x| !x.is_empty()).filter_map(|x| x.parse().ok()).collect() };
        let want_links: Vec<u64> = e.links.clone();
        if cell("Links observed").map(|v| nums(&v)) != Some(want_links.clone()) {
            return Some(("report:Links observed".into(), format!("report shows links {:?}, the input has {:?}", cell("Links observed"), want_links)));
        }
        let mut want_fees = e.fee_ids.clone();
        want_fees.sort();
        // the FEE id cell may run over several lines and end with "... N more": listed ids + N = all ids, and the
        // listed ones are the smallest ones in ascending order
        let lines: Vec<&str> = out.lines().collect();
        let mut got_fees: Vec<u64> = Vec::new();
        let mut more: u64 = 0;
        if let Some(i0) = lines.iter().position(|l| l.contains("FEE IDs seen")) {
            let mut chunk = lines[i0].split("FEE IDs seen").nth(1).unwrap_or("").to_string();
            for l in lines.iter().skip(i0 + 1) {
                let inner = l.trim_matches(|ch: char| ch == '│' || ch == '|' || ch == ' ');
                let first = inner.split_whitespace().next().unwrap_or("");
                if first.chars().all(|ch| ch.is_ascii_digit()) && !first.is_empty() || inner.starts_with("...") {
                    chunk.push(' ');
                    chunk.push_str(inner);
                } else {
                    break;
                }
            }
            if let Some(k) = chunk.find("...") {
                more = nums(&chunk[k..]).first().copied().unwrap_or(0);
                chunk.truncate(k);
            }
            got_fees = nums(&chunk);
        }
        let listed_ok = got_fees.len() as u64 + more == want_fees.len() as u64 && want_fees.iter().take(got_fees.len()).eq(got_fees.iter());
        if !listed_ok {
            return Some(("report:FEE IDs seen".into(), format!("report lists {} FEE IDs {:?}... and {} more, the input has {} ({:?}...)", got_fees.len(), got_fees.iter().take(6).collect::<Vec<_>>(), more, want_fees.len(), want_fees.iter().take(6).collect::<Vec<_>>())));
        }
        if cell("Run Trigger Type").map(|v| v.to_lowercase()) != Some(format!("{:#x}", e.run_trigger)) {
            return Some(("report:Run Trigger Type".into(), format!("report shows run trigger type {:?}, the first RDH has {:#x}", cell("Run Trigger Type"), e.run_trigger)));
        }
        if cell("RDH Version") != Some(e.rdh_version.to_string()) {
            return Some(("report:RDH Version".into(), format!("report shows RDH version {:?}, the input has {}", cell("RDH Version"), e.rdh_version)));
        }
        if cell("System ID").as_deref() != e.system_name {
            return Some(("report:System ID".into(), format!("report shows system {:?}, the first RDH's system id means {:?}", cell("System ID"), e.system_name)));
        }
        if cell("Data Format") != Some(e.data_format.to_string()) {
            return Some(("report:Data Format".into(), format!("report shows data format {:?}, the input has {}", cell("Data Format"), e.data_format)));
        }
        if c.mode[0] == "check" && c.filter.is_none() && cell("Total HBFs") != Some(e.hbfs.to_string()) {
            return Some(("report:Total HBFs".into(), format!("report shows Total HBFs {:?}, the input has {} stop-bit packets", cell("Total HBFs"), e.hbfs)));
        }
        if c.mode[0] == "check" && c.filter.is_none() {
            // Data size rows: total = RDHs x 64 + payload bytes, in the report's units (B up to 1024, then KiB / MiB
            // with two decimals)
            let fmt_size = |n: u64| -> String {
                match n {
                    0..=1024 => format!("{n} B"),
                    1025..=1048576 => format!("{:.2} KiB", n as f64 / 1024.0),
                    1048577..=1073741824 => format!("{:.2} MiB", n as f64 / 1048576.0),
                    _ => format!("{:.2} GiB", n as f64 / 1073741824.0),
                }
            };
            let rdh_bytes = e.rdhs_seen * 64;
            if cell("Data size") != Some(fmt_size(rdh_bytes + e.payload_size)) {
                return Some(("report:Data size".into(), format!("report shows data size {:?}, the input has {} RDH bytes + {} payload bytes = {}", cell("Data size"), rdh_bytes, e.payload_size, fmt_size(rdh_bytes + e.payload_size))));
            }
            if cell("RDHs:") != Some(fmt_size(rdh_bytes)) || cell("Payloads:") != Some(fmt_size(e.payload_size)) {
                return Some(("report:Data size parts".into(), format!("report shows RDHs {:?} / Payloads {:?}, expected {} / {}", cell("RDHs:"), cell("Payloads:"), fmt_size(rdh_bytes), fmt_size(e.payload_size))));
            }
            // Layers/Staves: every pair seen, sorted
            let mut want_ls: Vec<(u64, u64)> = e.layer_staves.clone();
            want_ls.sort();
            let mut got_ls: Vec<(u64, u64)> = Vec::new();
            for tok in out.split(|ch: char| ch.is_whitespace() || ch == '│' || ch == '|') {
                if let Some(rest) = tok.strip_prefix('L') {
                    if let Some((l, s2)) = rest.split_once('_') {
                        if let (Ok(l), Ok(s2)) = (l.parse::<u64>(), s2.parse::<u64>()) {
                            got_ls.push((l, s2));
                        }
                    }
                }
            }
            if e.system_name == Some("ITS") && got_ls != want_ls {
                return Some(("report:Layers/Staves".into(), format!("report lists layer/stave pairs {:?}, the analysed packets carry {:?}", got_ls, want_ls)));
            }
        }
        if c.filter.is_some() {
            // FILTER STATS block: the RDHs row there is the number of matching packets
            let frow = out.lines().find(|l| l.contains("RDHs  ") && !l.contains("Total RDHs") && !l.contains("RDHs:")).map(|l| nums(l.split("RDHs").nth(1).unwrap_or("")).first().copied());
            if let Some(got) = frow {
                if got != Some(e.rdhs_filtered) {
                    return Some(("report:Filter RDHs".into(), format!("filter statistics show {:?} RDHs, {} packets match the filter", got, e.rdhs_filtered)));
                }
            }
        }
    }
    None
}

fn modes() -> Vec<Vec<&'static str>> {
    vec![
        vec!["check", "sanity"],
        vec!["check", "sanity", "its"],
        vec!["check", "all"],
        vec!["check", "all", "its"],
        vec!["check", "all", "its-stave"],
        vec!["view", "rdh"],
        vec!["view", "its-readout-frames"],
        vec!["view", "its-readout-frames-data"],
        vec!["-o", "OUT"],
        // no sub-command, no output: the input is only scanned, the statistics file (-S) is the result (no report is
        // printed: stdout is the default destination of data)
        vec!["SCAN"],
    ]
}

pub fn run(tier: Tier) -> i32 {
    let mut rep = Reporter::new("C14", tier, "exploration");
    let mut cases: Vec<Case> = Vec::new();
    // 1. arbitrary headers, interleaved links, counts around the batch, big payloads
    let mut streams: Vec<(String, Vec<u8>)> = Vec::new();
    for (n, big) in [(1usize, false), (5, false), (12, true), (100, false), (101, false), (201, false), (1000, false), (70_000, false)] {
        // 1000 packets: every counter beyond 255; 70 000 (thorough): counters beyond 65 535
        if !tier.is_thorough() && n == 70_000 {
            continue;
        }
        let pattern: Vec<u8> = (0..n).map(|i| ((i * 5 + i / 4) % 3) as u8).collect();
        let mut pk = gen::recognisable_pattern_stream(&pattern, 11_000 + n as u64);
        if big {
            for (i, p) in pk.iter_mut().enumerate() {
                *p = gen::recognisable_framed(p.rdh.link_id, p.rdh.fee_id, [10_000, 9_984, 7_000][i % 3], 12_000 + i as u64);
            }
        }
        // keep the stop bit and data format sane for the scanner-independent parts; everything else is arbitrary
        for p in pk.iter_mut() {
            p.rdh.stop_bit &= 1;
        }
        streams.push((format!("arbitrary headers x{n}{}", if big { " big payloads" } else { "" }), stream::to_bytes(&pk)));
        // the same stream with packets of another (valid) detector mixed in - every third packet, among them packets
        // that open a reader batch: the run's detector is the one of the first RDH, for the whole run
        if n == 201 || n == 1000 {
            for (i, p) in pk.iter_mut().enumerate() {
                if i % 3 == 1 {
                    p.rdh.system_id = 36;
                }
                // staves that occur only in the second / a later reader batch (which opens with such a packet)
                if (150..160).contains(&i) || (i >= 400 && i % 97 == 0) {
                    p.rdh.fee_id = fp_model::rdh::Rdh::its_fee_id(6, 20 + (i % 20) as u8, 0);
                }
            }
            streams.push((format!("arbitrary headers x{n}, every third packet of system id 36"), stream::to_bytes(&pk)));
        }
    }
    // one FEE id shared by four links (link and FEE are not 1:1): under a link filter the reader skips runs of four
    // packets that differ in their link only - every link and FEE seen must still be counted (wave 25)
    {
        let mut pk: Vec<_> = (0..60usize)
            .map(|i| {
                let l = (i % 5) as u8;
                gen::recognisable_framed(l, if l == 0 { gen::fee_of_link(0) } else { gen::fee_of_link(1) }, [0usize, 32, 160][i % 3], 13_000_000 + i as u64)
            })
            .collect();
        for p in pk.iter_mut() {
            p.rdh.stop_bit &= 1;
        }
        streams.push(("one FEE id shared by four links, runs of four skipped packets".into(), stream::to_bytes(&pk)));
    }
    for (name, bytes) in &streams {
        let (walked, _) = stream::walk(bytes);
        let l0 = walked[0].rdh.link_id;
        for m in modes() {
            let mut fl: Vec<Option<Filter>> = if m[0] == "-o" { vec![] } else { vec![None] };
            if m[0] != "SCAN" {
                fl.extend([Some(Filter::Link(l0)), Some(Filter::Link((l0 + 1) % 3)), Some(Filter::Fee(gen::fee_of_link(1))), Some(Filter::LayerStave(gen::fee_of_link(0))), Some(Filter::Link(9))]);
            }
            for (fi, f) in fl.iter().enumerate() {
                if !tier.is_thorough() && fi > 2 && m[0] != "check" {
                    continue;
                }
                // an absent filter value delivers nothing; with views that is fine, the writer writes an empty file
                for toml in [false, true] {
                    if toml && !(fi == 0 || tier.is_thorough()) {
                        continue;
                    }
                    cases.push(Case { label: name.clone(), bytes: bytes.clone(), mode: m.clone(), filter: *f, errors: None, toml, stdin: fi % 2 == 1 });
                }
            }
        }
    }
    // 2. conforming witnesses: zero errors in every mode that fits them; with k RDH sanity faults: k errors
    for w in witnesses() {
        let clean = grammar::interleave(&w.links, &w.order);
        let bytes = clean.bytes();
        for m in modes() {
            let stave_mode = m.len() == 3 && m[2] == "its-stave";
            if stave_mode && !w.stave {
                continue;
            }
            let errs = if m[0] == "check" { Some((0u64, vec![])) } else { None };
            let links: Vec<u8> = w.links.iter().map(|l| l[0].packet.rdh.link_id).collect();
            let mut fl = if m[0] == "-o" { vec![] } else { vec![None] };
            if m[0] != "SCAN" {
                fl.push(Some(Filter::Link(links[links.len() - 1])));
            }
            for f in fl {
                cases.push(Case { label: format!("witness {}", w.name), bytes: bytes.clone(), mode: m.clone(), filter: f, errors: errs.clone(), toml: false, stdin: false });
            }
        }
        // k sanity faults on distinct RDHs (not the first): exactly k [E10] in check sanity
        for k in [1usize, 3, 21] {
            let mut pk = clean.packets.clone();
            if pk.len() <= k {
                continue;
            }
            let step = (pk.len() - 1) / k;
            for j in 0..k {
                pk[1 + j * step.max(1)].1.packet.rdh.rdh3_reserved = 0x0101;
            }
            let b: Vec<u8> = pk.iter().flat_map(|(_, p)| p.packet.bytes()).collect();
            for m in [vec!["check", "sanity"], vec!["check", "sanity", "its"]] {
                cases.push(Case { label: format!("witness {} with {k} RDH sanity faults", w.name), bytes: b.clone(), mode: m, filter: None, errors: Some((k as u64, vec!["10"])), toml: k == 3, stdin: false });
            }
        }
    }
    // 2b. every sequence of length <= 4 over two kinds of fault (RDH reserved bits, TDT reserved bit) laid on the
    //     successive packets that carry a TDT: the statistics name each code once, however the faults alternate
    {
        let w = witnesses().into_iter().find(|w| !w.stave && w.links.iter().map(|l| l.iter().filter(|p| p.words.iter().any(|x| x.kind == grammar::WKind::Tdt)).count()).sum::<usize>() >= 4).expect("a witness with 4 TDT packets");
        let clean = grammar::interleave(&w.links, &w.order);
        let sites: Vec<usize> = clean.packets.iter().enumerate().filter(|(i, (_, p))| *i > 0 && p.words.iter().any(|x| x.kind == grammar::WKind::Tdt)).map(|(i, _)| i).take(4).collect();
        for (qi, sq) in crate::gen::sequences(&[0u8, 1], 4).iter().filter(|s| s.len() >= 2).enumerate() {
            let mut pk = clean.packets.clone();
            for (k, kind) in sq.iter().enumerate() {
                let p = &mut pk[sites[k]].1;
                if *kind == 0 {
                    p.packet.rdh.rdh3_reserved = 0x0101;
                } else {
                    let wi = p.words.iter().position(|x| x.kind == grammar::WKind::Tdt).unwrap();
                    let off = p.word_rel_offset(wi) as usize - 64;
                    p.packet.payload[off + 7] |= 0x01;
                }
            }
            let b: Vec<u8> = pk.iter().flat_map(|(_, p)| p.packet.bytes()).collect();
            let mut codes: Vec<&'static str> = Vec::new();
            for kind in sq {
                let c = if *kind == 0 { "10" } else { "50" };
                if !codes.contains(&c) {
                    codes.push(c);
                }
            }
            let m = if qi % 2 == 0 { vec!["check", "sanity", "its"] } else { vec!["check", "all", "its"] };
            cases.push(Case { label: format!("fault kinds {:?} on successive TDT packets of {}", sq, w.name), bytes: b, mode: m, filter: None, errors: Some((sq.len() as u64, codes)), toml: qi % 3 == 0, stdin: false });
        }
    }
    // 1b. small scope, complete: every RDH sequence of length <= 2 (3 thorough) over a 48-symbol alphabet
    //     {link 0/1} x {2 FEE ids} x {stop 0/1} x {6 trigger words covering every counted bit alone or in a mix}
    {
        let all_bits: u32 = TRIGGER_FIELDS.iter().fold(0, |a, (_, b)| a | (1u32 << b));
        let even: u32 = TRIGGER_FIELDS.iter().enumerate().filter(|(i, _)| i % 2 == 0).fold(0, |a, (_, (_, b))| a | (1u32 << b));
        let trig = [0u32, all_bits, even, all_bits & !even, 0b1000_0000_0011, 1 << 4 | 1 << 28];
        // FEE ids vary independently of the link: two FEE ids on one link and one FEE id on two links both occur
        let mut syms: Vec<(u8, u16, u8, u32)> = Vec::new();
        for l in [0u8, 1] {
            for fee in [gen::fee_of_link(0), gen::fee_of_link(2)] {
                for st in [0u8, 1] {
                    for t in trig {
                        syms.push((l, fee, st, t));
                    }
                }
            }
        }
        let idx: Vec<u8> = (0..syms.len() as u8).collect();
        let seqs = gen::sequences(&idx, if tier.is_thorough() { 3 } else { 2 });
        for (si, sq) in seqs.iter().enumerate() {
            if sq.is_empty() {
                continue;
            }
            let pk: Vec<fp_model::stream::Packet> = sq
                .iter()
                .enumerate()
                .map(|(i, &k)| {
                    let (l, fee, st, t) = syms[k as usize];
                    let mut p = gen::recognisable_framed(l, fee, [0usize, 16, 32][i % 3], 77 + i as u64);
                    p.rdh.stop_bit = st;
                    p.rdh.trigger_type = t;
                    p
                })
                .collect();
            let bytes = stream::to_bytes(&pk);
            let (mode, filter): (Vec<&'static str>, Option<Filter>) = match si % 4 {
                0 => (vec!["check", "sanity"], None),
                1 => (vec!["check", "all"], Some(Filter::Link(0))),
                2 => (vec!["view", "rdh"], None),
                _ => (vec!["check", "sanity", "its"], Some(Filter::Fee(gen::fee_of_link(2)))),
            };
            cases.push(Case { label: format!("small-scope sequence {:?}", sq), bytes, mode, filter, errors: None, toml: si % 8 >= 4, stdin: si % 3 == 0 });
        }
    }
    // 1d. many FEE ids (the report's list wraps over lines and is cut with "... N more")
    for nfee in [12usize, 80, 300] {
        let pk: Vec<fp_model::stream::Packet> = (0..nfee)
            .map(|i| {
                let fee = fp_model::rdh::Rdh::its_fee_id((i / 48) as u8 % 7, (i % 48) as u8, (i / 336) as u8);
                let mut p = gen::recognisable_framed((i % 3) as u8, fee, 16, 4400 + i as u64);
                p.rdh.stop_bit &= 1;
                p
            })
            .collect();
        let bytes = stream::to_bytes(&pk);
        cases.push(Case { label: format!("{nfee} distinct FEE ids"), bytes: bytes.clone(), mode: vec!["check", "sanity"], filter: None, errors: None, toml: false, stdin: false });
        cases.push(Case { label: format!("{nfee} distinct FEE ids"), bytes, mode: vec!["view", "rdh"], filter: None, errors: None, toml: true, stdin: true });
    }
    // 1c. every known detector system id in the first RDH: the name in the statistics file and in the report
    for sys in [3u8, 4, 5, 6, 7, 8, 10, 15, 17, 18, 19, 32, 33, 34, 35, 36, 37, 38, 39, 255] {
        let mut pk = gen::recognisable_pattern_stream(&[0, 1, 0], 900 + sys as u64);
        for p in pk.iter_mut() {
            p.rdh.system_id = sys;
            p.rdh.stop_bit &= 1;
        }
        let bytes = stream::to_bytes(&pk);
        for m in [vec!["check", "sanity"], vec!["view", "rdh"]] {
            cases.push(Case { label: format!("system id {sys}"), bytes: bytes.clone(), mode: m, filter: None, errors: None, toml: sys % 2 == 1, stdin: false });
        }
    }
    // custom-check failures carry four-digit codes: they must appear in full among the distinct codes
    {
        let w = &witnesses()[0];
        let clean = grammar::interleave(&w.links, &w.order);
        let n = clean.packets.len();
        cases.push(Case { label: format!("CUSTOM:cdps = {}", n + 1), bytes: clean.bytes(), mode: vec!["check", "sanity"], filter: None, errors: Some((1, vec!["9001"])), toml: false, stdin: false });
        cases.push(Case { label: format!("CUSTOM:cdps = {}\ntriggers_pht = 55", n + 2), bytes: clean.bytes(), mode: vec!["check", "all", "its"], filter: None, errors: Some((2, vec!["9001", "9002"])), toml: false, stdin: false });
        // the same failures are in the statistics of runs that print no report (views)
        for m in [vec!["view", "rdh"], vec!["view", "its-readout-frames"], vec!["view", "its-readout-frames-data"]] {
            cases.push(Case { label: format!("CUSTOM:cdps = {}", n + 1), bytes: clean.bytes(), mode: m.clone(), filter: None, errors: Some((1, vec!["9001"])), toml: false, stdin: false });
            cases.push(Case { label: format!("CUSTOM:cdps = {}\ntriggers_pht = 55", n + 2), bytes: clean.bytes(), mode: m, filter: None, errors: Some((2, vec!["9001", "9002"])), toml: true, stdin: true });
        }
    }
    // the same failure on headers whose trigger words set every other counted bit (neighbouring counters differ): the
    // per-bit counts quoted inside the [E9002] message are the counters of the statistics
    {
        let even: u32 = TRIGGER_FIELDS.iter().enumerate().filter(|(i, _)| i % 2 == 0).fold(0, |a, (_, (_, b))| a | (1u32 << b));
        let all: u32 = TRIGGER_FIELDS.iter().fold(0, |a, (_, b)| a | (1u32 << b));
        let mut pk = gen::recognisable_pattern_stream(&[0, 1, 0, 1, 0], 7700);
        for (i, p) in pk.iter_mut().enumerate() {
            p.rdh.trigger_type = [even, all & !even, even, even, 0x10][i];
            p.rdh.stop_bit &= 1;
        }
        let bytes = stream::to_bytes(&pk);
        for m in [vec!["check", "sanity"], vec!["view", "rdh"]] {
            cases.push(Case { label: "CUSTOM:triggers_pht = 55".into(), bytes: bytes.clone(), mode: m, filter: None, errors: None, toml: false, stdin: false });
        }
    }
    // the reader's running counters are 32 bits wide and are handed over to the collector (64 bits) on the way: the
    // real `Stats` of the reader is driven with payload sizes {1, 9 999, 10 000, 65 535} until the total has passed
    // 2^32 and 2^33 - what arrives at the other end of its channel adds up to the true total
    {
        use alice_protocol_reader::stats::{InputStatType, Stats};
        for size in [1u16, 9_999, 10_000, 65_535] {
            // (size 1 would need 2^33 calls: it is run up to just beyond 2^32 / 1024 calls of 1 after a pre-load near the edge)
            let (tx, rx) = flume::unbounded();
            let mut st = Stats::new(tx);
            let mut truth: u64 = 0;
            if size == 1 {
                // pre-load close to the 32-bit edge with large payloads, then creep over it byte by byte
                while truth + 65_535 < (1u64 << 32) - 70_000 {
                    st.add_payload_size(65_535);
                    truth += 65_535;
                }
                for _ in 0..200_000 {
                    st.add_payload_size(1);
                    truth += 1;
                }
            } else {
                while truth < (1u64 << 33) + 100_000 {
                    st.add_payload_size(size);
                    truth += size as u64;
                }
            }
            st.flush_stats();
            drop(st);
            let got: u64 = rx.try_iter().filter_map(|m| if let InputStatType::PayloadSize(n) = m { Some(n as u64) } else { None }).sum();
            if got != truth {
                rep.violation(Violation {
                    signature: "stat:payload_size:beyond-32-bits".into(),
                    description: format!("payloads of {size} bytes up to a total of {truth} bytes: the reader's statistics hand over {got} bytes in all (difference {})", truth as i128 - got as i128),
                    replay: json!({"kind": "reader-stats", "payload_size": size}),
                });
            }
        }
        rep.cov("reader_counter_handover", json!("payload sizes 1 / 9 999 / 10 000 / 65 535 up to totals beyond 2^32 and 2^33 through the real reader Stats"));
    }
    let res = par_map(&cases, |_, c| run_case(c));
    let mut nontrivial = 0u64;
    for (c, r) in cases.iter().zip(res.iter()) {
        if c.filter.is_some() || c.errors.as_ref().map_or(false, |e| e.0 > 0) {
            nontrivial += 1;
        }
        if let Some((sig, d)) = r {
            rep.violation(Violation {
                signature: format!("{sig}:{}", if c.mode[0] == "-o" { "write" } else { c.mode[0] }),
                description: format!("{d} [{} | {} | filter {:?} | {} | {}]", c.label, c.mode.join(" "), c.filter, if c.toml { "toml" } else { "json" }, if c.stdin { "stdin" } else { "file" }),
                replay: json!({"mode": c.mode, "filter": format!("{:?}", c.filter), "toml": c.toml, "stdin": c.stdin, "input_hex": if c.bytes.len() < 20000 { hex(&c.bytes) } else { format!("({} bytes, label {})", c.bytes.len(), c.label) }}),
            });
        }
    }
    rep.cov("evaluations", json!(cases.len()));
    rep.cov("distinct_nontrivial", json!(nontrivial));
    rep.cov("exhaustive", json!(true));
    rep.cov("rule", json!("streams {arbitrary headers over 3 interleaved links with 1/5/12(big payloads, total > 2^16)/100/101(/201) packets; every RDH sequence of length <= 2 (quick) / 3 (thorough) over 48 symbols {2 links} x {2 FEE ids, independent of the link} x {stop 0/1} x {6 trigger words: none, all 20 counted bits, the even / odd halves, HB+orbit+TF, PhT+gap2}, modes / filters / formats / sources rotating; all 20 known detector system ids in the first RDH (name in statistics and report); 6 conforming witnesses; witnesses with 1/3/21 RDH sanity faults} x 9 modes (5 checks, 3 views, filtered writing) x filters (none, present link/FEE/stave, absent link) x {JSON, TOML} x {file, stdin}; statistics file fields and report rows (Total RDHs, Total Errors, Links observed, FEE IDs seen, Run Trigger Type, RDH Version, Data Format, Total HBFs, Data size with its RDHs / Payloads parts, Layers/Staves, filter RDHs) vs the independent calculator. non-trivial = a filter is active or errors are expected"));
    rep.sample(json!({"expected_fields": ["rdhs_seen", "rdhs_filtered", "payload_size", "links (sorted)", "fee_id (first seen)", "rdh_version", "data_format", "system_id", "run_trigger_type", "hbfs_seen", "layer_staves_seen", "trigger_stats.*", "total_errors", "unique_error_codes"]}));
    rep.assume("run trigger type: the raw value is compared, its textual description is not");
    rep.finish()
}

pub fn replay(v: &Value) -> i32 {
    // the cases of this check are enumerated, not stored: re-run the deterministic enumeration for the signature
    fp_harness::report::replay_by_rerun(v, &|tier| run(tier))
}
