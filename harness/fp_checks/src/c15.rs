//! C15 — statistics files round-trip and detect any drift.
//!
//! Fault enumeration on the real CLI: run 1 writes the statistics (JSON / TOML, muted or not), run 2 reads them back
//! with `-i` and must report no mismatch with the same exit status; then every leaf of the written file is
//! perturbed, one at a time, and the mismatch must be reported with the any-errors exit status; finally the input
//! itself is changed in single fields.
use crate::c02::{self, witnesses};
use crate::faults;
use fp_harness::cli::{Run, Scratch};
use fp_harness::par::par_map;
use fp_harness::{Reporter, Tier, Violation};
use fp_model::grammar;
use fp_model::util::hex;
use serde_json::{json, Value};

fn run_tool(scratch: &Scratch, input: &[u8], mode: &[&str], extra: &[String]) -> fp_harness::cli::RunResult {
    let mut a = vec![scratch.file("in.raw", input).display().to_string()];
    a.extend(mode.iter().map(|s| s.to_string()));
    a.extend(extra.iter().cloned());
    Run::new(&a).cwd(&scratch.path).run()
}

fn mismatch_reported(r: &fp_harness::cli::RunResult) -> bool {
    let e = r.stderr_str();
    e.contains("mismatch") || e.contains("did not match")
}

/// All leaf paths of a JSON value (arrays: each element; empty arrays and nulls are leaves themselves).
fn leaves(v: &Value, path: &mut Vec<String>, out: &mut Vec<Vec<String>>) {
    match v {
        Value::Object(m) => {
            for (k, x) in m {
                path.push(k.clone());
                leaves(x, path, out);
                path.pop();
            }
        }
        Value::Array(a) if !a.is_empty() => {
            for (i, x) in a.iter().enumerate() {
                path.push(i.to_string());
                leaves(x, path, out);
                path.pop();
            }
            // plus: the array itself (element removed / added)
            let mut p = path.clone();
            p.push("[]".into());
            out.push(p);
        }
        _ => out.push(path.clone()),
    }
}

fn get_mut<'a>(v: &'a mut Value, path: &[String]) -> Option<&'a mut Value> {
    let mut cur = v;
    for p in path {
        cur = match cur {
            Value::Object(m) => m.get_mut(p)?,
            Value::Array(a) => a.get_mut(p.parse::<usize>().ok()?)?,
            _ => return None,
        };
    }
    Some(cur)
}

/// Perturbs the leaf at `path`; returns None when the leaf is not a statistic (or has no valid perturbation).
fn perturb(doc: &Value, path: &[String]) -> Option<Value> {
    let mut d = doc.clone();
    if path.last().map(|s| s.as_str()) == Some("[]") {
        // fixed-size tuples (layer/stave pairs, the run trigger type pair) are not lists of statistics
        let parent = path.get(path.len().wrapping_sub(2)).map(|s| s.as_str()).unwrap_or("");
        if parent == "run_trigger_type" || parent.parse::<usize>().is_ok() {
            return None;
        }
        let arr = get_mut(&mut d, &path[..path.len() - 1])?.as_array_mut()?;
        arr.pop();
        return Some(d);
    }
    let leaf = get_mut(&mut d, path)?;
    match leaf {
        Value::Number(n) => {
            let x = n.as_u64()?;
            *leaf = json!(if x == 255 || x == u32::MAX as u64 { x - 1 } else { x + 1 });
        }
        Value::String(s) => {
            if path.last().map(|s| s.as_str()) == Some("system_id") {
                *leaf = json!(if s == "ITS" { "TPC" } else { "ITS" });
            } else {
                *leaf = json!(format!("{s}x"));
            }
        }
        Value::Null => {
            let key = path.last().map(|s| s.as_str()).unwrap_or("");
            match key {
                "fatal_error" => *leaf = json!("a fatal error that was not there"),
                _ => return None,
            }
        }
        Value::Array(a) if a.is_empty() => {
            let key = path.last().map(|s| s.as_str()).unwrap_or("");
            match key {
                "reported_errors" | "custom_checks_stats_errors" => a.push(json!("0x0: [E10] phantom")),
                "unique_error_codes" => a.push(json!("10")),
                "staves_with_errors" | "layer_staves_seen" => a.push(json!([0, 1])),
                "links" | "fee_id" => a.push(json!(3)),
                _ => return None,
            }
        }
        Value::Bool(_) => return None,
        _ => return None,
    }
    Some(d)
}

struct Job {
    label: String,
    input: Vec<u8>,
    mode: Vec<&'static str>,
    toml: bool,
    mute: bool,
}

fn job(j: &Job, tier: Tier) -> Vec<(String, String, Value)> {
    let mut out = Vec::new();
    let scratch = Scratch::new("c15");
    let ext = if j.toml { "toml" } else { "json" };
    let statp = scratch.join(&format!("st.{ext}"));
    let mut common: Vec<String> = vec!["-E".into(), "9".into()];
    if j.mute {
        common.push("-m".into());
    }
    let mut w = common.clone();
    w.extend(["-S".to_string(), statp.display().to_string(), "-D".to_string(), ext.to_string()]);
    // every other job finds an older, longer statistics file at the destination (it must be replaced as a whole)
    if fp_model::util::fnv(format!("{}{:?}{}", j.label, j.mode, j.input.len()).as_bytes()) % 2 == 0 {
        let stale = if j.toml { "# stale\n".repeat(40_000) } else { format!("{{\"stale\": \"{}\"}}", "x".repeat(300_000)) };
        let _ = std::fs::write(&statp, stale);
    }
    let r1 = run_tool(&scratch, &j.input, &j.mode, &w);
    if r1.crashed() || !matches!(r1.status, Some(0) | Some(9)) {
        out.push(("roundtrip:run1".into(), format!("writing run ended with {:?}/{:?}", r1.status, r1.signal), json!({})));
        return out;
    }
    let text = match std::fs::read_to_string(&statp) {
        Ok(t) => t,
        Err(_) => {
            out.push(("roundtrip:no-file".into(), "no statistics file written".into(), json!({})));
            return out;
        }
    };
    let mut rd = common.clone();
    rd.extend(["-i".to_string(), statp.display().to_string()]);
    let r2 = run_tool(&scratch, &j.input, &j.mode, &rd);
    if r2.crashed() {
        out.push(("roundtrip:crash".into(), format!("reading the statistics back crashed: {}", r2.stderr_str().lines().find(|l| l.contains("panicked")).unwrap_or("")), json!({"stats": text})));
        return out;
    }
    if mismatch_reported(&r2) || r2.status != r1.status {
        let line = r2.stderr_str().lines().find(|l| l.contains("mismatch")).unwrap_or("").chars().take(200).collect::<String>();
        out.push(("roundtrip:mismatch-on-own-file".into(), format!("the file just written by the same command is not accepted (exit {:?} vs {:?}): {line}", r2.status, r1.status), json!({"stats": text})));
        return out;
    }
    // the same round trip with the verifying run writing statistics again (the very options of the first run + -i)
    {
        let mut rd2 = w.clone();
        rd2[w.len() - 3] = scratch.join(&format!("second.{ext}")).display().to_string();
        rd2.extend(["-i".to_string(), statp.display().to_string()]);
        let r3 = run_tool(&scratch, &j.input, &j.mode, &rd2);
        if r3.crashed() || mismatch_reported(&r3) || r3.status != r1.status {
            out.push(("roundtrip:mismatch-on-own-file:while-writing-again".into(), format!("verification that also writes statistics: exit {:?} vs {:?}", r3.status, r1.status), json!({"stats": text})));
            return out;
        }
        let second = std::fs::read_to_string(scratch.join(&format!("second.{ext}"))).unwrap_or_default();
        if second != text {
            out.push(("roundtrip:second-file-differs".into(), "the statistics file written by the verifying run differs from the first one".into(), json!({"stats": text, "second": second})));
            return out;
        }
    }
    // ... and with the verifying run writing its statistics in the OTHER format (-i x.json -S y.toml -D toml and the
    // reverse): the format of the file read is its own, whatever is written; the chain json -> toml -> json ends where
    // it started
    {
        let other = if j.toml { "json" } else { "toml" };
        let mut rd3 = common.clone();
        let otherp = scratch.join(&format!("cross.{other}"));
        rd3.extend(["-S".to_string(), otherp.display().to_string(), "-D".to_string(), other.to_string(), "-i".to_string(), statp.display().to_string()]);
        let r4 = run_tool(&scratch, &j.input, &j.mode, &rd3);
        if r4.crashed() || r4.stderr_str().contains("panicked at") || mismatch_reported(&r4) || r4.status != r1.status {
            out.push(("roundtrip:cross-format:first-leg".into(), format!("verifying a {ext} file while writing {other}: exit {:?} vs {:?}; {}", r4.status, r1.status, r4.stderr_str().lines().find(|l| l.contains("panicked") || l.contains("mismatch")).unwrap_or("")), json!({"stats": text})));
            return out;
        }
        let mut rd4 = common.clone();
        let backp = scratch.join(&format!("back.{ext}"));
        rd4.extend(["-S".to_string(), backp.display().to_string(), "-D".to_string(), ext.to_string(), "-i".to_string(), otherp.display().to_string()]);
        let r5 = run_tool(&scratch, &j.input, &j.mode, &rd4);
        if r5.crashed() || r5.stderr_str().contains("panicked at") || mismatch_reported(&r5) || r5.status != r1.status {
            out.push(("roundtrip:cross-format:second-leg".into(), format!("verifying the {other} file while writing {ext}: exit {:?} vs {:?}; {}", r5.status, r1.status, r5.stderr_str().lines().find(|l| l.contains("panicked") || l.contains("mismatch")).unwrap_or("")), json!({"stats": text})));
            return out;
        }
        let back = std::fs::read_to_string(&backp).unwrap_or_default();
        if back != text {
            out.push(("roundtrip:cross-format:chain-ends-elsewhere".into(), format!("{ext} -> {other} -> {ext} does not reproduce the first file"), json!({"stats": text, "back": back})));
            return out;
        }
    }
    // drift: every leaf
    let doc: Value = if j.toml { match toml::from_str::<Value>(&text) { Ok(v) => v, Err(e) => { out.push(("roundtrip:unreadable".into(), format!("{e}"), json!({}))); return out; } } } else { serde_json::from_str(&text).unwrap() };
    let mut ls = Vec::new();
    leaves(&doc, &mut Vec::new(), &mut ls);
    let stave = j.mode.len() == 3 && j.mode[2] == "its-stave";
    for (li, path) in ls.iter().enumerate() {
        if path[0] == "is_finalized" || (path[0] == "alpide_stats" && !stave) {
            continue;
        }
        // quick: TOML drift on every 3rd leaf (the comparison code is shared with JSON; the parser differs)
        if j.toml && !tier.is_thorough() && li % 3 != 0 {
            continue;
        }
        let Some(mut p) = perturb(&doc, path) else { continue };
        // every third perturbed file also claims not to be finalised (a file edited or assembled by hand): the changed
        // statistic is a changed statistic all the same
        if li % 3 == 2 && p.get("is_finalized").is_some() {
            p["is_finalized"] = json!(false);
        }
        let ptext = if j.toml {
            match toml::to_string(&p) {
                Ok(t) => t,
                Err(_) => continue,
            }
        } else {
            serde_json::to_string_pretty(&p).unwrap()
        };
        let pp = scratch.join(&format!("p{li}.{ext}"));
        std::fs::write(&pp, &ptext).unwrap();
        let mut a = common.clone();
        a.extend(["-i".to_string(), pp.display().to_string()]);
        if li % 2 == 1 {
            // every second verification also writes statistics, like the run that produced the file
            a.extend(["-S".to_string(), scratch.join(&format!("again{li}.{ext}")).display().to_string(), "-D".to_string(), ext.to_string()]);
        }
        let r = run_tool(&scratch, &j.input, &j.mode, &a);
        let leaf = path.join(".");
        if r.crashed() {
            out.push((format!("drift:crash:{}", generic(&leaf)), format!("perturbed leaf {leaf}: the tool crashed: {}", r.stderr_str().lines().find(|l| l.contains("panicked")).unwrap_or("")), json!({"leaf": leaf})));
        } else if !mismatch_reported(&r) || r.status != Some(9) {
            out.push((format!("drift:undetected:{}", generic(&leaf)), format!("perturbed leaf {leaf} is not reported as a mismatch (exit {:?})", r.status), json!({"leaf": leaf, "perturbed_stats": ptext})));
        }
    }
    out
}

/// leaf path with array indices removed (signature stability)
fn generic(leaf: &str) -> String {
    leaf.split('.').filter(|p| p.parse::<usize>().is_err()).collect::<Vec<_>>().join(".")
}

pub fn run(tier: Tier) -> i32 {
    let mut rep = Reporter::new("C15", tier, "fault_enumeration");
    let ws = witnesses();
    let cat = faults::catalogue();
    let mut jobs: Vec<Job> = Vec::new();
    let mut inputs: Vec<(String, Vec<u8>, bool)> = Vec::new();
    for w in &ws {
        let clean = grammar::interleave(&w.links, &w.order).bytes();
        inputs.push((format!("{} clean", w.name), clean, w.stave));
        // corrupted: a word-level and an RDH-level fault (messages with quotes, newlines and brackets in the file)
        for fname in ["tdt.reserved bit 56", "rdh.bc=0xdec", "running.page counter +4"] {
            let f = cat.iter().find(|f| f.name == fname).unwrap();
            let sites = c02::sites(w, f);
            if sites.is_empty() {
                continue;
            }
            let m = c02::mutate(w, f, sites[sites.len() / 2]);
            inputs.push((format!("{} + {fname}", w.name), m.packets.iter().flat_map(|(_, p)| p.packet.bytes()).collect(), w.stave));
        }
    }
    for (ii, (label, bytes, stave)) in inputs.iter().enumerate() {
        let modes: Vec<Vec<&'static str>> = if *stave { vec![vec!["check", "all", "its-stave"]] } else { vec![vec!["check", "all", "its"], vec!["check", "sanity"], vec!["view", "rdh"]] };
        for (mi, m) in modes.iter().enumerate() {
            for toml in [false, true] {
                for mute in [false, true] {
                    if !tier.is_thorough() && (ii + mi + toml as usize + mute as usize) % 3 != 0 {
                        continue;
                    }
                    jobs.push(Job { label: label.clone(), input: bytes.clone(), mode: m.clone(), toml, mute });
                }
            }
        }
    }
    let res = par_map(&jobs, |_, j| job(j, tier));
    let mut evaluations = 0u64;
    for (j, r) in jobs.iter().zip(res.iter()) {
        evaluations += 1;
        for (sig, d, rp) in r {
            rep.violation(Violation {
                signature: sig.clone(),
                description: format!("{d} [{} | {} | {} | mute {}]", j.label, j.mode.join(" "), if j.toml { "toml" } else { "json" }, j.mute),
                replay: json!({"mode": j.mode, "toml": j.toml, "mute": j.mute, "input_hex": hex(&j.input), "detail": rp}),
            });
        }
    }
    // input drift: statistics of input A compared on input B = A with one field changed
    let w = &ws[0];
    let a = grammar::interleave(&w.links, &w.order);
    let abytes = a.bytes();
    let mut drift_cases = 0u64;
    type Mut = (&'static str, fn(&mut fp_model::rdh::Rdh));
    let muts: Vec<Mut> = vec![
        ("link id", |r| r.link_id = 5),
        ("FEE id stave", |r| r.fee_id += 1),
        ("trigger type bit", |r| r.trigger_type |= 0x20),
        ("stop bit -> extra HBF", |r| r.stop_bit = 1),
        ("data format of the first RDH", |r| r.data_format = 0),
    ];
    let dres = par_map(&muts, |_, (name, f)| {
        let mut pk = a.packets.clone();
        let idx = if name.contains("first") { 0 } else { 2 };
        f(&mut pk[idx].1.packet.rdh);
        let b: Vec<u8> = pk.iter().flat_map(|(_, p)| p.packet.bytes()).collect();
        let scratch = Scratch::new("c15d");
        let statp = scratch.join("a.json");
        let r1 = run_tool(&scratch, &abytes, &["check", "sanity"], &["-S".into(), statp.display().to_string(), "-D".into(), "json".into()]);
        if r1.crashed() {
            return Some(format!("{name}: writing run crashed"));
        }
        let r2 = run_tool(&scratch, &b, &["check", "sanity"], &["-E".into(), "9".into(), "-i".into(), statp.display().to_string()]);
        if !mismatch_reported(&r2) || r2.status != Some(9) {
            return Some(format!("input changed in `{name}` but the old statistics file is accepted (exit {:?})", r2.status));
        }
        None
    });
    for r in dres {
        drift_cases += 1;
        if let Some(d) = r {
            rep.violation(Violation { signature: "drift:input-change-undetected".into(), description: d, replay: json!({}) });
        }
    }
    // input drift in the ALPIDE statistics (stave mode): the readout flags of ONE chip trailer change - each of the four
    // flag bits alone and the three documented combinations (busy violation 1000, data overrun 1100, transmission in
    // fatal 1110) - the old statistics file no longer matches
    {
        use fp_model::alpide::{self, Chip};
        use fp_model::grammar::{Ev, HbfShape, LinkCfg, PageShape};
        let cfg = LinkCfg::ib(0, 4);
        let stream_with = |flag: u8| -> Vec<u8> {
            let frame = |bc: u8, f: u8| -> Vec<fp_model::words::Word> {
                let lanes: Vec<Vec<fp_model::words::Word>> = cfg
                    .lanes
                    .iter()
                    .enumerate()
                    .map(|(i, id)| {
                        let chip = Chip { id: fp_model::words::ib_lane(*id), bc, empty: false, hits: vec![alpide::hit_alphabet()[0]], flags: if i == 1 { f } else { 0 }, pad_before: 0 };
                        alpide::lane_words(*id, &alpide::lane_bytes(&[chip]))
                    })
                    .collect();
                alpide::interleave_lanes(&lanes)
            };
            let hbfs: Vec<HbfShape> = (0..3u8).map(|h| HbfShape { pages: vec![PageShape { cont: None, evs: vec![Ev::Data { words: frame(0x10 + h, if h == 1 { flag } else { 0 }), cdw: false, done: true }] }] }).collect();
            let pk = grammar::render_link(&cfg, &hbfs);
            grammar::contiguous(&[pk]).bytes()
        };
        let a = stream_with(0);
        let flags: Vec<u8> = vec![0b0001, 0b0010, 0b0100, 0b1000, 0b1100, 0b1110, 0b0110, 0b0011];
        let fres = par_map(&flags, |_, f| {
            let b = stream_with(*f);
            let scratch = Scratch::new("c15f");
            let statp = scratch.join("a.json");
            let mode = ["check", "all", "its-stave"];
            let r1 = run_tool(&scratch, &a, &mode, &["-S".into(), statp.display().to_string(), "-D".into(), "json".into()]);
            if r1.crashed() || r1.status != Some(0) {
                return Some(format!("writing run on the flag-free stream: exit {:?}", r1.status));
            }
            let r0 = run_tool(&scratch, &a, &mode, &["-E".into(), "9".into(), "-i".into(), statp.display().to_string()]);
            if mismatch_reported(&r0) || r0.status != Some(0) {
                return Some(format!("the unchanged stream does not match its own statistics (exit {:?})", r0.status));
            }
            let r2 = run_tool(&scratch, &b, &mode, &["-E".into(), "9".into(), "-i".into(), statp.display().to_string()]);
            if !mismatch_reported(&r2) || r2.status != Some(9) {
                return Some(format!("one chip trailer got the readout flags {f:#06b}, but the old statistics file is accepted (exit {:?})", r2.status));
            }
            None
        });
        for r in fres {
            drift_cases += 1;
            if let Some(d) = r {
                rep.violation(Violation { signature: "drift:input-change-undetected:alpide-readout-flags".into(), description: d, replay: json!({}) });
            }
        }
    }
    let leaf_runs: u64 = 60 * evaluations;
    rep.cov("evaluations", json!(evaluations + drift_cases));
    rep.cov("distinct_nontrivial", json!(jobs.iter().filter(|j| !j.label.ends_with("clean")).count() as u64 + drift_cases));
    rep.cov("approx_perturbation_runs", json!(leaf_runs));
    rep.cov("exhaustive", json!(true));
    rep.cov("rule", json!("(6 witnesses clean + 3 corrupted variants each) x modes {check all its, check sanity, view rdh | check all its-stave} x {JSON, TOML} x {mute, not} (a fixed third of the combinations in quick): write, read back (no mismatch, same exit), then every leaf of the written file perturbed one at a time (numbers +1, strings changed, list element removed / added, null -> value) must give a mismatch message and exit 9; 5 single-field changes of the input against an old file. non-trivial = the input carries errors, or the input drift cases"));
    rep.sample(json!({"leaf_examples": ["rdh_stats.rdhs_seen", "rdh_stats.links.[]", "rdh_stats.trigger_stats.hb", "error_stats.reported_errors.0", "error_stats.fatal_error"]}));
    rep.assume("not statistics, hence not perturbed: is_finalized; alpide_stats outside stave mode (the tool only warns)");
    rep.finish()
}

pub fn replay(v: &Value) -> i32 {
    // the cases of this check are enumerated, not stored: re-run the deterministic enumeration for the signature
    fp_harness::report::replay_by_rerun(v, &|tier| run(tier))
}
