//! C03 — scanning follows the RDH chain exactly in every input mode.
//!
//! Bounded-exhaustive enumeration: link patterns x filters x {payload loaded, skipped} x {file, pipe} x read-chunk
//! deviations through the real `InputScanner`; batch boundaries through the real reader thread for CAP in
//! {1,2,3,100}; payload-size pairs; and the same streams through the real CLI (`view rdh -d`, file and stdin).
//! Oracle: the independent chain walker of `fp_model`.
use crate::gen;
use crate::imp::{self, ScanCfg, ScannedPacket};
use fp_harness::cli::{Run, Scratch};
use fp_harness::par::par_map;
use fp_harness::{Reporter, Tier, Violation};
use fp_model::rdh::Rdh;
use fp_model::stream::{self, Filter, Packet};
use fp_model::util::{hex, unhex};
use serde_json::{json, Value};
use std::sync::Arc;

#[derive(Clone, Debug)]
struct Case {
    bytes: Arc<Vec<u8>>,
    filter: Option<Filter>,
    skip: bool,
    pipe: bool,
    chunk: usize,
    cap: usize, // 0 = direct load_cdp loop
    label: String,
}

fn cfg_of(filter: Option<Filter>, skip: bool) -> ScanCfg {
    let mut c = ScanCfg { skip_payload: skip, ..Default::default() };
    match filter {
        Some(Filter::Link(l)) => c.filter_link = Some(l),
        Some(Filter::Fee(f)) => c.filter_fee = Some(f),
        Some(Filter::LayerStave(f)) => c.filter_its_stave = Some(f),
        None => {}
    }
    c
}

struct Expected {
    packets: Vec<(u64, Vec<u8>, Vec<u8>)>, // offset, rdh bytes, payload
    total_rdhs: u64,
    matching: u64,
    payload_bytes: u64,
}

fn expected(bytes: &[u8], filter: Option<Filter>, skip: bool) -> Expected {
    let (walked, end) = stream::walk(bytes);
    assert_eq!(end, stream::WalkEnd::Clean, "C03 inputs are well-framed");
    let mut packets = Vec::new();
    let mut payload_bytes = 0u64;
    for w in &walked {
        if filter.map_or(true, |f| f.matches(&w.rdh)) {
            let o = w.offset as usize;
            let pl = if skip { vec![] } else { bytes[w.payload.0..w.payload.1].to_vec() };
            payload_bytes += (w.payload.1 - w.payload.0) as u64;
            packets.push((w.offset, bytes[o..o + 64].to_vec(), pl));
        }
    }
    Expected {
        total_rdhs: walked.len() as u64,
        matching: if filter.is_some() { packets.len() as u64 } else { 0 },
        packets,
        payload_bytes,
    }
}

pub fn filter_class(f: Option<Filter>) -> &'static str {
    match f {
        None => "nofilter",
        Some(Filter::Link(_)) => "link-filter",
        Some(Filter::Fee(_)) => "fee-filter",
        Some(Filter::LayerStave(_)) => "stave-filter",
    }
}

/// Compares what the implementation delivered with the model; returns (aspect, detail) of the first difference.
fn compare(exp: &Expected, got: &[ScannedPacket], bytes: &[u8]) -> Option<(String, String)> {
    if got.len() != exp.packets.len() {
        return Some((
            "packet-count".into(),
            format!("expected {} packets, scanner delivered {}", exp.packets.len(), got.len()),
        ));
    }
    for (i, (g, e)) in got.iter().zip(exp.packets.iter()).enumerate() {
        if g.rdh_bytes != e.1 {
            return Some(("rdh-bytes".into(), format!("packet {i}: header bytes differ from input at {:#x}", e.0)));
        }
        if g.mem_pos != e.0 {
            return Some((
                "mem-pos".into(),
                format!("packet {i}: reported offset {:#x}, true offset {:#x}", g.mem_pos, e.0),
            ));
        }
        if g.payload != e.2 {
            return Some(("payload".into(), format!("packet {i} at {:#x}: payload differs ({} vs {} bytes)", e.0, g.payload.len(), e.2.len())));
        }
        let r = Rdh::decode(&bytes[e.0 as usize..e.0 as usize + 64]);
        let f = [
            r.header_id as u64,
            r.fee_id as u64,
            r.link_id as u64,
            (r.memory_size.wrapping_sub(64)) as u64,
            r.offset_next as u64,
            r.stop_bit as u64,
            r.pages_counter as u64,
            r.data_format as u64,
            r.trigger_type as u64,
            r.cru_id as u64,
            r.dw as u64,
            r.packet_counter as u64,
        ];
        if g.fields != f {
            return Some(("fields".into(), format!("packet {i} at {:#x}: decoded fields {:?} vs model {:?}", e.0, g.fields, f)));
        }
    }
    None
}

fn run_case(c: &Case) -> Option<(String, String)> {
    let exp = expected(&c.bytes, c.filter, c.skip);
    let cfg = cfg_of(c.filter, c.skip);
    let (got, stats): (Vec<ScannedPacket>, _) = if c.cap == 0 {
        let o = imp::scan_direct(c.bytes.clone(), &cfg, c.pipe, c.chunk, exp.total_rdhs as usize + 5);
        if o.end_error_kind != Some(std::io::ErrorKind::UnexpectedEof) {
            return Some(("end".into(), format!("scan ended with {:?}, expected UnexpectedEof at end of input", o.end_error_kind)));
        }
        (o.packets, o.stats)
    } else {
        let (batches, stats) = match c.cap {
            1 => imp::scan_batched::<1>(c.bytes.clone(), &cfg, c.pipe, c.chunk),
            2 => imp::scan_batched::<2>(c.bytes.clone(), &cfg, c.pipe, c.chunk),
            3 => imp::scan_batched::<3>(c.bytes.clone(), &cfg, c.pipe, c.chunk),
            100 => imp::scan_batched::<100>(c.bytes.clone(), &cfg, c.pipe, c.chunk),
            _ => unreachable!(),
        };
        for (i, b) in batches.iter().enumerate() {
            if b.is_empty() || b.len() > c.cap || (i + 1 < batches.len() && b.len() != c.cap) {
                return Some(("batching".into(), format!("batch {i} has {} packets with CAP {}", b.len(), c.cap)));
            }
        }
        (batches.into_iter().flatten().collect(), stats)
    };
    if let Some(d) = compare(&exp, &got, &c.bytes) {
        return Some(d);
    }
    let (seen, filt, pay, _links, _fees) = imp::sum_input_stats(&stats);
    if seen != exp.total_rdhs || filt != exp.matching || pay != exp.payload_bytes {
        return Some((
            "scanner-stats".into(),
            format!(
                "scanner counters seen/filtered/payload = {seen}/{filt}/{pay}, model {}/{}/{}",
                exp.total_rdhs, exp.matching, exp.payload_bytes
            ),
        ));
    }
    None
}

fn case_json(c: &Case) -> Value {
    let f = match c.filter {
        None => json!(null),
        Some(Filter::Link(l)) => json!({"link": l}),
        Some(Filter::Fee(x)) => json!({"fee": x}),
        Some(Filter::LayerStave(x)) => json!({"layer_stave": x}),
    };
    json!({"engine": "enum/in-process", "label": c.label, "input_hex": hex(&c.bytes), "filter": f, "skip_payload": c.skip,
           "pipe": c.pipe, "read_chunk": c.chunk, "cap": c.cap})
}

fn case_from_json(v: &Value) -> Case {
    let f = &v["filter"];
    let filter = if f.is_null() {
        None
    } else if let Some(l) = f.get("link") {
        Some(Filter::Link(l.as_u64().unwrap() as u8))
    } else if let Some(x) = f.get("fee") {
        Some(Filter::Fee(x.as_u64().unwrap() as u16))
    } else {
        Some(Filter::LayerStave(f["layer_stave"].as_u64().unwrap() as u16))
    };
    Case {
        bytes: Arc::new(unhex(v["input_hex"].as_str().unwrap())),
        filter,
        skip: v["skip_payload"].as_bool().unwrap(),
        pipe: v["pipe"].as_bool().unwrap(),
        chunk: v["read_chunk"].as_u64().unwrap() as usize,
        cap: v["cap"].as_u64().unwrap() as usize,
        label: v["label"].as_str().unwrap_or("").to_string(),
    }
}

pub fn filters() -> Vec<Option<Filter>> {
    vec![
        None,
        Some(Filter::Link(0)),
        Some(Filter::Link(1)),
        Some(Filter::Link(2)),
        Some(Filter::Link(9)),
        Some(Filter::Fee(gen::fee_of_link(0))),
        Some(Filter::Fee(gen::fee_of_link(1))),
        Some(Filter::Fee(0x7777)),
        Some(Filter::LayerStave(gen::fee_of_link(0))),
        Some(Filter::LayerStave(gen::fee_of_link(2))),
        Some(Filter::LayerStave(gen::fee_of_link(0) | 0x0FC0)), // bits outside layer/stave must be ignored
        Some(Filter::LayerStave(Rdh::its_fee_id(5, 40, 0))),
    ]
}

fn build_cases(tier: Tier) -> Vec<Case> {
    let mut cases = Vec::new();
    // A. link patterns x filters x skip x source x chunk
    let max_len = if tier.is_thorough() { 6 } else { 5 };
    let pats = gen::sequences(&[0, 1, 2], max_len);
    for (pi, p) in pats.iter().enumerate() {
        let bytes = Arc::new(stream::to_bytes(&gen::pattern_stream(p, pi as u64)));
        for f in filters() {
            for skip in [false, true] {
                for pipe in [false, true] {
                    for chunk in [0usize, 1, 7, 64] {
                        // chunk deviations on every 4th pattern in the quick tier, on all in thorough
                        if chunk != 0 && !tier.is_thorough() && pi % 4 != 0 {
                            continue;
                        }
                        cases.push(Case {
                            bytes: bytes.clone(),
                            filter: f,
                            skip,
                            pipe,
                            chunk,
                            cap: 0,
                            label: format!("pattern {:?}", p),
                        });
                    }
                }
            }
        }
    }
    // A2. filter predicates bit by bit: two kinds of packets whose FEE ids (link ids) differ in exactly one bit
    for bit in 0..16u16 {
        let a = Rdh::its_fee_id(5, 3, 0);
        let b = a ^ (1 << bit);
        let pk: Vec<Packet> = (0..6).map(|i| gen::arbitrary_framed(4, if i % 2 == 0 { a } else { b }, 16 + 16 * (i % 3), 31_000 + (bit as u64) * 10 + i as u64)).collect();
        let bytes = Arc::new(stream::to_bytes(&pk));
        for f in [Filter::LayerStave(a), Filter::LayerStave(b), Filter::Fee(a), Filter::Fee(b)] {
            for skip in [false, true] {
                cases.push(Case { bytes: bytes.clone(), filter: Some(f), skip, pipe: false, chunk: 0, cap: 0, label: format!("fee ids differ in bit {bit}") });
            }
        }
    }
    for bit in 0..8u8 {
        let pk: Vec<Packet> = (0..6).map(|i| gen::arbitrary_framed(if i % 2 == 0 { 2 } else { 2 ^ (1 << bit) }, gen::fee_of_link(0), 32, 32_000 + (bit as u64) * 10 + i as u64)).collect();
        let bytes = Arc::new(stream::to_bytes(&pk));
        for f in [Filter::Link(2), Filter::Link(2 ^ (1 << bit))] {
            cases.push(Case { bytes: bytes.clone(), filter: Some(f), skip: false, pipe: true, chunk: 0, cap: 0, label: format!("link ids differ in bit {bit}") });
        }
    }
    // B. batch boundaries through the real reader thread
    for cap in [1usize, 2, 3, 100] {
        let counts: Vec<usize> = if cap == 100 {
            vec![99, 100, 101, 200, 201]
        } else {
            let mut v = vec![0, 1, 2, 3, cap - 1, cap, cap + 1, 2 * cap, 2 * cap + 1, 3 * cap];
            v.sort();
            v.dedup();
            v
        };
        for n in counts {
            let pattern: Vec<u8> = (0..n).map(|i| (i % 3) as u8).collect();
            let bytes = Arc::new(stream::to_bytes(&gen::pattern_stream(&pattern, 7000 + n as u64)));
            for f in [None, Some(Filter::Link(1)), Some(Filter::LayerStave(gen::fee_of_link(0))), Some(Filter::Link(9))] {
                for skip in [false, true] {
                    for pipe in [false, true] {
                        cases.push(Case {
                            bytes: bytes.clone(),
                            filter: f,
                            skip,
                            pipe,
                            chunk: 0,
                            cap,
                            label: format!("batch cap {cap} count {n}"),
                        });
                    }
                }
            }
        }
    }
    // C. payload size pairs incl. the extremes
    let sizes = [0usize, 16, 48, 9984, 10000];
    for (i, &a) in sizes.iter().enumerate() {
        for (j, &b) in sizes.iter().enumerate() {
            let pk = vec![
                gen::arbitrary_framed(0, gen::fee_of_link(0), a, 9000 + (i * 10 + j) as u64),
                gen::arbitrary_framed(1, gen::fee_of_link(1), b, 9100 + (i * 10 + j) as u64),
                gen::arbitrary_framed(0, gen::fee_of_link(0), 16, 9200 + (i * 10 + j) as u64),
            ];
            let bytes = Arc::new(stream::to_bytes(&pk));
            for f in [None, Some(Filter::Link(0)), Some(Filter::Link(1))] {
                for skip in [false, true] {
                    for pipe in [false, true] {
                        for chunk in [0usize, 4096] {
                            cases.push(Case { bytes: bytes.clone(), filter: f, skip, pipe, chunk, cap: 0, label: format!("sizes {a},{b}") });
                        }
                    }
                }
            }
        }
    }
    // D. every header byte takes 0x00 / 0xFF / 0xA5 in turn (framing and filter bytes excluded)
    for byte in 0..64usize {
        if (8..13).contains(&byte) || byte == 2 || byte == 3 {
            continue;
        }
        for val in [0x00u8, 0xFF, 0xA5] {
            let mut pk = gen::pattern_stream(&[0, 1, 0], 555);
            let mut hb = pk[1].rdh.encode();
            hb[byte] = val;
            pk[1].rdh = Rdh::decode(&hb);
            let bytes = Arc::new(stream::to_bytes(&pk));
            for f in [None, Some(Filter::Link(1))] {
                cases.push(Case { bytes: bytes.clone(), filter: f, skip: false, pipe: false, chunk: 0, cap: 0, label: format!("header byte {byte}={val:#x}") });
            }
        }
    }
    cases
}

// ---------------------------------------------------------------- CLI tier

/// Parses the unstyled `view rdh` rows: returns (offset, tokens) per row.
pub fn parse_rdh_rows(stdout: &str) -> Vec<(u64, Vec<String>)> {
    let mut rows = Vec::new();
    for line in stdout.lines() {
        let Some((pos, rest)) = line.split_once(':') else { continue };
        let pos = pos.trim();
        if pos.is_empty() || !pos.chars().all(|c| c.is_ascii_hexdigit()) {
            continue;
        }
        let Ok(off) = u64::from_str_radix(pos, 16) else { continue };
        let mut toks: Vec<String> = Vec::new();
        for t in rest.split_whitespace() {
            toks.push(t.to_string());
        }
        rows.push((off, toks));
    }
    rows
}

/// Expected tokens of a `view rdh` row for the header (the trigger type column is 10 wide, so a full-width
/// hexadecimal trigger type runs into the pages counter; the model renders the same fixed-width layout).
pub fn expected_rdh_tokens(r: &Rdh) -> Vec<String> {
    let line = format!(
        "{:<6}{:<7}{:<7}{:<6}{:<8}{:<6}{:<10}{:<5}{:<12}{:<11}{:<10}{:<9}{:<5}  {:#x}",
        r.header_id,
        r.header_size,
        r.fee_id,
        r.system_id,
        r.offset_next,
        r.link_id,
        r.packet_counter,
        r.bc,
        format!("{:#x}", r.orbit),
        r.data_format,
        format!("{:#x}", r.trigger_type),
        r.pages_counter,
        r.stop_bit,
        r.detector_field
    );
    line.split_whitespace().map(|s| s.to_string()).collect()
}

pub fn filter_args(f: Option<Filter>) -> Vec<String> {
    match f {
        None => vec![],
        Some(Filter::Link(l)) => vec!["--filter-link".into(), l.to_string()],
        Some(Filter::Fee(x)) => vec!["--filter-fee".into(), x.to_string()],
        Some(Filter::LayerStave(x)) => vec!["--filter-its-stave".into(), format!("L{}_{}", (x >> 12) & 7, x & 0x3F)],
    }
}

struct CliCase {
    packets: Vec<Packet>,
    filter: Option<Filter>,
    stdin: bool,
    label: String,
}

fn run_cli_case(c: &CliCase) -> Option<(String, String)> {
    let bytes = stream::to_bytes(&c.packets);
    let scratch = Scratch::new("c03");
    let mut args: Vec<String> = Vec::new();
    if !c.stdin {
        args.push(scratch.file("in.raw", &bytes).display().to_string());
    }
    args.extend(filter_args(c.filter));
    args.extend(["view".to_string(), "rdh".to_string(), "-d".to_string()]);
    let mut run = Run::new(&args).cwd(&scratch.path);
    if c.stdin {
        run = run.stdin(&bytes);
        // the producer delivers the bytes at once, or in writes of 61 / 256 / 4096 bytes with pauses (the tool's reads
        // then return less than it asked for, in the middle of headers and payloads)
        match fp_model::util::fnv(c.label.as_bytes()) % 4 {
            1 => run = run.stdin_chunk(61),
            2 => run = run.stdin_chunk(256),
            3 => run = run.stdin_chunk(4096),
            _ => {}
        }
    }
    let res = run.run();
    if res.crashed() || res.status != Some(0) {
        return Some(("cli-exit".into(), format!("view rdh exited with {:?} signal {:?}: {}", res.status, res.signal, res.stderr_str())));
    }
    let rows = parse_rdh_rows(&res.stdout_str());
    let exp = expected(&bytes, c.filter, true);
    if rows.len() != exp.packets.len() {
        return Some(("cli-row-count".into(), format!("{} rows for {} expected RDHs", rows.len(), exp.packets.len())));
    }
    for (i, ((off, toks), e)) in rows.iter().zip(exp.packets.iter()).enumerate() {
        if *off != e.0 {
            return Some(("cli-mem-pos".into(), format!("row {i}: printed offset {off:#x}, true offset {:#x}", e.0)));
        }
        let want = expected_rdh_tokens(&Rdh::decode(&e.1));
        if *toks != want {
            return Some(("cli-fields".into(), format!("row {i} at {off:#x}: printed {:?}, model {:?}", toks, want)));
        }
    }
    None
}

fn build_cli_cases(tier: Tier) -> Vec<CliCase> {
    let mut v = Vec::new();
    let pats: Vec<Vec<u8>> = if tier.is_thorough() {
        gen::sequences(&[0, 1, 2], 4)
    } else {
        vec![vec![], vec![0], vec![1, 0], vec![0, 1, 0, 1], vec![2, 0, 1, 1, 0], vec![0, 0, 1, 2, 2, 1]]
    };
    let fl: Vec<Option<Filter>> = if tier.is_thorough() {
        filters()
    } else {
        vec![None, Some(Filter::Link(1)), Some(Filter::Fee(gen::fee_of_link(0))), Some(Filter::LayerStave(gen::fee_of_link(0))), Some(Filter::Link(9))]
    };
    for (pi, p) in pats.iter().enumerate() {
        if p.is_empty() {
            continue; // empty input is C04/C16 territory (no first RDH to recognise)
        }
        // the first packet must be recognisable as ALICE data for the CLI (valid RDH0), the rest is arbitrary
        let mut pk = gen::pattern_stream(p, 300 + pi as u64);
        let mut r0 = Rdh::base();
        r0.link_id = p[0];
        r0.fee_id = gen::fee_of_link(p[0]);
        pk[0] = Packet::framed(r0, pk[0].payload.clone());
        for f in &fl {
            for stdin in [false, true] {
                v.push(CliCase { packets: pk.clone(), filter: *f, stdin, label: format!("cli pattern {:?}", p) });
            }
        }
    }
    // payload sizes through the real pipe / file readers: the skipped packet (link 1) has the size under test
    let sizes: Vec<usize> = if tier.is_thorough() {
        (0..=10_000).collect()
    } else {
        vec![0, 1, 15, 16, 17, 1023, 1024, 1025, 4095, 4096, 4097, 8191, 8192, 8193, 9983, 9984, 9999, 10_000]
    };
    for &sz in &sizes {
        let mut r0 = Rdh::base();
        r0.fee_id = gen::fee_of_link(0);
        let pk = vec![
            Packet::framed(r0, vec![0x11; 32]),
            gen::arbitrary_framed(1, gen::fee_of_link(1), sz, 70_000 + sz as u64),
            gen::arbitrary_framed(0, gen::fee_of_link(0), 48, 80_000 + sz as u64),
            gen::arbitrary_framed(1, gen::fee_of_link(1), 10_000 - sz.min(10_000), 90_000 + sz as u64),
            gen::arbitrary_framed(2, gen::fee_of_link(2), 16, 95_000 + sz as u64),
        ];
        let fl: &[Option<Filter>] = if tier.is_thorough() && sz % 16 != 0 { &[Some(Filter::Link(0))] } else { &[None, Some(Filter::Link(0)), Some(Filter::Link(2))] };
        for f in fl {
            for stdin in [true, false] {
                if !stdin && tier.is_thorough() && sz % 64 != 0 {
                    continue;
                }
                v.push(CliCase { packets: pk.clone(), filter: *f, stdin, label: format!("cli payload size {sz}") });
            }
        }
    }
    // RDH versions at the edges of the accepted range 3..=100 (every header carries that version)
    for ver in [3u8, 4, 6, 7, 99, 100] {
        let mut pk = gen::recognisable_pattern_stream(&[0, 1, 2, 0, 1], 5500 + ver as u64);
        for p in pk.iter_mut() {
            p.rdh.header_id = ver;
        }
        for stdin in [false, true] {
            v.push(CliCase { packets: pk.clone(), filter: if stdin { Some(Filter::Link(1)) } else { None }, stdin, label: format!("cli rdh version {ver}") });
        }
    }
    // batch multiples on the CLI (CAP = 100): 99 / 100 / 101 / 200 / 201 packets; long streams: 10^3 (quick), 10^4 and 10^5 packets (thorough)
    let counts: &[usize] = if tier.is_thorough() { &[99, 100, 101, 200, 201, 1000, 10_000, 100_000] } else { &[100, 101, 1000] };
    for &n in counts {
        let pattern: Vec<u8> = (0..n).map(|i| (i % 3) as u8).collect();
        // system id fixed to ITS: the first packet the analysis sees decides the system, an unknown one is fatal
        let mut pk = if n >= 1000 { gen::recognisable_pattern_stream(&pattern, 4000 + n as u64) } else { gen::pattern_stream(&pattern, 4000 + n as u64) };
        let mut r0 = Rdh::base();
        r0.fee_id = gen::fee_of_link(0);
        pk[0] = Packet::framed(r0, pk[0].payload.clone());
        for f in [None, Some(Filter::Link(1))] {
            for stdin in [false, true] {
                v.push(CliCase { packets: pk.clone(), filter: f, stdin, label: format!("cli count {n}") });
            }
        }
    }
    v
}

pub fn run(tier: Tier) -> i32 {
    let mut rep = Reporter::new("C03", tier, "exploration");
    let cases = build_cases(tier);
    let results = par_map(&cases, |_, c| run_case(c));
    let mut nontrivial = std::collections::BTreeSet::new();
    for (c, r) in cases.iter().zip(results.iter()) {
        // non-trivial: the filter skipped at least one packet, or a batch boundary was crossed, or a read was short
        let exp_n = expected(&c.bytes, c.filter, c.skip);
        let skipped = exp_n.total_rdhs as usize - exp_n.packets.len();
        if skipped > 0 || (c.cap > 0 && exp_n.packets.len() > c.cap) || c.chunk != 0 {
            nontrivial.insert((fp_model::util::fnv(&c.bytes), format!("{:?}", c.filter), c.skip, c.pipe, c.chunk, c.cap));
        }
        if let Some((aspect, detail)) = r {
            let sig = format!("scan:{}:{}", aspect, filter_class(c.filter));
            rep.violation(Violation {
                signature: sig,
                description: format!("{detail} [{} skip={} pipe={} chunk={} cap={}]", c.label, c.skip, c.pipe, c.chunk, c.cap),
                replay: case_json(c),
            });
        }
    }
    let cli_cases = build_cli_cases(tier);
    let cli_results = par_map(&cli_cases, |_, c| run_cli_case(c));
    for (c, r) in cli_cases.iter().zip(cli_results.iter()) {
        if c.filter.is_some() {
            nontrivial.insert((fp_model::util::fnv(&stream::to_bytes(&c.packets)), format!("{:?}", c.filter), true, c.stdin, 0, 1000));
        }
        if let Some((aspect, detail)) = r {
            rep.violation(Violation {
                signature: format!("scan:{}:{}", aspect, filter_class(c.filter)),
                description: format!("{detail} [{} stdin={}]", c.label, c.stdin),
                replay: json!({"engine": "enum/cli", "label": c.label, "input_hex": hex(&stream::to_bytes(&c.packets)),
                               "args": filter_args(c.filter), "stdin": c.stdin}),
            });
        }
    }
    // layer / stave filter values that no header can carry (3 bits of layer, 6 bits of stave in the FEE ID): the tool
    // shows no RDH at all or refuses the value - it does not show another stave's RDHs
    let mut oor = 0u64;
    {
        let staves = [(0u8, 1u8), (3, 2), (5, 35)];
        let pk: Vec<Packet> = (0..9).map(|i| gen::recognisable_framed((i % 3) as u8, Rdh::its_fee_id(staves[i % 3].0, staves[i % 3].1, 0), 32, 77_000 + i as u64)).collect();
        let bytes = stream::to_bytes(&pk);
        let values = ["L8_1", "L0_65", "L16_1", "L0_129", "L11_2", "L3_66", "L13_35", "L5_99", "l255_255"];
        let jobs: Vec<(&str, bool)> = values.iter().flat_map(|v| [(*v, false), (*v, true)]).collect();
        let res = par_map(&jobs, |_, (v, stdin)| -> Option<String> {
            let scratch = Scratch::new("c03r");
            let mut args: Vec<String> = Vec::new();
            if !*stdin {
                args.push(scratch.file("in.raw", &bytes).display().to_string());
            }
            args.extend(["--filter-its-stave".to_string(), v.to_string(), "view".into(), "rdh".into(), "-d".into()]);
            let mut run = Run::new(&args).cwd(&scratch.path);
            if *stdin {
                run = run.stdin(&bytes);
            }
            let r = run.run();
            if r.timed_out {
                return Some("the run did not end".into());
            }
            let rows = parse_rdh_rows(&crate::c02::strip_ansi(&r.stdout_str()));
            if !rows.is_empty() {
                return Some(format!("{} RDH rows shown (first at offset {:#x}) although no header can carry this layer / stave", rows.len(), rows[0].0));
            }
            None
        });
        for ((v, stdin), r) in jobs.iter().zip(res.iter()) {
            oor += 1;
            if let Some(d) = r {
                rep.violation(Violation { signature: "scan:out-of-range-stave-filter:rows-of-another-stave".into(), description: format!("{d} [--filter-its-stave {v} view rdh, stdin={stdin}]"), replay: json!({"engine": "enum/cli", "input_hex": hex(&bytes), "args": ["--filter-its-stave", v], "stdin": stdin}) });
            }
        }
    }
    rep.cov("out_of_range_stave_filter_cases", json!(oor));
    rep.cov("evaluations", json!(cases.len() + cli_cases.len() + oor as usize));
    rep.cov("in_process_cases", json!(cases.len()));
    rep.cov("cli_cases", json!(cli_cases.len()));
    rep.cov("distinct_nontrivial", json!(nontrivial.len()));
    rep.cov("exhaustive", json!(true));
    rep.cov(
        "rule",
        json!("complete enumeration of: link patterns over 3 links up to the tier's length x 12 filters x {load,skip} x {file,pipe} x read-chunk {all,1,7,64}; \
               batch counts around CAP in {1,2,3,100}; payload size pairs {0,16,48,9984,10000}^2; each header byte in {0,0xFF,0xA5}; CLI view rdh -d on file and stdin. \
               non-trivial = the filter skipped >= 1 packet, or more packets than one batch, or a short-read deviation was active"),
    );
    if let Some(c) = cases.get(cases.len() / 2) {
        let mut j = case_json(c);
        j["input_hex"] = json!(format!("{}… ({} bytes)", &hex(&c.bytes)[..64.min(c.bytes.len() * 2)], c.bytes.len()));
        rep.sample(j);
    }
    if let Some(c) = cli_cases.first() {
        rep.sample(json!({"engine":"enum/cli","label":c.label,"filter":format!("{:?}", c.filter),"stdin":c.stdin}));
    }
    rep.assume("the in-memory reader models BufReader<File> (seekable) and the stdin wrapper (read-discard); both are re-checked through the CLI on real files and pipes");
    rep.finish()
}

pub fn replay(v: &Value) -> i32 {
    let r = &v["replay"];
    if r["engine"] == "enum/cli" {
        let bytes = unhex(r["input_hex"].as_str().unwrap());
        let (walked, _) = stream::walk(&bytes);
        let packets: Vec<Packet> = walked.iter().map(|w| Packet { rdh: w.rdh.clone(), payload: bytes[w.payload.0..w.payload.1].to_vec() }).collect();
        // rebuild the filter from args
        let args: Vec<String> = r["args"].as_array().unwrap().iter().map(|x| x.as_str().unwrap().to_string()).collect();
        let filter = if args.is_empty() {
            None
        } else if args[0] == "--filter-link" {
            Some(Filter::Link(args[1].parse().unwrap()))
        } else if args[0] == "--filter-fee" {
            Some(Filter::Fee(args[1].parse().unwrap()))
        } else {
            let s = args[1].trim_start_matches('L');
            let (l, st) = s.split_once('_').unwrap();
            Some(Filter::LayerStave(Rdh::its_fee_id(l.parse().unwrap(), st.parse().unwrap(), 0)))
        };
        let c = CliCase { packets, filter, stdin: r["stdin"].as_bool().unwrap(), label: "replay".into() };
        match run_cli_case(&c) {
            Some((a, d)) => {
                println!("REPLAY: violation reproduced: {a}: {d}");
                1
            }
            None => {
                println!("REPLAY: no violation");
                0
            }
        }
    } else {
        let c = case_from_json(r);
        match run_case(&c) {
            Some((a, d)) => {
                println!("REPLAY: violation reproduced: {a}: {d}");
                1
            }
            None => {
                println!("REPLAY: no violation");
                0
            }
        }
    }
}
