//! Runner for the real `fastpasta` binary built from /repo (release semantics: panic = abort).
use std::io::{Read, Write};
use std::path::{Path, PathBuf};
use std::process::{Command, Stdio};
use std::sync::atomic::{AtomicU64, Ordering};
use std::time::{Duration, Instant};

pub const CLI_BIN: &str = "/verif/target/cli/release/fastpasta";

/// The CLI binary under test: `$VERIF_TARGET/cli/release/fastpasta` when a separate target root is in use
/// (trials of seeded changes run beside a long check without swapping its binaries).
pub fn cli_bin() -> String {
    match std::env::var("VERIF_TARGET") {
        Ok(t) if !t.is_empty() => format!("{t}/cli/release/fastpasta"),
        _ => CLI_BIN.to_string(),
    }
}

#[derive(Clone, Debug)]
pub struct RunResult {
    pub status: Option<i32>,
    pub signal: Option<i32>,
    pub stdout: Vec<u8>,
    pub stderr: Vec<u8>,
    pub timed_out: bool,
    pub wall: Duration,
}
impl RunResult {
    pub fn stderr_str(&self) -> String {
        String::from_utf8_lossy(&self.stderr).into_owned()
    }
    pub fn stdout_str(&self) -> String {
        String::from_utf8_lossy(&self.stdout).into_owned()
    }
    pub fn crashed(&self) -> bool {
        self.signal.is_some() || self.timed_out
    }
}

static COUNTER: AtomicU64 = AtomicU64::new(0);

/// A scratch directory removed on drop.
pub struct Scratch {
    pub path: PathBuf,
}
impl Scratch {
    pub fn new(tag: &str) -> Self {
        let n = COUNTER.fetch_add(1, Ordering::Relaxed);
        let base = std::env::var("VERIF_SCRATCH").unwrap_or_else(|_| match std::env::var("VERIF_TARGET") {
            Ok(t) if !t.is_empty() => format!("{t}/scratch"),
            _ => "/verif/target/scratch".to_string(),
        });
        let path = PathBuf::from(format!("{}/{}-{}-{}", base, tag, std::process::id(), n));
        std::fs::create_dir_all(&path).expect("scratch dir");
        Scratch { path }
    }
    pub fn file(&self, name: &str, bytes: &[u8]) -> PathBuf {
        let p = self.path.join(name);
        std::fs::write(&p, bytes).expect("write scratch file");
        p
    }
    pub fn join(&self, name: &str) -> PathBuf {
        self.path.join(name)
    }
}
impl Scratch {
    /// Creates a named pipe in the scratch directory and a feeder thread that writes `bytes` into it once a reader
    /// has opened it (gives up after 8 s if nobody does). Returns the path to hand to the tool.
    pub fn fifo(&self, name: &str, bytes: &[u8]) -> PathBuf {
        use std::os::unix::ffi::OsStrExt;
        use std::os::unix::fs::OpenOptionsExt;
        let p = self.path.join(name);
        let c = std::ffi::CString::new(p.as_os_str().as_bytes()).unwrap();
        unsafe {
            libc::mkfifo(c.as_ptr(), 0o600);
        }
        let data = bytes.to_vec();
        let path = p.clone();
        std::thread::spawn(move || {
            let start = Instant::now();
            // opening a FIFO for writing without a reader fails with ENXIO in non-blocking mode: poll for the reader
            let mut f = loop {
                match std::fs::OpenOptions::new().write(true).custom_flags(libc::O_NONBLOCK).open(&path) {
                    Ok(f) => break f,
                    Err(_) if start.elapsed() < Duration::from_secs(8) => std::thread::sleep(Duration::from_millis(2)),
                    Err(_) => return,
                }
            };
            let mut off = 0;
            while off < data.len() && start.elapsed() < Duration::from_secs(20) {
                match f.write(&data[off..]) {
                    Ok(n) => off += n,
                    Err(e) if e.kind() == std::io::ErrorKind::WouldBlock => std::thread::sleep(Duration::from_micros(200)),
                    Err(_) => return, // the reader went away
                }
            }
        });
        p
    }
}

impl Drop for Scratch {
    fn drop(&mut self) {
        let _ = std::fs::remove_dir_all(&self.path);
    }
}

pub struct Run<'a> {
    pub args: Vec<String>,
    pub stdin: Option<&'a [u8]>,
    pub cwd: Option<&'a Path>,
    pub timeout: Duration,
    /// close our end of stdout after reading this many bytes (None = read everything)
    pub close_stdout_after: Option<usize>,
    pub tmpdir: Option<&'a Path>,
    /// shrink the stdout pipe to this many bytes (the child then blocks in write until we read)
    pub stdout_pipe_size: Option<usize>,
    /// deliver stdin in writes of this many bytes with a short pause in between (a slow producer: the tool's reads
    /// return less than it asked for)
    pub stdin_chunk: Option<usize>,
    /// very large inputs without holding them in memory: `unit` written `times` times, then `tail`
    pub stdin_repeat: Option<(Vec<u8>, usize, Vec<u8>)>,
}
impl<'a> Run<'a> {
    pub fn new<S: AsRef<str>>(args: &[S]) -> Self {
        Run {
            args: args.iter().map(|s| s.as_ref().to_string()).collect(),
            stdin: None,
            cwd: None,
            timeout: Duration::from_secs(20),
            close_stdout_after: None,
            tmpdir: None,
            stdout_pipe_size: None,
            stdin_chunk: None,
            stdin_repeat: None,
        }
    }
    pub fn stdin_repeat(mut self, unit: Vec<u8>, times: usize, tail: Vec<u8>) -> Self {
        self.stdin_repeat = Some((unit, times, tail));
        self
    }
    pub fn stdin_chunk(mut self, n: usize) -> Self {
        self.stdin_chunk = Some(n.max(1));
        self
    }
    pub fn stdin(mut self, b: &'a [u8]) -> Self {
        self.stdin = Some(b);
        self
    }
    pub fn cwd(mut self, p: &'a Path) -> Self {
        self.cwd = Some(p);
        self
    }
    pub fn tmpdir(mut self, p: &'a Path) -> Self {
        self.tmpdir = Some(p);
        self
    }
    pub fn timeout_s(mut self, s: u64) -> Self {
        self.timeout = Duration::from_secs(s);
        self
    }
    pub fn stdout_pipe_size(mut self, n: usize) -> Self {
        self.stdout_pipe_size = Some(n);
        self
    }
    pub fn close_stdout_after(mut self, n: usize) -> Self {
        self.close_stdout_after = Some(n);
        self
    }

    pub fn run(self) -> RunResult {
        let start = Instant::now();
        let mut cmd = Command::new(cli_bin());
        cmd.args(&self.args)
            .stdin(if self.stdin.is_some() || self.stdin_repeat.is_some() { Stdio::piped() } else { Stdio::null() })
            .stdout(Stdio::piped())
            .stderr(Stdio::piped())
            .env("NO_COLOR", "1")
            .env("RUST_BACKTRACE", "0")
            .env_remove("RUST_LOG");
        if let Some(c) = self.cwd {
            cmd.current_dir(c);
        }
        if let Some(t) = self.tmpdir.or(self.cwd) {
            cmd.env("TMPDIR", t);
        }
        let mut child = cmd.spawn().expect("spawn fastpasta (was the CLI built?)");
        let mut stdin_thread = None;
        if let Some(data) = self.stdin {
            let mut si = child.stdin.take().unwrap();
            let data = data.to_vec();
            let chunk = self.stdin_chunk;
            stdin_thread = Some(std::thread::spawn(move || {
                match chunk {
                    None => {
                        let _ = si.write_all(&data);
                    }
                    Some(n) => {
                        for c in data.chunks(n) {
                            if si.write_all(c).is_err() {
                                break;
                            }
                            let _ = si.flush();
                            std::thread::sleep(Duration::from_micros(400));
                        }
                    }
                }
                drop(si);
            }));
        }
        if let Some((unit, times, tail)) = self.stdin_repeat.clone() {
            let mut si = child.stdin.take().unwrap();
            stdin_thread = Some(std::thread::spawn(move || {
                // write in blocks of about 1 MiB
                let per = (1usize << 20) / unit.len().max(1) + 1;
                let block: Vec<u8> = unit.iter().copied().cycle().take(unit.len() * per).collect();
                let mut left = times;
                while left > 0 {
                    let k = left.min(per);
                    if si.write_all(&block[..unit.len() * k]).is_err() {
                        return;
                    }
                    left -= k;
                }
                let _ = si.write_all(&tail);
                drop(si);
            }));
        }
        let mut so = child.stdout.take().unwrap();
        let mut se = child.stderr.take().unwrap();
        if let Some(sz) = self.stdout_pipe_size {
            use std::os::unix::io::AsRawFd;
            unsafe {
                libc::fcntl(so.as_raw_fd(), libc::F_SETPIPE_SZ, sz as libc::c_int);
            }
        }
        let close_after = self.close_stdout_after;
        let out_thread = std::thread::spawn(move || {
            let mut buf = Vec::new();
            match close_after {
                None => {
                    let _ = so.read_to_end(&mut buf);
                }
                Some(n) => {
                    let mut tmp = [0u8; 1];
                    while buf.len() < n {
                        match so.read(&mut tmp) {
                            Ok(0) | Err(_) => break,
                            Ok(_) => buf.push(tmp[0]),
                        }
                    }
                    drop(so); // close the read end: further writes of the child get EPIPE
                }
            }
            buf
        });
        let err_thread = std::thread::spawn(move || {
            let mut buf = Vec::new();
            let _ = se.read_to_end(&mut buf);
            buf
        });
        let mut timed_out = false;
        let status = loop {
            match child.try_wait().expect("try_wait") {
                Some(st) => break st,
                None => {
                    if start.elapsed() > self.timeout {
                        timed_out = true;
                        let _ = child.kill();
                        break child.wait().expect("wait");
                    }
                    std::thread::sleep(Duration::from_millis(2));
                }
            }
        };
        let stdout = out_thread.join().unwrap();
        let stderr = err_thread.join().unwrap();
        if let Some(t) = stdin_thread {
            let _ = t.join();
        }
        use std::os::unix::process::ExitStatusExt;
        RunResult {
            status: status.code(),
            signal: if timed_out { None } else { status.signal() },
            stdout,
            stderr,
            timed_out,
            wall: start.elapsed(),
        }
    }
}

/// Runs the CLI with its standard output on a pseudo-terminal of `cols` columns (24 rows); `env` is added to the
/// environment (e.g. COLUMNS). Returns what the tool wrote to the terminal (carriage returns removed) and its exit
/// status; None when no pseudo-terminal could be opened.
pub fn run_on_pty(args: &[String], cwd: &Path, cols: u16, env: &[(&str, String)]) -> Option<(Vec<u8>, Option<i32>)> {
    use std::os::unix::io::FromRawFd;
    let (mut master, mut slave) = (0 as libc::c_int, 0 as libc::c_int);
    let mut ws = libc::winsize { ws_row: 24, ws_col: cols, ws_xpixel: 0, ws_ypixel: 0 };
    let rc = unsafe { libc::openpty(&mut master, &mut slave, std::ptr::null_mut(), std::ptr::null_mut(), &mut ws) };
    if rc != 0 {
        return None;
    }
    let slave_out = unsafe { Stdio::from_raw_fd(libc::dup(slave)) };
    let mut cmd = Command::new(cli_bin());
    cmd.args(args).stdin(Stdio::null()).stdout(slave_out).stderr(Stdio::null()).current_dir(cwd).env("RUST_BACKTRACE", "0").env_remove("RUST_LOG").env_remove("NO_COLOR").env_remove("COLUMNS").env("TERM", "xterm-256color");
    for (k, v) in env {
        cmd.env(k, v);
    }
    let mut child = cmd.spawn().ok()?;
    // the command object holds the duplicated slave descriptor: it must go, or the master never sees the terminal closed
    drop(cmd);
    unsafe {
        libc::close(slave);
    }
    let mut mf = unsafe { std::fs::File::from_raw_fd(master) };
    let (tx, rx) = std::sync::mpsc::channel::<Vec<u8>>();
    std::thread::spawn(move || {
        let mut out = Vec::new();
        let mut buf = [0u8; 8192];
        loop {
            match mf.read(&mut buf) {
                Ok(0) => break,
                Ok(n) => out.extend_from_slice(&buf[..n]),
                Err(_) => break, // EIO: the last writer closed the terminal
            }
        }
        let _ = tx.send(out);
    });
    let start = Instant::now();
    let status = loop {
        match child.try_wait() {
            Ok(Some(st)) => break st.code(),
            Ok(None) if start.elapsed() > Duration::from_secs(20) => {
                let _ = child.kill();
                let _ = child.wait();
                break None;
            }
            _ => std::thread::sleep(Duration::from_millis(2)),
        }
    };
    // the reader ends when the terminal is closed; should a stray descriptor keep it open, give up after a while
    let mut out = rx.recv_timeout(Duration::from_secs(5)).ok()?;
    out.retain(|b| *b != b'\r');
    Some((out, status))
}

/// Ignore SIGPIPE in this process (writing to a child's closed stdin must not kill the harness).
pub fn ignore_sigpipe() {
    unsafe {
        libc::signal(libc::SIGPIPE, libc::SIG_IGN);
    }
}
