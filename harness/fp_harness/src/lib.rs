//! Shared machinery of the checks: reporting (violations, known findings, replay artefacts, evidence),
//! a runner for the real CLI binary, and a deterministic parallel map.
pub mod cli;
pub mod par;
pub mod report;

pub use report::{Reporter, Tier, Violation};

pub const VERIF_ROOT: &str = "/verif";
