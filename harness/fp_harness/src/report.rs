use serde_json::{json, Value};
use std::collections::BTreeMap;
use std::path::PathBuf;
use std::time::Instant;

#[derive(Clone, Copy, Debug, PartialEq, Eq)]
pub enum Tier {
    Quick,
    Thorough,
}
impl Tier {
    pub fn name(&self) -> &'static str {
        match self {
            Tier::Quick => "quick",
            Tier::Thorough => "thorough",
        }
    }
    pub fn is_thorough(&self) -> bool {
        *self == Tier::Thorough
    }
}

#[derive(Clone, Debug)]
pub struct Violation {
    /// Stable identification of *what* fails (call site / input class), matched against known_findings.json.
    pub signature: String,
    pub description: String,
    /// Everything needed to re-execute the case without the explorer.
    pub replay: Value,
}

struct Known {
    signature: String,
    status: String,
    description: String,
}

/// Replays a stored violation of a check whose cases are enumerated rather than stored: re-runs the deterministic
/// enumeration (quick tier, then thorough) looking for the stored signature. 1 = reproduced, 0 = not reproduced.
pub fn replay_by_rerun(v: &Value, run: &dyn Fn(Tier) -> i32) -> i32 {
    let sig = v["signature"].as_str().unwrap_or("").to_string();
    if sig.is_empty() {
        println!("REPLAY: the file names no signature");
        return 2;
    }
    std::env::set_var("VERIF_REPLAY_SIG", &sig);
    for tier in [Tier::Quick, Tier::Thorough] {
        match run(tier) {
            1 => return 1,
            0 => {}
            other => return other,
        }
    }
    0
}

/// Collects the outcome of one check run and writes evidence / replay files.
pub struct Reporter {
    pub property: String,
    pub tier: Tier,
    pub seed: u64,
    pub level: String,
    start: Instant,
    known: Vec<Known>,
    violations: Vec<Violation>,
    known_hits: BTreeMap<String, (String, usize)>,
    pub coverage: serde_json::Map<String, Value>,
    pub assumptions: Vec<String>,
    samples: Vec<Value>,
    machinery_errors: Vec<String>,
}

impl Reporter {
    pub fn new(property: &str, tier: Tier, level: &str) -> Self {
        let seed = std::env::var("VERIF_SEED").ok().and_then(|s| s.parse().ok()).unwrap_or(0);
        let mut known = Vec::new();
        let path = format!("{}/known_findings.json", crate::VERIF_ROOT);
        if let Ok(txt) = std::fs::read_to_string(&path) {
            let v: Value = serde_json::from_str(&txt).expect("known_findings.json is not valid JSON");
            for e in v["findings"].as_array().cloned().unwrap_or_default() {
                if e["property"].as_str() == Some(property) {
                    known.push(Known {
                        signature: e["signature"].as_str().unwrap_or("").to_string(),
                        status: e["status"].as_str().unwrap_or("known").to_string(),
                        description: e["description"].as_str().unwrap_or("").to_string(),
                    });
                }
            }
        }
        Reporter {
            property: property.to_string(),
            tier,
            seed,
            level: level.to_string(),
            start: Instant::now(),
            known,
            violations: Vec::new(),
            known_hits: BTreeMap::new(),
            coverage: serde_json::Map::new(),
            assumptions: Vec::new(),
            samples: Vec::new(),
            machinery_errors: Vec::new(),
        }
    }

    /// Registers a violation; it is either a listed known finding (status `known`) or a new violation.
    pub fn violation(&mut self, v: Violation) {
        if let Some(k) = self.known.iter().find(|k| k.status == "known" && k.signature == v.signature) {
            let e = self.known_hits.entry(k.signature.clone()).or_insert((k.description.clone(), 0));
            e.1 += 1;
            return;
        }
        // keep one violation per signature (the first = shortest, alphabets are ordered simplest-first)
        if self.violations.iter().any(|x| x.signature == v.signature) {
            return;
        }
        self.violations.push(v);
    }
    pub fn is_known(&self, signature: &str) -> bool {
        self.known.iter().any(|k| k.status == "known" && k.signature == signature)
    }

    pub fn machinery_error(&mut self, msg: String) {
        eprintln!("MACHINERY-ERROR: {msg}");
        self.machinery_errors.push(msg);
    }

    pub fn sample(&mut self, v: Value) {
        if self.samples.len() < 6 {
            self.samples.push(v);
        }
    }
    pub fn cov(&mut self, key: &str, v: Value) {
        self.coverage.insert(key.to_string(), v);
    }
    pub fn cov_add(&mut self, key: &str, n: u64) {
        let cur = self.coverage.get(key).and_then(|v| v.as_u64()).unwrap_or(0);
        self.coverage.insert(key.to_string(), json!(cur + n));
    }
    pub fn assume(&mut self, s: &str) {
        self.assumptions.push(s.to_string());
    }
    pub fn violation_count(&self) -> usize {
        self.violations.len()
    }

    /// A check may split its work over worker processes: a worker exports what it found (violations, hits of known
    /// findings, machinery errors) together with a payload of its own counters ...
    pub fn export_part(&self, payload: Value) -> Value {
        json!({
            "violations": self.violations.iter().map(|v| json!({"signature": v.signature, "description": v.description, "replay": v.replay})).collect::<Vec<_>>(),
            "known_hits": self.known_hits.iter().map(|(k, v)| json!({"signature": k, "description": v.0, "cases": v.1})).collect::<Vec<_>>(),
            "machinery": self.machinery_errors,
            "payload": payload,
        })
    }
    /// ... and the parent merges it (one violation per signature is kept, as always); returns the payload.
    pub fn import_part(&mut self, part: &Value) -> Value {
        for v in part["violations"].as_array().cloned().unwrap_or_default() {
            self.violation(Violation { signature: v["signature"].as_str().unwrap_or("").to_string(), description: v["description"].as_str().unwrap_or("").to_string(), replay: v["replay"].clone() });
        }
        for k in part["known_hits"].as_array().cloned().unwrap_or_default() {
            let e = self.known_hits.entry(k["signature"].as_str().unwrap_or("").to_string()).or_insert((k["description"].as_str().unwrap_or("").to_string(), 0));
            e.1 += k["cases"].as_u64().unwrap_or(0) as usize;
        }
        for m in part["machinery"].as_array().cloned().unwrap_or_default() {
            self.machinery_errors.push(m.as_str().unwrap_or("").to_string());
        }
        part["payload"].clone()
    }

    /// Like `finish`, but every output line goes through `emit` (for binaries that have redirected stdout).
    pub fn finish_with(self, emit: impl Fn(&str)) -> i32 {
        self.finish_impl(&emit)
    }

    /// Writes evidence + replay files, prints the KNOWN-FINDING / VIOLATION lines, returns the exit code.
    pub fn finish(self) -> i32 {
        self.finish_impl(&|l: &str| println!("{l}"))
    }

    fn finish_impl(mut self, emit: &dyn Fn(&str)) -> i32 {
        let wall = self.start.elapsed().as_secs_f64();
        // replay by re-enumeration (checks whose cases are not stored one by one): the run looks for one signature,
        // writes no evidence and no replay file, and says whether it showed up again
        if let Ok(sig) = std::env::var("VERIF_REPLAY_SIG") {
            if let Some(v) = self.violations.iter().find(|v| v.signature == sig) {
                emit(&format!("REPLAY: reproduced in tier {}: {} - {}", self.tier.name(), v.signature, v.description));
                return 1;
            }
            if let Some((desc, n)) = self.known_hits.get(&sig) {
                emit(&format!("REPLAY: reproduced in tier {} (listed known finding, {n} cases): {sig} - {desc}", self.tier.name()));
                return 1;
            }
            emit(&format!("REPLAY: signature {sig} did not occur in tier {} ({} other violations)", self.tier.name(), self.violations.len()));
            return 0;
        }
        for (sig, (desc, n)) in &self.known_hits {
            emit(&format!("KNOWN-FINDING: property={} {} ({}; {} cases)", self.property, sig, desc, n));
        }
        let mut replay_paths = Vec::new();
        for v in &self.violations {
            let dir = PathBuf::from(format!("{}/replays/{}", crate::VERIF_ROOT, self.property));
            let _ = std::fs::create_dir_all(&dir);
            let digest = fp_model::util::fnv(v.signature.as_bytes());
            let path = dir.join(format!("{:016x}.json", digest));
            let body = json!({
                "property": self.property,
                "signature": v.signature,
                "description": v.description,
                "replay": v.replay,
            });
            let _ = std::fs::write(&path, serde_json::to_string_pretty(&body).unwrap());
            emit(&format!("VIOLATION property={} replay={}", self.property, path.display()));
            emit(&format!("  signature: {}", v.signature));
            emit(&format!("  {}", v.description));
            replay_paths.push(path.display().to_string());
        }
        if !self.coverage.contains_key("samples") {
            self.coverage.insert("samples".into(), Value::Array(self.samples.clone()));
        }
        self.coverage.insert(
            "known_findings_hit".into(),
            json!(self.known_hits.iter().map(|(k, v)| json!({"signature": k, "cases": v.1})).collect::<Vec<_>>()),
        );
        let ev = json!({
            "property_id": self.property,
            "tier": self.tier.name(),
            "seed": self.seed,
            "level": self.level,
            "coverage": Value::Object(self.coverage.clone()),
            "assumptions": self.assumptions,
            "wall_s": wall,
            "violations": self.violations.len(),
            "replays": replay_paths,
            "machinery_errors": self.machinery_errors,
        });
        // trials of seeded changes (VERIF_TARGET set) must not overwrite the evidence of the real tree
        let dir = match std::env::var("VERIF_TARGET") {
            Ok(t) if !t.is_empty() => format!("{t}/evidence"),
            _ => format!("{}/evidence", crate::VERIF_ROOT),
        };
        let _ = std::fs::create_dir_all(&dir);
        let path = format!("{}/{}.json", dir, self.property);
        let tmp = format!("{}.tmp", path);
        std::fs::write(&tmp, serde_json::to_string_pretty(&ev).unwrap()).expect("write evidence");
        std::fs::rename(&tmp, &path).expect("rename evidence");
        if self.tier.is_thorough() {
            // evidence/<id>.json is rewritten by whichever tier ran last; keep the thorough record next to it
            let tdir = format!("{}/thorough", dir);
            let _ = std::fs::create_dir_all(&tdir);
            let _ = std::fs::copy(&path, format!("{}/{}.json", tdir, self.property));
        }
        // a violation that was demonstrated stands (exit 1) even if some other part of the run had a machinery problem
        if !self.violations.is_empty() {
            if !self.machinery_errors.is_empty() {
                emit(&format!("MACHINERY-ERROR (beside the violations above): {}", self.machinery_errors.first().cloned().unwrap_or_default()));
            }
            return 1;
        }
        if !self.machinery_errors.is_empty() {
            emit(&format!("MACHINERY-ERROR: {} machinery error(s); this run is not a verdict: {}", self.machinery_errors.len(), self.machinery_errors.first().cloned().unwrap_or_default()));
            return 2;
        }
        emit(&format!("OK property={} tier={} wall={:.1}s {}", self.property, self.tier.name(), wall, summary(&self.coverage)));
        0
    }
}

fn summary(c: &serde_json::Map<String, Value>) -> String {
    let mut s = String::new();
    for k in ["states", "transitions", "traces_validated_against_impl", "evaluations", "distinct_nontrivial"] {
        if let Some(v) = c.get(k) {
            s.push_str(&format!("{k}={v} "));
        }
    }
    s
}
