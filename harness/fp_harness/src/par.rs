//! Deterministic parallel map: results are returned in input order regardless of scheduling.
use std::sync::atomic::{AtomicUsize, Ordering};
use std::sync::Mutex;

pub fn threads() -> usize {
    std::env::var("VERIF_THREADS")
        .ok()
        .and_then(|s| s.parse().ok())
        .unwrap_or_else(|| std::thread::available_parallelism().map(|n| n.get()).unwrap_or(4))
}

pub fn par_map<T: Sync, R: Send, F: Fn(usize, &T) -> R + Sync>(items: &[T], f: F) -> Vec<R> {
    let n = items.len();
    let next = AtomicUsize::new(0);
    let out: Mutex<Vec<Option<R>>> = Mutex::new((0..n).map(|_| None).collect());
    let nthreads = threads().min(n.max(1));
    std::thread::scope(|s| {
        for _ in 0..nthreads {
            s.spawn(|| loop {
                let i = next.fetch_add(1, Ordering::Relaxed);
                if i >= n {
                    break;
                }
                let r = f(i, &items[i]);
                out.lock().unwrap()[i] = Some(r);
            });
        }
    });
    out.into_inner().unwrap().into_iter().map(|x| x.expect("worker died")).collect()
}
