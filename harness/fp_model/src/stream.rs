//! Streams of packets (RDH + payload) and the independent RDH chain walker.
use crate::rdh::Rdh;

#[derive(Clone, Debug, PartialEq, Eq)]
pub struct Packet {
    pub rdh: Rdh,
    pub payload: Vec<u8>,
}

impl Packet {
    /// Well-framed packet: offset-to-next = memory size = 64 + payload length.
    pub fn framed(mut rdh: Rdh, payload: Vec<u8>) -> Self {
        let sz = (64 + payload.len()) as u16;
        rdh.offset_next = sz;
        rdh.memory_size = sz;
        Packet { rdh, payload }
    }
    pub fn bytes(&self) -> Vec<u8> {
        let mut v = self.rdh.encode().to_vec();
        v.extend_from_slice(&self.payload);
        v
    }
    pub fn len(&self) -> usize {
        64 + self.payload.len()
    }
}

pub fn to_bytes(packets: &[Packet]) -> Vec<u8> {
    let mut v = Vec::new();
    for p in packets {
        v.extend_from_slice(&p.bytes());
    }
    v
}

#[derive(Clone, Debug, PartialEq, Eq)]
pub struct Walked {
    pub offset: u64,
    pub rdh: Rdh,
    /// payload byte range in the input (start, end), possibly cut short by the end of input
    pub payload: (usize, usize),
    /// the payload the header announces was completely present
    pub complete: bool,
}

#[derive(Clone, Debug, PartialEq, Eq)]
pub enum WalkEnd {
    /// input ended exactly at a packet boundary
    Clean,
    /// fewer than 64 bytes were left for the next header
    PartialHeader { offset: u64, have: usize },
    /// header at `offset` has an offset-to-next outside 64..=10064
    BadOffset { offset: u64, offset_next: u16 },
    /// last packet's payload is cut by the end of input
    PartialPayload { offset: u64 },
}

/// Follows the RDH chain from byte 0: header at `pos`, payload = memory_size - 64 bytes after it, next header
/// at `pos + offset_to_next`.
pub fn walk(input: &[u8]) -> (Vec<Walked>, WalkEnd) {
    let mut out = Vec::new();
    let mut pos: usize = 0;
    loop {
        if pos == input.len() {
            return (out, WalkEnd::Clean);
        }
        if input.len() - pos < 64 {
            return (out, WalkEnd::PartialHeader { offset: pos as u64, have: input.len() - pos });
        }
        let rdh = Rdh::decode(&input[pos..pos + 64]);
        if rdh.offset_next < 64 || rdh.offset_next > 10_064 {
            return (out, WalkEnd::BadOffset { offset: pos as u64, offset_next: rdh.offset_next });
        }
        let psz = (rdh.memory_size as usize).wrapping_sub(64) & 0xFFFF;
        let pstart = pos + 64;
        let pend = pstart + psz;
        let next = pos + rdh.offset_next as usize;
        if pend > input.len() {
            out.push(Walked { offset: pos as u64, rdh, payload: (pstart, input.len()), complete: false });
            return (out, WalkEnd::PartialPayload { offset: pos as u64 });
        }
        out.push(Walked { offset: pos as u64, rdh, payload: (pstart, pend), complete: true });
        if next > input.len() {
            // offset-to-next points past the end although the payload was complete
            return (out, WalkEnd::Clean);
        }
        pos = next;
    }
}

#[derive(Clone, Copy, Debug, PartialEq, Eq, Hash)]
pub enum Filter {
    Link(u8),
    Fee(u16),
    /// layer/stave as a FEE id pattern: only layer [14:12] and stave [5:0] are compared
    LayerStave(u16),
}
impl Filter {
    pub fn matches(&self, r: &Rdh) -> bool {
        match *self {
            Filter::Link(l) => r.link_id == l,
            Filter::Fee(f) => r.fee_id == f,
            Filter::LayerStave(f) => (r.fee_id & 0x703F) == (f & 0x703F),
        }
    }
}
