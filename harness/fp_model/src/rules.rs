//! Rule table of the reference model (DESIGN.md Appendix A): what `doc/checks_list.md`, the README error-code
//! families and the property texts say is a violation, as predicates on bytes.
use crate::rdh::Rdh;
use crate::words;

pub const BC_MAX: u16 = 0xdeb;

/// Documented RDH sanity conditions. `first_header_id` = header id of the first RDH seen on the link (or the
/// configured RDH version), `its` = an ITS target is selected (system id must be 0x20).
/// Returns the list of violated conditions (empty = conforming).
pub fn rdh_sanity_violations(r: &Rdh, first_header_id: u8, its: bool) -> Vec<&'static str> {
    let mut v = Vec::new();
    // RDH0
    if r.header_id != first_header_id {
        v.push("header id differs from first header id");
    }
    if r.header_size != 0x40 {
        v.push("header size != 0x40");
    }
    if r.fee_id & 0x8CC0 != 0 {
        v.push("FEE id reserved bits");
    }
    if (r.fee_id & 0x3F) > 47 {
        v.push("stave > 47");
    }
    if ((r.fee_id >> 12) & 7) > 6 {
        v.push("layer > 6");
    }
    if r.priority != 0 {
        v.push("priority bit");
    }
    if r.rdh0_reserved != 0 {
        v.push("RDH0 reserved");
    }
    if its && r.system_id != 0x20 {
        v.push("system id != ITS");
    }
    // RDH1
    if r.bc > BC_MAX {
        v.push("BC > 0xdeb");
    }
    if r.rdh1_reserved != 0 {
        v.push("RDH1 reserved");
    }
    // RDH2
    if r.stop_bit > 1 {
        v.push("stop bit > 1");
    }
    if r.trigger_type == 0 {
        v.push("trigger type 0");
    }
    if r.trigger_type & 0x07FF_8000 != 0 {
        v.push("trigger spare bits 15..26");
    }
    if r.rdh2_reserved != 0 {
        v.push("RDH2 reserved");
    }
    // RDH3
    if r.rdh3_reserved != 0 {
        v.push("RDH3 reserved");
    }
    if r.detector_field & 0x00FF_F000 != 0 {
        v.push("detector field reserved 23:12");
    }
    if r.dw > 1 {
        v.push("dw > 1");
    }
    if r.data_format > 2 {
        v.push("data format > 2");
    }
    v
}

/// Documented running rules on the RDH sequence of one link.
#[derive(Clone, Debug, PartialEq, Eq, Hash, Default)]
pub struct RunningModel {
    pub expected_page: u16,
    /// (stop bit, orbit, trigger type, fee id) of the previous RDH
    pub last: Option<(u8, u32, u32, u16)>,
}

impl RunningModel {
    /// Returns the violated running rules for `r` and advances the state.
    pub fn step(&mut self, r: &Rdh) -> Vec<&'static str> {
        let mut v = Vec::new();
        match r.stop_bit {
            0 => {
                if r.pages_counter != self.expected_page {
                    v.push("page counter != expected");
                }
                self.expected_page = self.expected_page.wrapping_add(1);
            }
            1 => {
                if r.pages_counter != self.expected_page {
                    v.push("page counter != expected");
                }
                self.expected_page = 0;
            }
            _ => v.push("stop bit not 0/1"),
        }
        if let Some((lstop, lorbit, ltrg, lfee)) = self.last {
            if lstop == 1 && lorbit == r.orbit {
                v.push("orbit unchanged after stop");
            }
            if r.pages_counter != 0 {
                if r.orbit != lorbit {
                    v.push("orbit changed inside HBF");
                }
                if r.trigger_type != ltrg {
                    v.push("trigger changed inside HBF");
                }
                if r.fee_id != lfee {
                    v.push("FEE id changed inside HBF");
                }
            }
        }
        self.last = Some((r.stop_bit, r.orbit, r.trigger_type, r.fee_id));
        v
    }
}

// ----------------------------------------------------------------------------- word level

fn bits(w: &[u8], lo: usize, hi: usize) -> u128 {
    // inclusive bit range of the 80-bit little-endian word
    let mut x: u128 = 0;
    for (i, b) in w.iter().enumerate().take(10) {
        x |= (*b as u128) << (8 * i);
    }
    (x >> lo) & ((1u128 << (hi - lo + 1)) - 1)
}

/// IHW: id 0xE0, bits 71:28 reserved.
pub fn ihw_sane(w: &[u8]) -> bool {
    w[9] == words::ID_IHW && bits(w, 28, 71) == 0
}
/// TDH: id 0xE8, bit 15, 31:28, 71:64 reserved; trigger type != 0 or internal trigger set.
pub fn tdh_sane(w: &[u8]) -> bool {
    w[9] == words::ID_TDH
        && bits(w, 15, 15) == 0
        && bits(w, 28, 31) == 0
        && bits(w, 64, 71) == 0
        && !(bits(w, 0, 11) == 0 && bits(w, 12, 12) == 0)
}
/// TDT: id 0xF0, bits 60:56, 66, 71:68 reserved.
pub fn tdt_sane(w: &[u8]) -> bool {
    w[9] == words::ID_TDT && bits(w, 56, 60) == 0 && bits(w, 66, 66) == 0 && bits(w, 68, 71) == 0
}
/// DDW0: id 0xE4, bits 63:56, 64, 66 reserved, index (71:68) = 0.
pub fn ddw0_sane(w: &[u8]) -> bool {
    w[9] == words::ID_DDW0 && bits(w, 56, 63) == 0 && bits(w, 64, 64) == 0 && bits(w, 66, 66) == 0 && bits(w, 68, 71) == 0
}

#[derive(Clone, Debug, PartialEq, Eq, Default)]
pub struct DataWordVerdict {
    /// identifier outside every valid IL/ML/OL range
    pub bad_id: bool,
    /// lane not active in the governing IHW
    pub lane_inactive: bool,
    /// outer barrel connector input > 6
    pub bad_input: bool,
}
impl DataWordVerdict {
    pub fn reported(&self) -> bool {
        self.bad_id || self.lane_inactive || self.bad_input
    }
}

/// Data word rules: valid id ranges; inner barrel (id[7:5] = 001): lane = id[4:0] must be active; outer barrel
/// (id[7:5] = 010): lane = connector*7 + input must be active and input <= 6. The lane rules are running checks.
pub fn data_word_verdict(id: u8, active_lanes: u32) -> DataWordVerdict {
    let mut v = DataWordVerdict { bad_id: !words::is_valid_data_id(id), ..Default::default() };
    if words::is_ib_id(id) {
        let lane = words::ib_lane(id) as u32;
        v.lane_inactive = active_lanes & (1u32 << lane) == 0;
    } else if words::is_ob_id(id) {
        let input = id & 7;
        if input > 6 {
            v.bad_input = true;
        }
        let lane = words::ob_lane(id) as u32;
        // an input of 7 maps outside the connector's lanes; the lane rule is only defined for inputs 0..=6
        if input <= 6 {
            v.lane_inactive = active_lanes & (1u32 << lane) == 0;
        }
    }
    v
}

/// Error-code families of the README: a reported code belongs to the family if it equals the family code or
/// extends it (E44 covers E440..E445, E99 covers E990..E992, E70 ... ).
pub fn code_in_family(code: &str, family: &str) -> bool {
    code == family || (code.starts_with(family) && code.len() > family.len())
}

/// Extracts `(offset, codes)` from an error message of the tool: leading `0x..:` and every `[Ennn]` tag.
pub fn parse_error_message(msg: &str) -> Option<(u64, Vec<String>)> {
    let t = msg.trim_start();
    let rest = t.strip_prefix("0x").or_else(|| t.strip_prefix("0X"))?;
    let end = rest.find(':')?;
    let off = u64::from_str_radix(&rest[..end], 16).ok()?;
    let mut codes = Vec::new();
    let b = msg.as_bytes();
    let mut i = 0;
    while i + 2 < b.len() {
        if b[i] == b'[' && b[i + 1] == b'E' {
            if let Some(j) = msg[i..].find(']') {
                let c = &msg[i + 1..i + j];
                if c.len() >= 2 && c[1..].chars().all(|ch| ch.is_ascii_digit()) {
                    codes.push(c.to_string());
                }
                i += j;
            }
        }
        i += 1;
    }
    Some((off, codes))
}
