//! ITS payload words (80 bit = 10 bytes, byte 9 is the identifier), encoders and field decoders.

pub const ID_IHW: u8 = 0xE0;
pub const ID_TDH: u8 = 0xE8;
pub const ID_TDT: u8 = 0xF0;
pub const ID_DDW0: u8 = 0xE4;
pub const ID_CDW: u8 = 0xF8;

pub type Word = [u8; 10];

/// IHW: bits 27:0 active lanes, 71:28 reserved, 79:72 id.
pub fn ihw(active_lanes: u32) -> Word {
    let mut w = [0u8; 10];
    w[0..4].copy_from_slice(&(active_lanes & 0x0FFF_FFFF).to_le_bytes());
    w[9] = ID_IHW;
    w
}

#[derive(Clone, Copy, Debug, PartialEq, Eq, Hash)]
pub struct Tdh {
    /// 12 bits
    pub trigger_type: u16,
    pub internal: bool,
    pub no_data: bool,
    pub continuation: bool,
    /// 12 bits
    pub bc: u16,
    pub orbit: u32,
}
impl Tdh {
    /// TDH: 11:0 trigger type, 12 internal trigger, 13 no data, 14 continuation, 15 reserved,
    /// 27:16 trigger BC, 31:28 reserved, 63:32 trigger orbit, 71:64 reserved, 79:72 id.
    pub fn encode(&self) -> Word {
        let mut w = [0u8; 10];
        let lo: u16 = (self.trigger_type & 0xFFF)
            | ((self.internal as u16) << 12)
            | ((self.no_data as u16) << 13)
            | ((self.continuation as u16) << 14);
        w[0..2].copy_from_slice(&lo.to_le_bytes());
        w[2..4].copy_from_slice(&(self.bc & 0xFFF).to_le_bytes());
        w[4..8].copy_from_slice(&self.orbit.to_le_bytes());
        w[9] = ID_TDH;
        w
    }
    pub fn decode(w: &[u8]) -> Self {
        let lo = u16::from_le_bytes([w[0], w[1]]);
        Tdh {
            trigger_type: lo & 0xFFF,
            internal: lo & (1 << 12) != 0,
            no_data: lo & (1 << 13) != 0,
            continuation: lo & (1 << 14) != 0,
            bc: u16::from_le_bytes([w[2], w[3]]) & 0xFFF,
            orbit: u32::from_le_bytes([w[4], w[5], w[6], w[7]]),
        }
    }
}

#[derive(Clone, Copy, Debug, PartialEq, Eq, Hash, Default)]
pub struct Tdt {
    /// 56 bits: 2 bits per lane, 28 lanes
    pub lane_status: u64,
    pub timeout_to_start: bool,
    pub timeout_start_stop: bool,
    pub timeout_in_idle: bool,
    pub lane_starts_violation: bool,
    pub transmission_timeout: bool,
    pub packet_done: bool,
}
impl Tdt {
    /// TDT: 55:0 lane status, 60:56 reserved, 61 timeout in idle, 62 timeout start stop, 63 timeout to start,
    /// 64 packet done, 65 transmission timeout, 66 reserved, 67 lane starts violation, 71:68 reserved, 79:72 id.
    pub fn encode(&self) -> Word {
        let mut w = [0u8; 10];
        let ls = self.lane_status & 0x00FF_FFFF_FFFF_FFFF;
        w[0..7].copy_from_slice(&ls.to_le_bytes()[0..7]);
        w[7] = ((self.timeout_to_start as u8) << 7)
            | ((self.timeout_start_stop as u8) << 6)
            | ((self.timeout_in_idle as u8) << 5);
        w[8] = (self.packet_done as u8)
            | ((self.transmission_timeout as u8) << 1)
            | ((self.lane_starts_violation as u8) << 3);
        w[9] = ID_TDT;
        w
    }
    pub fn done(packet_done: bool) -> Word {
        Tdt { packet_done, ..Default::default() }.encode()
    }
}

#[derive(Clone, Copy, Debug, PartialEq, Eq, Hash, Default)]
pub struct Ddw0 {
    /// 56 bits
    pub lane_status: u64,
    pub transmission_timeout: bool,
    pub lane_starts_violation: bool,
    /// 4 bits, must be 0
    pub index: u8,
}
impl Ddw0 {
    /// DDW0: 55:0 lane status, 63:56 reserved, 64 reserved, 65 transmission timeout, 66 reserved,
    /// 67 lane starts violation, 71:68 index, 79:72 id.
    pub fn encode(&self) -> Word {
        let mut w = [0u8; 10];
        let ls = self.lane_status & 0x00FF_FFFF_FFFF_FFFF;
        w[0..7].copy_from_slice(&ls.to_le_bytes()[0..7]);
        w[8] = ((self.transmission_timeout as u8) << 1)
            | ((self.lane_starts_violation as u8) << 3)
            | ((self.index & 0xF) << 4);
        w[9] = ID_DDW0;
        w
    }
}

/// CDW: 47:0 user fields, 71:48 calibration word index, 79:72 id.
pub fn cdw(user_fields: u64, index: u32) -> Word {
    let mut w = [0u8; 10];
    let lo: u64 = (user_fields & 0xFFFF_FFFF_FFFF) | (((index as u64) & 0xFFFF) << 48);
    w[0..8].copy_from_slice(&lo.to_le_bytes());
    w[8] = ((index >> 16) & 0xFF) as u8;
    w[9] = ID_CDW;
    w
}

pub fn data_word(id: u8, data: [u8; 9]) -> Word {
    let mut w = [0u8; 10];
    w[0..9].copy_from_slice(&data);
    w[9] = id;
    w
}

/// Inner barrel data word id for lane 0..=8.
pub fn ib_id(lane: u8) -> u8 {
    0x20 | (lane & 0x1F)
}
/// Outer barrel data word id for connector 0..=3, input 0..=6  (0b010 cc iii).
pub fn ob_id(connector: u8, input: u8) -> u8 {
    0x40 | ((connector & 3) << 3) | (input & 7)
}
/// Lane number (bit in the IHW active-lane mask) of an outer barrel id: connector * 7 + input.
pub fn ob_lane(id: u8) -> u8 {
    ((id >> 3) & 3) * 7 + (id & 7)
}
pub fn ib_lane(id: u8) -> u8 {
    id & 0x1F
}

/// Valid data word identifiers per the ITS data format (IL, ML/OL).
pub fn is_valid_data_id(id: u8) -> bool {
    matches!(id, 0x20..=0x28 | 0x40..=0x46 | 0x48..=0x4E | 0x50..=0x56 | 0x58..=0x5E)
}
pub fn is_ib_id(id: u8) -> bool {
    (id >> 5) == 0b001
}
pub fn is_ob_id(id: u8) -> bool {
    (id >> 5) == 0b010
}

/// Middle layer (layers 3,4): 8 lanes per half-stave FEE: the ML ids of the check list
/// (0x43..=0x46, 0x48..=0x4B, 0x53..=0x56, 0x58..=0x5B); one FEE reads connectors {0,1} or {2,3}.
pub fn ml_ids(upper: bool) -> Vec<u8> {
    if upper {
        (0x53..=0x56).chain(0x58..=0x5B).collect()
    } else {
        (0x43..=0x46).chain(0x48..=0x4B).collect()
    }
}
/// Outer layer (layers 5,6): 14 lanes per FEE: connectors {0,1} or {2,3}, inputs 0..=6.
pub fn ol_ids(upper: bool) -> Vec<u8> {
    if upper {
        (0x50..=0x56).chain(0x58..=0x5E).collect()
    } else {
        (0x40..=0x46).chain(0x48..=0x4E).collect()
    }
}

#[derive(Clone, Copy, Debug, PartialEq, Eq, Hash)]
pub enum WordKind {
    Ihw,
    Tdh,
    Tdt,
    Ddw0,
    Cdw,
    Data,
    Unknown,
}
/// Classification by identifier alone.
pub fn kind_by_id(id: u8) -> WordKind {
    match id {
        ID_IHW => WordKind::Ihw,
        ID_TDH => WordKind::Tdh,
        ID_TDT => WordKind::Tdt,
        ID_DDW0 => WordKind::Ddw0,
        ID_CDW => WordKind::Cdw,
        x if is_valid_data_id(x) => WordKind::Data,
        _ => WordKind::Unknown,
    }
}
