//! Reference model for the fastPASTA verification harness.
//!
//! Written from the protocol documents (RDH v6/v7 layout, ITS data format, `doc/checks_list.md`,
//! `doc/ITS_payload_fsm_continuous_mode.puml`, README error-code families) and from the texts of the
//! given properties. It shares **no code** with the repository: no `use fastpasta`/`alice_protocol_reader`.
pub mod rdh;
pub mod words;
pub mod payload;
pub mod stream;
pub mod util;
pub mod grammar;
pub mod alpide;
pub mod rules;
pub mod fsm;
