//! Byte-level RDH (CRU flavour, v6/v7) codec: 64 bytes, little-endian fields.
//!
//! Layout (byte offsets):
//!  0 header id | 1 header size | 2-3 FEE id | 4 priority | 5 system id | 6-7 reserved
//!  8-9 offset to next | 10-11 memory size | 12 link id | 13 packet counter | 14-15 CRU id[11:0] + DW[15:12]
//!  16-19 BC[11:0] + reserved[31:12] | 20-23 orbit
//!  24 data format | 25-31 reserved
//!  32-35 trigger type | 36-37 pages counter | 38 stop bit | 39 reserved
//!  40-47 reserved
//!  48-51 detector field | 52-53 PAR bit | 54-55 reserved
//!  56-63 reserved

pub const RDH_SIZE: usize = 64;

#[derive(Clone, Debug, PartialEq, Eq, Hash)]
pub struct Rdh {
    pub header_id: u8,
    pub header_size: u8,
    pub fee_id: u16,
    pub priority: u8,
    pub system_id: u8,
    pub rdh0_reserved: u16,
    pub offset_next: u16,
    pub memory_size: u16,
    pub link_id: u8,
    pub packet_counter: u8,
    /// 12 bits
    pub cru_id: u16,
    /// 4 bits
    pub dw: u8,
    /// 12 bits
    pub bc: u16,
    /// 20 bits (bits 12..31 of the BC word)
    pub rdh1_reserved: u32,
    pub orbit: u32,
    pub data_format: u8,
    /// 56 bits (bytes 25..31)
    pub reserved0: u64,
    pub trigger_type: u32,
    pub pages_counter: u16,
    pub stop_bit: u8,
    pub rdh2_reserved: u8,
    pub reserved1: u64,
    pub detector_field: u32,
    pub par_bit: u16,
    pub rdh3_reserved: u16,
    pub reserved2: u64,
}

impl Rdh {
    /// A conforming ITS RDH (v7, data format 2, page 0 of an HBF, HB+TF+SOC trigger) with no payload.
    pub fn base() -> Self {
        Rdh {
            header_id: 7,
            header_size: 0x40,
            fee_id: 0x0000,
            priority: 0,
            system_id: 0x20,
            rdh0_reserved: 0,
            offset_next: 64,
            memory_size: 64,
            link_id: 0,
            packet_counter: 0,
            cru_id: 0x018,
            dw: 0,
            bc: 0,
            rdh1_reserved: 0,
            orbit: 0x0B7D_D575,
            data_format: 2,
            reserved0: 0,
            trigger_type: 0x6A03,
            pages_counter: 0,
            stop_bit: 0,
            rdh2_reserved: 0,
            reserved1: 0,
            detector_field: 0,
            par_bit: 0,
            rdh3_reserved: 0,
            reserved2: 0,
        }
    }

    pub fn encode(&self) -> [u8; 64] {
        let mut b = [0u8; 64];
        b[0] = self.header_id;
        b[1] = self.header_size;
        b[2..4].copy_from_slice(&self.fee_id.to_le_bytes());
        b[4] = self.priority;
        b[5] = self.system_id;
        b[6..8].copy_from_slice(&self.rdh0_reserved.to_le_bytes());
        b[8..10].copy_from_slice(&self.offset_next.to_le_bytes());
        b[10..12].copy_from_slice(&self.memory_size.to_le_bytes());
        b[12] = self.link_id;
        b[13] = self.packet_counter;
        let cd: u16 = (self.cru_id & 0x0FFF) | ((self.dw as u16 & 0xF) << 12);
        b[14..16].copy_from_slice(&cd.to_le_bytes());
        let bcw: u32 = (self.bc as u32 & 0xFFF) | ((self.rdh1_reserved & 0xF_FFFF) << 12);
        b[16..20].copy_from_slice(&bcw.to_le_bytes());
        b[20..24].copy_from_slice(&self.orbit.to_le_bytes());
        let dfw: u64 = (self.data_format as u64) | ((self.reserved0 & 0x00FF_FFFF_FFFF_FFFF) << 8);
        b[24..32].copy_from_slice(&dfw.to_le_bytes());
        b[32..36].copy_from_slice(&self.trigger_type.to_le_bytes());
        b[36..38].copy_from_slice(&self.pages_counter.to_le_bytes());
        b[38] = self.stop_bit;
        b[39] = self.rdh2_reserved;
        b[40..48].copy_from_slice(&self.reserved1.to_le_bytes());
        b[48..52].copy_from_slice(&self.detector_field.to_le_bytes());
        b[52..54].copy_from_slice(&self.par_bit.to_le_bytes());
        b[54..56].copy_from_slice(&self.rdh3_reserved.to_le_bytes());
        b[56..64].copy_from_slice(&self.reserved2.to_le_bytes());
        b
    }

    pub fn decode(b: &[u8]) -> Self {
        assert!(b.len() >= 64);
        let u16le = |i: usize| u16::from_le_bytes([b[i], b[i + 1]]);
        let u32le = |i: usize| u32::from_le_bytes([b[i], b[i + 1], b[i + 2], b[i + 3]]);
        let u64le = |i: usize| {
            let mut a = [0u8; 8];
            a.copy_from_slice(&b[i..i + 8]);
            u64::from_le_bytes(a)
        };
        let cd = u16le(14);
        let bcw = u32le(16);
        let dfw = u64le(24);
        Rdh {
            header_id: b[0],
            header_size: b[1],
            fee_id: u16le(2),
            priority: b[4],
            system_id: b[5],
            rdh0_reserved: u16le(6),
            offset_next: u16le(8),
            memory_size: u16le(10),
            link_id: b[12],
            packet_counter: b[13],
            cru_id: cd & 0x0FFF,
            dw: (cd >> 12) as u8,
            bc: (bcw & 0xFFF) as u16,
            rdh1_reserved: bcw >> 12,
            orbit: u32le(20),
            data_format: (dfw & 0xFF) as u8,
            reserved0: dfw >> 8,
            trigger_type: u32le(32),
            pages_counter: u16le(36),
            stop_bit: b[38],
            rdh2_reserved: b[39],
            reserved1: u64le(40),
            detector_field: u32le(48),
            par_bit: u16le(52),
            rdh3_reserved: u16le(54),
            reserved2: u64le(56),
        }
    }

    /// ITS FEE id composition: layer [14:12], fiber uplink [9:8], stave [5:0].
    pub fn its_fee_id(layer: u8, stave: u8, fiber: u8) -> u16 {
        ((layer as u16 & 0x7) << 12) | ((fiber as u16 & 0x3) << 8) | (stave as u16 & 0x3F)
    }
    pub fn layer(&self) -> u8 {
        ((self.fee_id >> 12) & 0x7) as u8
    }
    pub fn stave(&self) -> u8 {
        (self.fee_id & 0x3F) as u8
    }
}

/// The row `view rdh` prints for an RDH (unstyled), as documented by the column header of the tool:
/// version, header size, FEE id, system id, offset next, link, packet counter, BC, orbit, data format,
/// trigger type, pages counter, stop bit, detector field — returned as the list of column tokens.
pub fn view_tokens(r: &Rdh) -> Vec<String> {
    vec![
        r.header_id.to_string(),
        r.header_size.to_string(),
        r.fee_id.to_string(),
        r.system_id.to_string(),
        r.offset_next.to_string(),
        r.link_id.to_string(),
        r.packet_counter.to_string(),
    ]
}

#[cfg(test)]
mod tests {
    use super::*;
    #[test]
    fn roundtrip() {
        let mut r = Rdh::base();
        r.fee_id = 0x502A;
        r.cru_id = 0xABC;
        r.dw = 0x5;
        r.bc = 0xdeb;
        r.rdh1_reserved = 0xFFFFF;
        r.reserved0 = 0x00AB_CDEF_0123_4567;
        r.detector_field = 0x1234_5678;
        let e = r.encode();
        assert_eq!(Rdh::decode(&e), r);
    }
}
