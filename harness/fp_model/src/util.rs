//! Small helpers: hex, combinatorics.

pub fn hex(b: &[u8]) -> String {
    let mut s = String::with_capacity(b.len() * 2);
    for x in b {
        s.push_str(&format!("{:02x}", x));
    }
    s
}
pub fn unhex(s: &str) -> Vec<u8> {
    let s = s.as_bytes();
    (0..s.len() / 2)
        .map(|i| u8::from_str_radix(std::str::from_utf8(&s[2 * i..2 * i + 2]).unwrap(), 16).unwrap())
        .collect()
}

/// All order-preserving merges of sequences with the given lengths, as sequences of sequence indices.
pub fn merges(lens: &[usize]) -> Vec<Vec<usize>> {
    fn rec(rem: &mut Vec<usize>, cur: &mut Vec<usize>, out: &mut Vec<Vec<usize>>) {
        if rem.iter().all(|&r| r == 0) {
            out.push(cur.clone());
            return;
        }
        for i in 0..rem.len() {
            if rem[i] > 0 {
                rem[i] -= 1;
                cur.push(i);
                rec(rem, cur, out);
                cur.pop();
                rem[i] += 1;
            }
        }
    }
    let mut out = Vec::new();
    rec(&mut lens.to_vec(), &mut Vec::new(), &mut out);
    out
}

/// FNV-1a 64
pub fn fnv(b: &[u8]) -> u64 {
    let mut h: u64 = 0xcbf29ce484222325;
    for x in b {
        h ^= *x as u64;
        h = h.wrapping_mul(0x100000001b3);
    }
    h
}
