//! Stream grammar (DESIGN.md Appendix C): conforming ITS streams as *shapes* rendered to bytes + ground truth.
//!
//! ```text
//! Stream   := HBF+                          orbit(HBF_i) != orbit(HBF_{i-1}); same FEE/link; same trigger & orbit on all pages
//! HBF      := Page(0) Page(1..k-1)* Stop(k) pages counted 0,1,2..; stop bit only on the last
//! Page(p)  := RDH IHW Ev+ | RDH IHW TDH(cont) Data* TDT Ev*      (second form iff previous page ended with TDT(done=0))
//! Ev       := TDH(nd=1) | TDH(nd=0) CDW? Data* TDT(done)         (done=0 ends the page)
//! Stop(k)  := RDH(stop=1,page=k) DDW0
//! ```
use crate::payload;
use crate::rdh::Rdh;
use crate::stream::Packet;
use crate::words::{self, Tdh, Tdt, Word};

#[derive(Clone, Debug, PartialEq, Eq, Hash)]
pub enum Ev {
    /// TDH with no_data = 1
    NoData,
    /// TDH(no_data = 0) [CDW] data words TDT(packet_done = done)
    Data { words: Vec<Word>, cdw: bool, done: bool },
}

#[derive(Clone, Debug, PartialEq, Eq, Hash, Default)]
pub struct PageShape {
    /// continuation of the event the previous page left open: IHW TDH(cont=1) data words TDT(done)
    pub cont: Option<(Vec<Word>, bool)>,
    pub evs: Vec<Ev>,
}

#[derive(Clone, Debug, PartialEq, Eq, Hash, Default)]
pub struct HbfShape {
    pub pages: Vec<PageShape>,
}

impl HbfShape {
    /// Structural validity per the grammar.
    pub fn is_valid(&self) -> bool {
        if self.pages.is_empty() {
            return false;
        }
        let mut open = false;
        for p in &self.pages {
            if p.cont.is_some() != open {
                return false;
            }
            open = false;
            if let Some((_, done)) = &p.cont {
                if !*done {
                    if !p.evs.is_empty() {
                        return false;
                    }
                    open = true;
                }
            } else if p.evs.is_empty() {
                return false;
            }
            for (i, e) in p.evs.iter().enumerate() {
                if let Ev::Data { done: false, .. } = e {
                    if i + 1 != p.evs.len() {
                        return false;
                    }
                    open = true;
                }
            }
        }
        !open
    }
}

#[derive(Clone, Debug, PartialEq, Eq, Hash)]
pub struct LinkCfg {
    pub link_id: u8,
    pub fee_id: u16,
    /// data word identifiers of the lanes this FEE reads (all set active in the IHW)
    pub lanes: Vec<u8>,
    pub data_format: u8,
    pub rdh_version: u8,
    pub detector_field: u32,
    pub cru_id: u16,
    pub dw: u8,
    pub first_orbit: u32,
    /// RDH trigger type of HBF i = triggers[i % len]
    pub triggers: Vec<u32>,
    /// RDH BC of HBF i = rdh_bcs[i % len]
    pub rdh_bcs: Vec<u16>,
    /// BC distance between consecutive triggers inside an HBF
    pub bc_step: u16,
    /// every TDH carries the internal-trigger flag (otherwise only those mirroring an RDH with bit 4 clear... see render)
    pub internal: bool,
    /// mixed trigger history: the first TDH of an HBF whose RDH trigger type carries the PhT bit is a physics
    /// trigger (internal flag clear, mirrors the RDH), every other TDH is an internal one
    pub physics_first_on_pht: bool,
    /// status flags set in every TDT (not reserved bits, no protocol meaning for the checks): bit 0 transmission
    /// timeout, bit 1 lane starts violation, bit 2 timeout to start, bit 3 timeout start-stop, bit 4 timeout in idle
    pub tdt_status: u8,
    /// RDH packet counter of the link's first packet (8 bits, wraps)
    pub first_packet_counter: u8,
}

pub const TRG_SOC_HB_TF: u32 = 0x6A03; // ORBIT|HB|TF|SOC|... as in the recorded data (SOT/SOC at run start)
pub const TRG_HB: u32 = 0x0003; // ORBIT | HB
pub const TRG_PHT: u32 = 0x0013; // ORBIT | HB | PhT
pub const TRG_HB_TF: u32 = 0x0803; // ORBIT | HB | TF

impl LinkCfg {
    pub fn ib(link_id: u8, stave: u8) -> Self {
        LinkCfg {
            link_id,
            fee_id: Rdh::its_fee_id(0, stave, 0),
            lanes: vec![0x20, 0x21, 0x22],
            data_format: 2,
            rdh_version: 7,
            detector_field: 0,
            cru_id: 0x18,
            dw: 0,
            first_orbit: 0x0B7D_D575,
            triggers: vec![TRG_SOC_HB_TF, TRG_HB, TRG_HB_TF],
            rdh_bcs: vec![0],
            bc_step: 0x100,
            internal: true,
            physics_first_on_pht: false,
            tdt_status: 0,
            first_packet_counter: 0,
        }
    }
    pub fn ml(link_id: u8, stave: u8, upper: bool) -> Self {
        LinkCfg { fee_id: Rdh::its_fee_id(3, stave, upper as u8), lanes: words::ml_ids(upper), ..Self::ib(link_id, stave) }
    }
    pub fn ol(link_id: u8, stave: u8, upper: bool) -> Self {
        LinkCfg { fee_id: Rdh::its_fee_id(5, stave, upper as u8), lanes: words::ol_ids(upper), ..Self::ib(link_id, stave) }
    }
    pub fn active_lanes_mask(&self) -> u32 {
        let mut m = 0u32;
        for &id in &self.lanes {
            let lane = if words::is_ib_id(id) { words::ib_lane(id) } else { words::ob_lane(id) };
            m |= 1 << lane;
        }
        m
    }
    /// `n` data words over the link's lanes (round-robin) with arbitrary, deterministic content.
    pub fn data_words(&self, n: usize, salt: u64) -> Vec<Word> {
        (0..n)
            .map(|i| {
                let id = self.lanes[i % self.lanes.len()];
                let mut d = [0u8; 9];
                for (j, b) in d.iter_mut().enumerate() {
                    *b = (crate::util::fnv(&[salt.to_le_bytes().as_slice(), &[i as u8, j as u8]].concat()) >> 11) as u8;
                }
                words::data_word(id, d)
            })
            .collect()
    }
}

#[derive(Clone, Copy, Debug, PartialEq, Eq, Hash)]
pub enum WKind {
    Ihw,
    IhwCont,
    Tdh,
    /// TDH that follows a TDT(done) or a no-data TDH in the same page
    TdhAfter,
    TdhCont,
    Cdw,
    Data,
    Tdt,
    Ddw0,
}

#[derive(Clone, Debug, PartialEq, Eq)]
pub struct WordTruth {
    /// index of the word in its packet
    pub index: usize,
    pub bytes: Word,
    pub kind: WKind,
}

#[derive(Clone, Debug, PartialEq, Eq)]
pub struct PacketT {
    pub packet: Packet,
    pub words: Vec<WordTruth>,
    pub hbf: usize,
    pub page: usize,
}

impl PacketT {
    pub fn slot(&self) -> usize {
        if self.packet.rdh.data_format == 0 {
            16
        } else {
            10
        }
    }
    /// offset of word `i` relative to the start of the packet (its RDH)
    pub fn word_rel_offset(&self, i: usize) -> usize {
        64 + i * self.slot()
    }
}

/// Incremental renderer of one link: pages and stop pages one at a time (used by the product search, which
/// extends a history by one packet), keeping the value registers of the grammar (orbit per HBF, BC per trigger,
/// the interrupted TDH, packet counter).
#[derive(Clone, Debug)]
pub struct LinkRenderer {
    pub cfg: LinkCfg,
    pub hbf: usize,
    pub page: usize,
    pub trig_no: u16,
    pub open_tdh: Option<Tdh>,
    pub pkt_counter: u8,
    /// orbits cycle with this period when set (finite value domain for fixpoint searches)
    pub orbit_cycle: Option<u32>,
    /// number of CDWs rendered so far on this link
    pub cdw_no: u32,
}

impl LinkRenderer {
    fn tdt(&self, done: bool) -> Word {
        let f = self.cfg.tdt_status;
        Tdt {
            packet_done: done,
            transmission_timeout: f & 1 != 0,
            lane_starts_violation: f & 2 != 0,
            timeout_to_start: f & 4 != 0,
            timeout_start_stop: f & 8 != 0,
            timeout_in_idle: f & 16 != 0,
            ..Default::default()
        }
        .encode()
    }
    pub fn new(cfg: &LinkCfg) -> Self {
        LinkRenderer { cfg: cfg.clone(), hbf: 0, page: 0, trig_no: 0, open_tdh: None, pkt_counter: cfg.first_packet_counter, orbit_cycle: None, cdw_no: 0 }
    }
    pub fn orbit(&self) -> u32 {
        let i = match self.orbit_cycle {
            Some(c) => (self.hbf as u32) % c,
            None => self.hbf as u32,
        };
        self.cfg.first_orbit.wrapping_add(i)
    }
    fn trg(&self) -> u32 {
        self.cfg.triggers[self.hbf % self.cfg.triggers.len()]
    }
    fn rdh_bc(&self) -> u16 {
        self.cfg.rdh_bcs[self.hbf % self.cfg.rdh_bcs.len()]
    }
    fn mk_rdh(&mut self, stop: u8) -> Rdh {
        let mut r = Rdh::base();
        r.header_id = self.cfg.rdh_version;
        r.fee_id = self.cfg.fee_id;
        r.link_id = self.cfg.link_id;
        r.packet_counter = self.pkt_counter;
        r.cru_id = self.cfg.cru_id;
        r.dw = self.cfg.dw;
        r.bc = self.rdh_bc();
        r.orbit = self.orbit();
        r.data_format = self.cfg.data_format;
        r.trigger_type = self.trg();
        r.pages_counter = self.page as u16;
        r.stop_bit = stop;
        r.detector_field = self.cfg.detector_field;
        self.pkt_counter = self.pkt_counter.wrapping_add(1);
        r
    }
    fn next_tdh(&mut self, no_data: bool) -> Tdh {
        let bc = self.rdh_bc() + self.trig_no * self.cfg.bc_step;
        assert!(bc <= 0xdeb, "grammar BC overflow");
        let first_of_hbf = self.trig_no == 0;
        self.trig_no += 1;
        Tdh {
            // the first trigger of the HBF mirrors the RDH (required on page 0 for internal / PhT triggers)
            trigger_type: if first_of_hbf || !self.cfg.internal { (self.trg() & 0xFFF) as u16 } else { 0 },
            internal: self.cfg.internal && !(self.cfg.physics_first_on_pht && first_of_hbf && self.trg() & 0x10 != 0),
            no_data,
            continuation: false,
            bc,
            orbit: self.orbit(),
        }
    }
    pub fn is_open(&self) -> bool {
        self.open_tdh.is_some()
    }

    /// Renders the next data page of the current HBF.
    pub fn next_page(&mut self, p: &PageShape) -> PacketT {
        assert_eq!(p.cont.is_some(), self.open_tdh.is_some(), "continuation page iff an event is open");
        let mut ws: Vec<(Word, WKind)> = Vec::new();
        let mask = self.cfg.active_lanes_mask();
        if let Some((dws, done)) = &p.cont {
            let t = self.open_tdh.unwrap();
            ws.push((words::ihw(mask), WKind::IhwCont));
            ws.push((Tdh { continuation: true, ..t }.encode(), WKind::TdhCont));
            for d in dws {
                ws.push((*d, WKind::Data));
            }
            ws.push((self.tdt(*done), WKind::Tdt));
            if *done {
                self.open_tdh = None;
            } else {
                assert!(p.evs.is_empty());
            }
        } else {
            assert!(!p.evs.is_empty(), "a page needs at least one trigger");
            ws.push((words::ihw(mask), WKind::Ihw));
        }
        for (ei, e) in p.evs.iter().enumerate() {
            assert!(self.open_tdh.is_none(), "events after an open event");
            let first_after_ihw = ei == 0 && p.cont.is_none();
            let kind = if first_after_ihw { WKind::Tdh } else { WKind::TdhAfter };
            match e {
                Ev::NoData => {
                    let t = self.next_tdh(true);
                    ws.push((t.encode(), kind));
                }
                Ev::Data { words: dws, cdw, done } => {
                    let t = self.next_tdh(false);
                    ws.push((t.encode(), kind));
                    if *cdw {
                        // calibration series: user fields A with index 0, 1, then B with index 0, 1, ... (a CDW whose
                        // user fields differ from the previous CDW's starts again at index 0)
                        // ... and after B back to A (period 4, so that state-space searches close)
                        let n = self.cdw_no % 4;
                        self.cdw_no = (self.cdw_no + 1) % 4;
                        ws.push((words::cdw(0x0000_1234_5678 + 0x1_0000 * (n / 2) as u64, (n % 2) as u32), WKind::Cdw));
                    }
                    for d in dws {
                        ws.push((*d, WKind::Data));
                    }
                    ws.push((self.tdt(*done), WKind::Tdt));
                    if !*done {
                        self.open_tdh = Some(t);
                    }
                }
            }
        }
        let raw: Vec<Word> = ws.iter().map(|w| w.0).collect();
        let payload = payload::pack(&raw, self.cfg.data_format);
        let rdh = self.mk_rdh(0);
        let out = PacketT {
            packet: Packet::framed(rdh, payload),
            words: ws.iter().enumerate().map(|(i, w)| WordTruth { index: i, bytes: w.0, kind: w.1 }).collect(),
            hbf: self.hbf,
            page: self.page,
        };
        self.page += 1;
        out
    }

    /// Renders the stop page (DDW0) and moves on to the next HBF.
    pub fn stop_page(&mut self) -> PacketT {
        assert!(self.open_tdh.is_none() && self.page > 0, "an HBF ends after a closed page");
        let ddw = words::Ddw0::default().encode();
        let payload = payload::pack(&[ddw], self.cfg.data_format);
        let rdh = self.mk_rdh(1);
        let out = PacketT { packet: Packet::framed(rdh, payload), words: vec![WordTruth { index: 0, bytes: ddw, kind: WKind::Ddw0 }], hbf: self.hbf, page: self.page };
        self.hbf += 1;
        self.page = 0;
        self.trig_no = 0;
        out
    }
}

/// Renders the HBF shapes of one link into packets with ground truth.
pub fn render_link(cfg: &LinkCfg, hbfs: &[HbfShape]) -> Vec<PacketT> {
    let mut r = LinkRenderer::new(cfg);
    let mut out = Vec::new();
    for h in hbfs {
        assert!(h.is_valid(), "invalid HBF shape {:?}", h);
        for p in &h.pages {
            out.push(r.next_page(p));
        }
        out.push(r.stop_page());
    }
    out
}

/// A multi-link stream: packets in file order with their absolute offsets.
#[derive(Clone, Debug)]
pub struct StreamT {
    pub packets: Vec<(u64, PacketT)>,
}
impl StreamT {
    pub fn bytes(&self) -> Vec<u8> {
        let mut v = Vec::new();
        for (_, p) in &self.packets {
            v.extend_from_slice(&p.packet.bytes());
        }
        v
    }
    pub fn len(&self) -> usize {
        self.packets.len()
    }
}

/// Interleaves per-link packet lists following `order` (a sequence of link indices, each link's packets in order).
pub fn interleave(links: &[Vec<PacketT>], order: &[usize]) -> StreamT {
    let mut cur = vec![0usize; links.len()];
    let mut off = 0u64;
    let mut packets = Vec::new();
    for &l in order {
        let p = links[l][cur[l]].clone();
        cur[l] += 1;
        let n = p.packet.len() as u64;
        packets.push((off, p));
        off += n;
    }
    for (l, c) in cur.iter().enumerate() {
        assert_eq!(*c, links[l].len(), "interleave order does not consume link {l}");
    }
    StreamT { packets }
}

pub fn contiguous(links: &[Vec<PacketT>]) -> StreamT {
    let order: Vec<usize> = links.iter().enumerate().flat_map(|(i, l)| std::iter::repeat(i).take(l.len())).collect();
    interleave(links, &order)
}

pub fn round_robin(links: &[Vec<PacketT>]) -> StreamT {
    let mut order = Vec::new();
    let maxlen = links.iter().map(|l| l.len()).max().unwrap_or(0);
    for i in 0..maxlen {
        for (li, l) in links.iter().enumerate() {
            if i < l.len() {
                order.push(li);
            }
        }
    }
    interleave(links, &order)
}

// ------------------------------------------------------------------ shape menus

/// A small catalogue of HBF shapes that together use every production of the grammar at least once.
pub fn basic_hbf_shapes(cfg: &LinkCfg) -> Vec<(&'static str, HbfShape)> {
    let d = |n: usize, salt: u64| cfg.data_words(n, salt);
    let page = |evs: Vec<Ev>| PageShape { cont: None, evs };
    vec![
        ("one-data-event", HbfShape { pages: vec![page(vec![Ev::Data { words: d(3, 1), cdw: false, done: true }])] }),
        ("no-data-run", HbfShape { pages: vec![page(vec![Ev::NoData, Ev::NoData, Ev::NoData])] }),
        (
            "nodata-then-data-then-nodata",
            HbfShape { pages: vec![page(vec![Ev::NoData, Ev::Data { words: d(2, 2), cdw: false, done: true }, Ev::NoData])] },
        ),
        (
            "several-events",
            HbfShape {
                pages: vec![page(vec![
                    Ev::Data { words: d(1, 3), cdw: false, done: true },
                    Ev::Data { words: d(4, 4), cdw: false, done: true },
                    Ev::Data { words: d(2, 5), cdw: false, done: true },
                ])],
            },
        ),
        ("cdw-at-start", HbfShape { pages: vec![page(vec![Ev::Data { words: d(2, 6), cdw: true, done: true }])] }),
        (
            "two-pages",
            HbfShape {
                pages: vec![
                    page(vec![Ev::Data { words: d(2, 7), cdw: false, done: true }]),
                    page(vec![Ev::Data { words: d(2, 8), cdw: false, done: true }, Ev::NoData]),
                ],
            },
        ),
        (
            "continuation",
            HbfShape {
                pages: vec![
                    page(vec![Ev::Data { words: d(3, 9), cdw: false, done: false }]),
                    PageShape { cont: Some((d(2, 10), true)), evs: vec![] },
                ],
            },
        ),
        (
            "continuation-twice-then-tail",
            HbfShape {
                pages: vec![
                    page(vec![Ev::NoData, Ev::Data { words: d(3, 11), cdw: false, done: false }]),
                    PageShape { cont: Some((d(2, 12), false)), evs: vec![] },
                    PageShape { cont: Some((d(1, 13), true)), evs: vec![Ev::Data { words: d(2, 14), cdw: false, done: true }, Ev::NoData] },
                ],
            },
        ),
        (
            "long-hbf",
            HbfShape { pages: (0..6).map(|i| page(vec![Ev::Data { words: d(1 + i % 3, 20 + i as u64), cdw: false, done: true }])).collect() },
        ),
        (
            // a page that ends with a no-data TDH (no TDT follows) and is followed by further pages: the next page's
            // IHW is read in the state "after a TDH with no_data"
            "pages-ending-with-nodata",
            HbfShape {
                pages: vec![
                    page(vec![Ev::Data { words: d(2, 30), cdw: false, done: true }, Ev::NoData]),
                    page(vec![Ev::NoData]),
                    page(vec![Ev::Data { words: d(1, 31), cdw: false, done: true }]),
                ],
            },
        ),
    ]
}

/// Stave-mode catalogue: like `basic_hbf_shapes` but every data event is a complete ALPIDE readout frame
/// (all lanes of the FEE, one bunch counter), also when it is continued over pages.
pub fn stave_hbf_shapes(cfg: &LinkCfg) -> Vec<(&'static str, HbfShape)> {
    use crate::alpide::{conforming_frame, hit_alphabet, Hit};
    let ha = hit_alphabet();
    let frame = |bc: u8, hits: &[Hit], empty: bool| conforming_frame(&cfg.lanes, bc, hits, empty);
    let page = |evs: Vec<Ev>| PageShape { cont: None, evs };
    let f1 = frame(0x11, &[ha[0], ha[2]], false);
    let f2 = frame(0x00, &[], true); // chip empty frames whose bunch-counter byte is zero
    let f3 = frame(0x33, &[ha[1], ha[5], ha[3], ha[8]], false);
    let f4 = frame(0x44, &[ha[0], ha[6], ha[7], ha[4], ha[9]], false);
    let split = |f: &Vec<Word>, at: usize| (f[..at].to_vec(), f[at..].to_vec());
    let (f3a, f3b) = split(&f3, f3.len() / 2);
    let (f4a, rest) = split(&f4, 1.max(f4.len() / 3));
    let (f4b, f4c) = split(&rest, 1.max(rest.len() / 2));
    vec![
        ("frame", HbfShape { pages: vec![page(vec![Ev::Data { words: f1.clone(), cdw: false, done: true }])] }),
        ("empty-chip-frames", HbfShape { pages: vec![page(vec![Ev::Data { words: f2.clone(), cdw: false, done: true }])] }),
        (
            "nodata-frame-nodata-frame",
            HbfShape {
                pages: vec![page(vec![
                    Ev::NoData,
                    Ev::Data { words: f1.clone(), cdw: false, done: true },
                    Ev::NoData,
                    Ev::Data { words: f3.clone(), cdw: false, done: true },
                ])],
            },
        ),
        ("cdw-frame", HbfShape { pages: vec![page(vec![Ev::Data { words: f3.clone(), cdw: true, done: true }])] }),
        (
            "frame-continued",
            HbfShape {
                pages: vec![
                    page(vec![Ev::Data { words: f3a.clone(), cdw: false, done: false }]),
                    PageShape { cont: Some((f3b.clone(), true)), evs: vec![Ev::Data { words: f2.clone(), cdw: false, done: true }] },
                ],
            },
        ),
        (
            "frame-continued-twice",
            HbfShape {
                pages: vec![
                    page(vec![Ev::Data { words: f1.clone(), cdw: false, done: true }, Ev::Data { words: f4a, cdw: false, done: false }]),
                    PageShape { cont: Some((f4b, false)), evs: vec![] },
                    PageShape { cont: Some((f4c, true)), evs: vec![Ev::NoData] },
                ],
            },
        ),
        (
            "two-pages-of-frames",
            HbfShape {
                pages: vec![
                    page(vec![Ev::Data { words: f1.clone(), cdw: false, done: true }]),
                    page(vec![Ev::Data { words: f2.clone(), cdw: false, done: true }, Ev::Data { words: f3.clone(), cdw: false, done: true }]),
                ],
            },
        ),
        (
            "pages-ending-with-nodata",
            HbfShape {
                pages: vec![
                    page(vec![Ev::Data { words: f1.clone(), cdw: false, done: true }, Ev::NoData]),
                    page(vec![Ev::NoData]),
                    page(vec![Ev::Data { words: f3.clone(), cdw: false, done: true }]),
                ],
            },
        ),
    ]
}
