//! Independent ALPIDE lane-data encoder (from the ALPIDE data format: chip header/trailer/empty frame, region
//! header, DATA SHORT/LONG, BUSY ON/OFF, protocol-extension words of the ITS readout unit).
//!
//! A lane's bytes are carried 9 per data word (bytes 0..8, byte 9 = lane identifier) and padded with 0x00.
use crate::words::{self, Word};

pub const APE_STRIP_START: u8 = 0xF2;
pub const APE_DET_TIMEOUT: u8 = 0xF4; // fatal
pub const APE_OOT: u8 = 0xF5; // fatal
pub const APE_PROTOCOL_ERROR: u8 = 0xF6; // fatal
pub const APE_LANE_FIFO_OVERFLOW: u8 = 0xF7; // fatal
pub const APE_FSM_ERROR: u8 = 0xF8; // fatal
pub const APE_PENDING_DET_EVENT_LIMIT: u8 = 0xF9; // fatal
pub const APE_PENDING_LANE_EVENT_LIMIT: u8 = 0xFA; // fatal
pub const APE_O2N_ERROR: u8 = 0xFB; // fatal
pub const APE_RATE_MISSING_TRG: u8 = 0xFC; // fatal
pub const APE_PE_DATA_MISSING: u8 = 0xFD;
pub const APE_OOT_DATA_MISSING: u8 = 0xFE;
pub const FATAL_APES: [u8; 9] = [0xF4, 0xF5, 0xF6, 0xF7, 0xF8, 0xF9, 0xFA, 0xFB, 0xFC];

#[derive(Clone, Copy, Debug, PartialEq, Eq, Hash)]
pub enum Hit {
    /// REGION HEADER 110<region[4:0]>
    Region(u8),
    /// DATA SHORT 01<encoder[3:0]><addr[9:0]> (2 bytes)
    Short { encoder: u8, addr: u16 },
    /// DATA LONG 00<encoder[3:0]><addr[9:0]> 0<hitmap[6:0]> (3 bytes)
    Long { encoder: u8, addr: u16, hitmap: u8 },
    BusyOn,
    BusyOff,
}

impl Hit {
    pub fn encode(&self, out: &mut Vec<u8>) {
        match *self {
            Hit::Region(r) => out.push(0xC0 | (r & 0x1F)),
            Hit::Short { encoder, addr } => {
                out.push(0x40 | ((encoder & 0xF) << 2) | ((addr >> 8) & 0x3) as u8);
                out.push((addr & 0xFF) as u8);
            }
            Hit::Long { encoder, addr, hitmap } => {
                out.push(((encoder & 0xF) << 2) | ((addr >> 8) & 0x3) as u8);
                out.push((addr & 0xFF) as u8);
                out.push(hitmap & 0x7F);
            }
            Hit::BusyOn => out.push(0xF1),
            Hit::BusyOff => out.push(0xF0),
        }
    }
}

#[derive(Clone, Debug, PartialEq, Eq, Hash)]
pub struct Chip {
    pub id: u8,
    /// bits [10:3] of the bunch counter of the frame
    pub bc: u8,
    /// CHIP EMPTY FRAME (no hits, no trailer)
    pub empty: bool,
    pub hits: Vec<Hit>,
    /// readout flags of the trailer (4 bits)
    pub flags: u8,
    /// 0x00 padding bytes in front of this chip's data (between chip frames padding is legal): the low six bits are
    /// the number of padding bytes; 0x40 puts a BUSY ON word, 0x80 a BUSY OFF word in front of that padding (busy
    /// words may occur between chip frames as well as inside them)
    pub pad_before: u8,
}

impl Chip {
    pub fn encode(&self, out: &mut Vec<u8>) {
        if self.pad_before & 0x40 != 0 {
            out.push(0xF1);
        }
        if self.pad_before & 0x80 != 0 {
            out.push(0xF0);
        }
        for _ in 0..(self.pad_before & 0x3F) {
            out.push(0x00);
        }
        if self.empty {
            out.push(0xE0 | (self.id & 0xF));
            out.push(self.bc);
        } else {
            out.push(0xA0 | (self.id & 0xF));
            out.push(self.bc);
            for h in &self.hits {
                h.encode(out);
            }
            out.push(0xB0 | (self.flags & 0xF));
        }
    }
}

pub fn lane_bytes(chips: &[Chip]) -> Vec<u8> {
    let mut v = Vec::new();
    for c in chips {
        c.encode(&mut v);
    }
    v
}

/// Splits lane bytes into data words of the lane (9 bytes each, last one padded with 0x00).
pub fn lane_words(lane_id: u8, bytes: &[u8]) -> Vec<Word> {
    let mut out = Vec::new();
    for ch in bytes.chunks(9) {
        let mut d = [0u8; 9];
        d[..ch.len()].copy_from_slice(ch);
        out.push(words::data_word(lane_id, d));
    }
    out
}

/// Interleaves the data words of several lanes round-robin (the order the readout unit ships them).
pub fn interleave_lanes(lanes: &[Vec<Word>]) -> Vec<Word> {
    let mut out = Vec::new();
    let maxlen = lanes.iter().map(|l| l.len()).max().unwrap_or(0);
    for i in 0..maxlen {
        for l in lanes {
            if i < l.len() {
                out.push(l[i]);
            }
        }
    }
    out
}

/// Hit content menu used to vary what lies between chip header and trailer; bytes are chosen so that hit
/// payload bytes look like headers / trailers / APEs (0xA?, 0xB?, 0xE?, 0xF?).
pub fn hit_alphabet() -> Vec<Hit> {
    vec![
        Hit::Region(0),
        Hit::Region(31),
        Hit::Short { encoder: 0, addr: 0x0A0 },          // second byte 0xA0 looks like a chip header
        Hit::Short { encoder: 15, addr: 0x3B5 },         // second byte 0xB5 looks like a trailer
        Hit::Short { encoder: 3, addr: 0x0F4 },          // second byte 0xF4 looks like a fatal APE
        Hit::Long { encoder: 1, addr: 0x0E3, hitmap: 0x7F }, // 0xE3 looks like an empty frame
        Hit::Long { encoder: 9, addr: 0x2A7, hitmap: 0x30 }, // 0xA7, then 0x30
        Hit::Long { encoder: 0, addr: 0x000, hitmap: 0x00 }, // three zero bytes inside a chip frame
        Hit::BusyOn,
        Hit::BusyOff,
        Hit::Long { encoder: 0, addr: 0x0A5, hitmap: 0x33 }, // first byte 0x00 (looks like padding), then 0xA5 (chip header), 0x33
    ]
}

/// A conforming frame for a FEE: every lane present, one bunch counter, IB chip id = lane number,
/// OB lanes carry 7 chips (ids 0..=6 on even connectors' first half, 8..=14 otherwise).
pub fn conforming_frame(lane_ids: &[u8], bc: u8, hits: &[Hit], empty: bool) -> Vec<Word> {
    let lanes: Vec<Vec<Word>> = lane_ids
        .iter()
        .map(|&id| {
            let chips: Vec<Chip> = if words::is_ib_id(id) {
                vec![Chip { id: words::ib_lane(id), bc, empty, hits: hits.to_vec(), flags: 0, pad_before: 0 }]
            } else {
                let base = if (id >> 3) & 1 == 0 { 0 } else { 8 };
                (0..7).map(|k| Chip { id: base + k, bc, empty, hits: hits.to_vec(), flags: 0, pad_before: 0 }).collect()
            };
            lane_words(id, &lane_bytes(&chips))
        })
        .collect();
    interleave_lanes(&lanes)
}
