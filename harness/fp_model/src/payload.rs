//! Payload packing and slicing for data formats 0 and 2.
//!
//! Format 0: every 80-bit word occupies a 16-byte slot (10 word bytes + 6 bytes 0x00).
//! Format 2: words are packed back to back (10 bytes each); the payload is then padded with 0xFF up to the
//! next multiple of 16 bytes (0..15 bytes of padding).
use crate::words::Word;

pub fn pack(words: &[Word], data_format: u8) -> Vec<u8> {
    let mut p = Vec::new();
    if data_format == 0 {
        for w in words {
            p.extend_from_slice(w);
            p.extend_from_slice(&[0u8; 6]);
        }
    } else {
        for w in words {
            p.extend_from_slice(w);
        }
        while p.len() % 16 != 0 {
            p.push(0xFF);
        }
    }
    p
}

/// Format 2 with an explicit number of trailing 0xFF bytes.
pub fn pack_v2_with_padding(words: &[Word], padding: usize) -> Vec<u8> {
    let mut p = Vec::new();
    for w in words {
        p.extend_from_slice(w);
    }
    p.extend(std::iter::repeat(0xFF).take(padding));
    p
}

#[derive(Clone, Debug, PartialEq, Eq)]
pub struct SlicedWord {
    /// offset of the word relative to the payload start
    pub rel_offset: usize,
    pub bytes: Word,
}

#[derive(Clone, Debug, PartialEq, Eq)]
pub enum Sliced {
    Words(Vec<SlicedWord>),
    /// more than 15 trailing 0xFF bytes: the payload is rejected as a whole
    PaddingError(usize),
}

pub fn trailing_ff(payload: &[u8]) -> usize {
    payload.iter().rev().take_while(|&&b| b == 0xFF).count()
}

/// Slices a payload whose layout follows `data_format` (the header's value): the model of property C12.
pub fn slice(payload: &[u8], data_format: u8) -> Sliced {
    let ff = trailing_ff(payload);
    if ff > 15 {
        return Sliced::PaddingError(ff);
    }
    let mut out = Vec::new();
    if data_format == 0 {
        let n = payload.len() / 16;
        for i in 0..n {
            let mut w = [0u8; 10];
            w.copy_from_slice(&payload[i * 16..i * 16 + 10]);
            out.push(SlicedWord { rel_offset: i * 16, bytes: w });
        }
    } else {
        // padding is whatever remains after the last complete word once the 0xFF run is discounted:
        // body = payload minus trailing 0xFF, rounded up to a whole number of words only if the cut fell
        // inside a word (a word may legitimately end in 0xFF bytes only when fewer than 10 are stripped).
        let body = payload.len() - ff;
        let n = if body % 10 == 0 { body / 10 } else { body / 10 + 1 };
        let n = n.min(payload.len() / 10);
        for i in 0..n {
            let mut w = [0u8; 10];
            w.copy_from_slice(&payload[i * 10..i * 10 + 10]);
            out.push(SlicedWord { rel_offset: i * 10, bytes: w });
        }
    }
    Sliced::Words(out)
}
