//! The documented ITS payload automaton (continuous mode) as an acceptor over "expecting" states
//! (DESIGN.md Appendix B), bound to `doc/ITS_payload_fsm_continuous_mode.puml`: `check_binding` parses the
//! diagram and requires its edge set to equal the edge set this encoding was written from.
use crate::words::{self, WordKind};

#[derive(Clone, Copy, Debug, PartialEq, Eq, Hash, PartialOrd, Ord)]
pub enum Expect {
    /// initial; after DDW0; after a padding reset
    Ihw,
    Tdh,
    /// choice after a TDH with no_data = 1
    AfterNoData,
    /// data section of a (non-continuation) event; `first` = directly after the TDH
    Data { first: bool },
    /// choice after a TDT with packet_done = 1
    AfterDone,
    CIhw,
    CTdh,
    CData { first: bool },
}
impl Expect {
    /// the diagram class (ignoring the bookkeeping flag)
    pub fn class(&self) -> u8 {
        match self {
            Expect::Ihw => 0,
            Expect::Tdh => 1,
            Expect::AfterNoData => 2,
            Expect::Data { .. } => 3,
            Expect::AfterDone => 4,
            Expect::CIhw => 5,
            Expect::CTdh => 6,
            Expect::CData { .. } => 7,
        }
    }
    pub fn is_choice(&self) -> bool {
        matches!(self, Expect::AfterNoData | Expect::Data { .. } | Expect::AfterDone | Expect::CData { .. })
    }
}

#[derive(Clone, Copy, Debug, PartialEq, Eq, Hash)]
pub enum Class {
    Ihw,
    IhwCont,
    Tdh,
    TdhAfter,
    TdhCont,
    Tdt,
    Ddw0,
    Cdw,
    Data,
}

#[derive(Clone, Copy, Debug, PartialEq, Eq)]
pub enum Verdict {
    /// the word is legal here: its classification and the successor
    Legal { class: Class, next: Expect, abstain_report: bool },
    /// single-successor state: the word is *taken as* `class` whatever its id; a wrong id must be reported with
    /// that word's sanity code
    Forced { class: Class, next: Expect, id_ok: bool },
    /// illegal id in a choice state: must be reported with this unrecognised-id code
    Illegal { code: &'static str },
}

pub fn tdh_no_data(w: &[u8]) -> bool {
    w[1] & 0x20 != 0
}
pub fn tdt_packet_done(w: &[u8]) -> bool {
    w[8] & 0x01 != 0
}

/// One step of the documented automaton.
pub fn step(state: Expect, w: &[u8]) -> Verdict {
    let id = w[9];
    let kind = words::kind_by_id(id);
    let after_tdh = |w: &[u8]| if tdh_no_data(w) { Expect::AfterNoData } else { Expect::Data { first: true } };
    match state {
        Expect::Ihw => Verdict::Forced { class: Class::Ihw, next: Expect::Tdh, id_ok: id == words::ID_IHW },
        Expect::Tdh => Verdict::Forced { class: Class::Tdh, next: after_tdh(w), id_ok: id == words::ID_TDH },
        Expect::CIhw => Verdict::Forced { class: Class::IhwCont, next: Expect::CTdh, id_ok: id == words::ID_IHW },
        Expect::CTdh => Verdict::Forced { class: Class::TdhCont, next: Expect::CData { first: true }, id_ok: id == words::ID_TDH },
        Expect::AfterNoData | Expect::AfterDone => match kind {
            WordKind::Tdh => Verdict::Legal { class: Class::TdhAfter, next: after_tdh(w), abstain_report: false },
            WordKind::Ihw => Verdict::Legal { class: Class::Ihw, next: Expect::Tdh, abstain_report: false },
            WordKind::Ddw0 => Verdict::Legal { class: Class::Ddw0, next: Expect::Ihw, abstain_report: false },
            _ => Verdict::Illegal { code: if state == Expect::AfterNoData { "E990" } else { "E992" } },
        },
        Expect::Data { first } | Expect::CData { first } => {
            let cont = matches!(state, Expect::CData { .. });
            let data_next = if cont { Expect::CData { first: false } } else { Expect::Data { first: false } };
            match kind {
                WordKind::Data => Verdict::Legal { class: Class::Data, next: data_next, abstain_report: false },
                WordKind::Cdw => Verdict::Legal { class: Class::Cdw, next: data_next, abstain_report: false },
                WordKind::Tdt => Verdict::Legal {
                    class: Class::Tdt,
                    next: if tdt_packet_done(w) { Expect::AfterDone } else { Expect::CIhw },
                    // the diagram's strict reading wants >= 1 data word before the TDT; the check list has no
                    // such rule: no claim either way on whether this TDT is reported
                    abstain_report: first,
                },
                _ => Verdict::Illegal { code: "E991" },
            }
        }
    }
}

/// The edges of the diagram this encoding was written from: (from, to, guard).
pub fn encoded_edges() -> Vec<(String, String, String)> {
    let e = |a: &str, b: &str, g: &str| (a.to_string(), b.to_string(), g.to_string());
    vec![
        e("[*]", "IHW", ""),
        e("IHW", "TDH", ""),
        e("TDH", "after_TDH", ""),
        e("after_TDH", "Data", "[no_data == 0]"),
        e("after_TDH", "TDH", "[no_data == 1 && TDH]"),
        e("after_TDH", "DDW0", "[no_data == 1 && DDW0]"),
        e("after_TDH", "IHW", "[no_data == 1 && IHW]"),
        e("Data", "after_Data", ""),
        e("after_Data", "Data", "[Data Word]"),
        e("after_Data", "TDT", "[TDT]"),
        e("TDT", "after_TDT", ""),
        e("after_TDT", "TDH", "[packet_done == 1 && TDH]"),
        e("after_TDT", "DDW0", "[packet_done == 1 && DDW0]"),
        e("after_TDT", "IHW", "[packet_done == 1 && IHW]"),
        e("after_TDT", "Continuation", "[packet_done == 0 && event page full]"),
        e("Continuation.[*]", "c_IHW", ""),
        e("c_IHW", "c_TDH", "[stop_bit == 0 && Page >= 1]"),
        e("c_TDH", "c_Data", ""),
        e("c_Data", "after_c_Data", ""),
        e("after_c_Data", "c_Data", "[Data Word]"),
        e("after_c_Data", "c_TDT", "[TDT]"),
        e("c_TDT", "after_TDT", ""),
        e("DDW0", "[*]", ""),
    ]
}

/// Parses the state diagram: transitions `A -dir-> B : label`, comment lines start with `'`.
pub fn parse_puml(text: &str) -> Vec<(String, String, String)> {
    let mut edges = Vec::new();
    let mut depth = 0usize;
    let mut in_style = false;
    for raw in text.lines() {
        let line = raw.trim();
        if line.starts_with('\'') || line.is_empty() {
            continue;
        }
        if line.starts_with("<style>") {
            in_style = true;
        }
        if line.starts_with("</style>") {
            in_style = false;
            continue;
        }
        if in_style || line.starts_with("skinparam") || line.starts_with("scale") || line.starts_with("Title") || line.starts_with("hide") || line.starts_with('@') {
            if line.ends_with('{') && !in_style {
                depth += 1;
            }
            continue;
        }
        if line.starts_with("state ") && line.ends_with('{') {
            depth += 1;
            continue;
        }
        if line == "}" {
            depth = depth.saturating_sub(1);
            continue;
        }
        // find an arrow token: '-' ... '>' with optional direction word
        let Some(apos) = line.find("->") else { continue };
        let left = &line[..apos];
        let astart = left.rfind(|c: char| c != '-' && !c.is_ascii_alphabetic()).map(|i| i + 1).unwrap_or(0);
        // the arrow begins at the first '-' after the source token
        let src_end = left.find(" -").map(|i| i).unwrap_or(astart);
        let src = left[..src_end].trim();
        let rest = &line[apos + 2..];
        let (dst, label) = match rest.split_once(':') {
            Some((d, l)) => (d.trim(), l.trim()),
            None => (rest.trim(), ""),
        };
        let label = label.replace("\\n", " ").split_whitespace().collect::<Vec<_>>().join(" ");
        let rename = |s: &str| if s == "[*]" && depth > 0 { "Continuation.[*]".to_string() } else { s.to_string() };
        if src.is_empty() || dst.is_empty() {
            continue;
        }
        edges.push((rename(src), rename(dst), label));
    }
    edges
}

/// Ok(number of edges) when the diagram and the encoding agree, Err(description) otherwise.
pub fn check_binding(puml_text: &str) -> Result<usize, String> {
    let mut a = parse_puml(puml_text);
    let mut b = encoded_edges();
    a.sort();
    b.sort();
    if a == b {
        Ok(a.len())
    } else {
        let only_doc: Vec<_> = a.iter().filter(|x| !b.contains(x)).collect();
        let only_model: Vec<_> = b.iter().filter(|x| !a.contains(x)).collect();
        Err(format!("diagram and model differ: only in diagram {:?}; only in model {:?}", only_doc, only_model))
    }
}

#[cfg(test)]
mod tests {
    #[test]
    fn binding() {
        let t = std::fs::read_to_string("/repo/doc/ITS_payload_fsm_continuous_mode.puml").unwrap();
        let r = super::check_binding(&t);
        assert!(r.is_ok(), "{:?}", r);
    }
}
