------------------------------ MODULE Shutdown ------------------------------
(* Shutdown protocol of the fastPASTA pipeline (check mode), abstracted to the operations the controlled      *)
(* scheduler of /verif/harness_sched sees: one action = one scheduling point of one thread (channel send /     *)
(* receive, flag load / store, join, drop of the last handle of a channel end).                                *)
(*                                                                                                             *)
(* Threads: main (statistics forwarder, joins), ctrl (statistics collector), reader, ana (analysis /            *)
(* dispatcher), val[1..NV] (validators, spawned on first use), sig (environment: raises the stop flag).        *)
(* Channels: data (reader -> ana, bounded CapD), vq[i] (ana -> val[i], bounded CapV), stats (all -> ctrl,       *)
(* unbounded), istats (reader -> main, unbounded). Unbounded sends never block and are not scheduling points    *)
(* in the C17 configuration: they happen inside the sending thread's step. Statistics messages that cannot     *)
(* influence the stop flag (counters, trigger types, ...) never block anybody and are always consumed: they    *)
(* are abstracted away; only "err" and "fatal" messages are modelled.                                          *)
EXTENDS Naturals, Sequences, FiniteSets

CONSTANTS NV,        \* number of links / validators
          Batches,   \* number of batches the input holds
          CapD, CapV,\* capacities of the bounded queues
          ErrAt,     \* set of batch numbers whose packets make a validator report an error
          ErrCap,    \* error cap (0 = none)
          FatalAt,   \* batch number at which the scanner hits a fatal framing error (0 = none)
          WithSignal \* TRUE: the environment may raise the stop flag at any moment

VARIABLES pc,        \* pc[t]: control location of thread t
          vpc,       \* vpc[i]: control location of validator i ("unborn", "recv", "done")
          stop,      \* the stop flag
          data,      \* sequence of batch numbers in the reader->analysis queue
          vq,        \* vq[i]: sequence of batch numbers queued for validator i
          dataRecv,  \* number of live receiver handles of `data` (main's clone + analysis' clone)
          dataSend,  \* 1 while the reader holds its sender
          vSend,     \* vSend[i]: 1 while the dispatcher holds the sender of vq[i]
          spawned,   \* set of validators that exist
          statsQ,    \* pending statistics messages for the collector: sequence of "err" / "fatal" / "other"
          statsSend, \* number of live sender handles of the statistics channel
          istatsQ,   \* pending scanner statistics: sequence of "fatal" / "other"
          istatsSend,\* 1 while the scanner (owned by the reader) lives
          nextBatch, \* next batch number the reader will read
          cur,       \* batch being dispatched by the analysis thread (0 = none)
          errs       \* errors counted by the collector

vars == <<pc, vpc, stop, data, vq, dataRecv, dataSend, vSend, spawned, statsQ, statsSend, istatsQ, istatsSend, nextBatch, cur, errs>>

Vals == 1..NV
Threads == {"main", "ctrl", "reader", "ana", "sig"}

Link(b) == ((b - 1) % NV) + 1   \* batch b holds packets of link Link(b) (batches of one packet in the model)

Init ==
  /\ pc = [t \in Threads |->
             IF t = "main" THEN "forward"
             ELSE IF t = "ctrl" THEN "recv"
             ELSE IF t = "reader" THEN "check"
             ELSE IF t = "ana" THEN "check"
             ELSE (IF WithSignal THEN "armed" ELSE "done")]
  /\ vpc = [i \in Vals |-> "unborn"]
  /\ stop = FALSE
  /\ data = <<>>
  /\ vq = [i \in Vals |-> <<>>]
  /\ dataRecv = 1          \* main drops its clone before forwarding (lib.rs: `drop(reader_data_recv)`), analysis keeps one
  /\ dataSend = 1
  /\ vSend = [i \in Vals |-> 0]
  /\ spawned = {}
  /\ statsQ = <<>>
  /\ statsSend = 2         \* main's handle + the analysis thread's handle (validators add theirs when spawned)
  /\ istatsQ = <<>>
  /\ istatsSend = 1
  /\ nextBatch = 1
  /\ cur = 0
  /\ errs = 0

\* ---------------------------------------------------------------- reader
ReaderCheck ==                      \* Load(stop) + reading the next batch (no scheduling point in between)
  /\ pc["reader"] = "check"
  /\ IF stop \/ nextBatch > Batches
       THEN /\ pc' = [pc EXCEPT !["reader"] = "exit"]
            /\ UNCHANGED <<istatsQ, nextBatch>>
       ELSE IF FatalAt = nextBatch
         THEN \* the scanner reports the fatal error and the (empty) batch ends reading
              /\ istatsQ' = Append(istatsQ, "fatal")
              /\ pc' = [pc EXCEPT !["reader"] = "exit"]
              /\ UNCHANGED nextBatch
         ELSE /\ pc' = [pc EXCEPT !["reader"] = "send"]
              /\ UNCHANGED <<istatsQ, nextBatch>>
  /\ UNCHANGED <<vpc, stop, data, vq, dataRecv, dataSend, vSend, spawned, statsQ, statsSend, istatsSend, cur, errs>>

ReaderSend ==                       \* Send(data): enabled iff not full or every receiver is gone
  /\ pc["reader"] = "send"
  /\ (Len(data) < CapD \/ dataRecv = 0)
  /\ IF dataRecv = 0
       THEN /\ pc' = [pc EXCEPT !["reader"] = "exit"]
            /\ UNCHANGED <<data, nextBatch>>
       ELSE /\ data' = Append(data, nextBatch)
            /\ nextBatch' = nextBatch + 1
            /\ pc' = [pc EXCEPT !["reader"] = "check"]
  /\ UNCHANGED <<vpc, stop, vq, dataRecv, dataSend, vSend, spawned, statsQ, statsSend, istatsQ, istatsSend, cur, errs>>

ReaderDropScanner ==                \* the scanner is dropped first: DropSender(istats)
  /\ pc["reader"] = "exit"
  /\ istatsSend' = 0
  /\ pc' = [pc EXCEPT !["reader"] = "exit2"]
  /\ UNCHANGED <<vpc, stop, data, vq, dataRecv, dataSend, vSend, spawned, statsQ, statsSend, istatsQ, nextBatch, cur, errs>>

ReaderExit ==                       \* then the data sender: DropSender(data)
  /\ pc["reader"] = "exit2"
  /\ dataSend' = 0
  /\ pc' = [pc EXCEPT !["reader"] = "done"]
  /\ UNCHANGED <<vpc, stop, data, vq, dataRecv, vSend, spawned, statsQ, statsSend, istatsQ, istatsSend, nextBatch, cur, errs>>

\* ---------------------------------------------------------------- analysis / dispatcher
AnaCheck ==
  /\ pc["ana"] = "check"
  /\ pc' = [pc EXCEPT !["ana"] = IF stop THEN "close" ELSE "recv"]
  /\ UNCHANGED <<vpc, stop, data, vq, dataRecv, dataSend, vSend, spawned, statsQ, statsSend, istatsQ, istatsSend, nextBatch, cur, errs>>

AnaRecv ==                          \* Recv(data): enabled iff non-empty or the sender is gone
  /\ pc["ana"] = "recv"
  /\ (Len(data) > 0 \/ dataSend = 0)
  /\ IF Len(data) > 0
       THEN /\ cur' = Head(data)
            /\ data' = Tail(data)
            /\ pc' = [pc EXCEPT !["ana"] = "dispatch"]
       ELSE /\ pc' = [pc EXCEPT !["ana"] = "close"]
            /\ UNCHANGED <<cur, data>>
  /\ UNCHANGED <<vpc, stop, vq, dataRecv, dataSend, vSend, spawned, statsQ, statsSend, istatsQ, istatsSend, nextBatch, errs>>

AnaDispatchOld ==
  /\ pc["ana"] = "dispatch"
  /\ Link(cur) \in spawned
  /\ Len(vq[Link(cur)]) < CapV
  /\ vq' = [vq EXCEPT ![Link(cur)] = Append(@, cur)]
  /\ cur' = 0
  /\ pc' = [pc EXCEPT !["ana"] = "check"]
  /\ UNCHANGED <<vpc, stop, data, dataRecv, dataSend, vSend, spawned, statsQ, statsSend, istatsQ, istatsSend, nextBatch, errs>>

AnaDispatchNew ==
  /\ pc["ana"] = "dispatch"
  /\ Link(cur) \notin spawned
  /\ spawned' = spawned \cup {Link(cur)}
  /\ vSend' = [vSend EXCEPT ![Link(cur)] = 1]
  /\ statsSend' = statsSend + 1
  /\ vq' = [vq EXCEPT ![Link(cur)] = Append(@, cur)]
  /\ cur' = 0
  /\ pc' = [pc EXCEPT !["ana"] = "check"]
  /\ vpc' = [vpc EXCEPT ![Link(cur)] = "recv"]
  /\ UNCHANGED <<stop, data, dataRecv, dataSend, statsQ, istatsQ, istatsSend, nextBatch, errs>>

AnaClose ==                         \* dispatcher.join(): drop every validator sender ...
  /\ pc["ana"] = "close"
  /\ vSend' = [i \in Vals |-> 0]
  /\ pc' = [pc EXCEPT !["ana"] = "join"]
  /\ UNCHANGED <<vpc, stop, data, vq, dataRecv, dataSend, spawned, statsQ, statsSend, istatsQ, istatsSend, nextBatch, cur, errs>>

AnaJoin ==                          \* ... join them all, then the thread ends: its data receiver and stats sender go
  /\ pc["ana"] = "join"
  /\ \A i \in spawned : vpc[i] = "done"
  /\ dataRecv' = dataRecv - 1
  /\ statsSend' = statsSend - 1
  /\ pc' = [pc EXCEPT !["ana"] = "done"]
  /\ UNCHANGED <<vpc, stop, data, vq, dataSend, vSend, spawned, statsQ, istatsQ, istatsSend, nextBatch, cur, errs>>

\* ---------------------------------------------------------------- validators
ValRecv(i) ==                       \* Recv(vq[i]): enabled iff non-empty or the dispatcher dropped the sender
  /\ vpc[i] = "recv"
  /\ (Len(vq[i]) > 0 \/ vSend[i] = 0)
  /\ IF Len(vq[i]) > 0
       THEN /\ vq' = [vq EXCEPT ![i] = Tail(@)]
            /\ statsQ' = IF Head(vq[i]) \in ErrAt THEN Append(statsQ, "err") ELSE statsQ
            /\ UNCHANGED <<vpc, statsSend>>
       ELSE /\ vpc' = [vpc EXCEPT ![i] = "done"]
            /\ statsSend' = statsSend - 1
            /\ UNCHANGED <<vq, statsQ>>
  /\ UNCHANGED <<pc, stop, data, dataRecv, dataSend, vSend, spawned, istatsQ, istatsSend, nextBatch, cur, errs>>

\* ---------------------------------------------------------------- main: forwarder, joins
MainForward ==                      \* Recv(istats): enabled iff non-empty or the scanner is gone
  /\ pc["main"] = "forward"
  /\ (Len(istatsQ) > 0 \/ istatsSend = 0)
  /\ IF Len(istatsQ) > 0
       THEN /\ statsQ' = Append(statsQ, Head(istatsQ))
            /\ istatsQ' = Tail(istatsQ)
            /\ UNCHANGED pc
       ELSE /\ pc' = [pc EXCEPT !["main"] = "joinReader"]
            /\ UNCHANGED <<statsQ, istatsQ>>
  /\ UNCHANGED <<vpc, stop, data, vq, dataRecv, dataSend, vSend, spawned, statsSend, istatsSend, nextBatch, cur, errs>>

MainJoinReader ==
  /\ pc["main"] = "joinReader" /\ pc["reader"] = "done"
  /\ pc' = [pc EXCEPT !["main"] = "joinAna"]
  /\ UNCHANGED <<vpc, stop, data, vq, dataRecv, dataSend, vSend, spawned, statsQ, statsSend, istatsQ, istatsSend, nextBatch, cur, errs>>

MainJoinAna ==
  /\ pc["main"] = "joinAna" /\ pc["ana"] = "done"
  /\ statsSend' = statsSend - 1       \* init::run drops its statistics sender
  /\ pc' = [pc EXCEPT !["main"] = "joinCtrl"]
  /\ UNCHANGED <<vpc, stop, data, vq, dataRecv, dataSend, vSend, spawned, statsQ, istatsQ, istatsSend, nextBatch, cur, errs>>

MainJoinCtrl ==
  /\ pc["main"] = "joinCtrl" /\ pc["ctrl"] = "done"
  /\ pc' = [pc EXCEPT !["main"] = "done"]
  /\ UNCHANGED <<vpc, stop, data, vq, dataRecv, dataSend, vSend, spawned, statsQ, statsSend, istatsQ, istatsSend, nextBatch, cur, errs>>

\* ---------------------------------------------------------------- collector
CtrlRecv ==                         \* Recv(stats): enabled iff non-empty or every sender is gone
  /\ pc["ctrl"] = "recv"
  /\ (Len(statsQ) > 0 \/ statsSend = 0)
  /\ IF Len(statsQ) > 0
       THEN /\ statsQ' = Tail(statsQ)
            /\ LET m == Head(statsQ) IN
                 /\ errs' = IF m = "err" THEN errs + 1 ELSE errs
                 /\ pc' = [pc EXCEPT !["ctrl"] = IF m = "fatal" \/ (m = "err" /\ ErrCap > 0 /\ errs + 1 = ErrCap) THEN "store" ELSE "recv"]
       ELSE /\ pc' = [pc EXCEPT !["ctrl"] = "done"]
            /\ UNCHANGED <<statsQ, errs>>
  /\ UNCHANGED <<vpc, stop, data, vq, dataRecv, dataSend, vSend, spawned, statsSend, istatsQ, istatsSend, nextBatch, cur>>

CtrlStore ==                        \* Store(stop, TRUE) after a fatal message or when the error cap is reached
  /\ pc["ctrl"] = "store"
  /\ stop' = TRUE
  /\ pc' = [pc EXCEPT !["ctrl"] = "recv"]
  /\ UNCHANGED <<vpc, data, vq, dataRecv, dataSend, vSend, spawned, statsQ, statsSend, istatsQ, istatsSend, nextBatch, cur, errs>>

\* ---------------------------------------------------------------- environment
Signal ==
  /\ pc["sig"] = "armed"
  /\ stop' = TRUE
  /\ pc' = [pc EXCEPT !["sig"] = "done"]
  /\ UNCHANGED <<vpc, data, vq, dataRecv, dataSend, vSend, spawned, statsQ, statsSend, istatsQ, istatsSend, nextBatch, cur, errs>>

ValRecv1 == 1 \in Vals /\ ValRecv(1)
ValRecv2 == 2 \in Vals /\ ValRecv(2)
ValRecv3 == 3 \in Vals /\ ValRecv(3)

AllDone == /\ \A t \in Threads : (pc[t] = "done") \/ (t = "sig" /\ pc[t] = "armed")
           /\ \A i \in Vals : vpc[i] \in {"done", "unborn"}

Finished == AllDone /\ UNCHANGED vars

Next ==
  \/ ReaderCheck \/ ReaderSend \/ ReaderDropScanner \/ ReaderExit
  \/ AnaCheck \/ AnaRecv \/ AnaDispatchOld \/ AnaDispatchNew \/ AnaClose \/ AnaJoin
  \/ ValRecv1 \/ ValRecv2 \/ ValRecv3
  \/ MainForward \/ MainJoinReader \/ MainJoinAna \/ MainJoinCtrl
  \/ CtrlRecv \/ CtrlStore
  \/ Signal
  \/ Finished

Fairness ==
  /\ WF_vars(ReaderCheck) /\ WF_vars(ReaderSend) /\ WF_vars(ReaderDropScanner) /\ WF_vars(ReaderExit)
  /\ WF_vars(AnaCheck) /\ WF_vars(AnaRecv) /\ WF_vars(AnaDispatchOld) /\ WF_vars(AnaDispatchNew) /\ WF_vars(AnaClose) /\ WF_vars(AnaJoin)
  /\ WF_vars(ValRecv1) /\ WF_vars(ValRecv2) /\ WF_vars(ValRecv3)
  /\ WF_vars(MainForward) /\ WF_vars(MainJoinReader) /\ WF_vars(MainJoinAna) /\ WF_vars(MainJoinCtrl)
  /\ WF_vars(CtrlRecv) /\ WF_vars(CtrlStore)

Spec == Init /\ [][Next]_vars /\ Fairness

\* ---------------------------------------------------------------- properties
TypeOK ==
  /\ Len(data) <= CapD
  /\ \A i \in Vals : Len(vq[i]) <= CapV
  /\ dataRecv \in 0..1 /\ dataSend \in 0..1 /\ statsSend \in 0..(NV + 2)

\* every worker is joined before main ends
OrderlyEnd == (pc["main"] = "done") => ((\A t \in Threads : (t = "sig") \/ (pc[t] = "done"))
                                        /\ (\A i \in Vals : vpc[i] \in {"done", "unborn"}))

\* no deadlock: TLC's deadlock check, with `Finished` as the only step of a terminated system
Termination == <>AllDone
=============================================================================
