SPECIFICATION Spec
CONSTANTS
  NV = 2
  Batches = 4
  CapD = 1
  CapV = 1
  ErrAt = {2, 3}
  ErrCap = 1
  FatalAt = 0
  WithSignal = TRUE
INVARIANTS TypeOK OrderlyEnd
PROPERTIES Termination
